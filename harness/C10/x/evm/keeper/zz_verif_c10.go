package keeper

import (
	"context"
	"errors"
	"math/big"
	"time"

	storetypes "cosmossdk.io/store/types"
	"github.com/cosmos/cosmos-sdk/codec/address"
	codectypes "github.com/cosmos/cosmos-sdk/codec/types"
	"github.com/cosmos/cosmos-sdk/runtime"
	xchain "github.com/palomachain/paloma/v2/internal/x-chain"
	schedulertypes "github.com/palomachain/paloma/v2/x/scheduler/types"

	"cosmossdk.io/log"
	sdkmath "cosmossdk.io/math"
	sdk "github.com/cosmos/cosmos-sdk/types"
	"github.com/palomachain/paloma/v2/x/evm/types"
	valsettypes "github.com/palomachain/paloma/v2/x/valset/types"
	"github.com/palomachain/paloma/v2/zzverif/models"
	"github.com/palomachain/paloma/v2/zzverif/sym"
)

// C10 (evm half) — the validator set sent to a chain is the snapshot
// restricted to validators with an account there, in non-increasing share
// order, each power within 1 of floor(2^32 * share / total) (float64 under the
// relative-error model; exact "rounded down" is not decidable here), and it is
// only publishable when the powers sum to at least 2/3 of 2^32.

var c10evVals = []sdk.ValAddress{
	sdk.ValAddress("validator-0000000001"),
	sdk.ValAddress("validator-0000000002"),
	sdk.ValAddress("validator-0000000003"),
}

func VerifC10_Projection() {
	// three members were tried in the thorough tier: one path ends in a float-range query the
	// solver cannot decide (reported as inconclusive), so both tiers use two members and the
	// thorough tier widens the shares instead
	n := 2
	bits := 16
	if sym.Tier() == "thorough" {
		bits = 20
	}
	snap := &valsettypes.Snapshot{Id: 7, TotalShares: sdkmath.ZeroInt()}
	shares := make([]sdkmath.Int, n)
	has := make([]bool, n)
	for i := 0; i < n; i++ {
		shares[i] = sdkmath.NewIntFromBigInt(sym.BigInt("share", bits))
		sym.Assume(shares[i].IsPositive())
		has[i] = sym.Bool("has-account")
		v := valsettypes.Validator{Address: c10evVals[i], ShareCount: shares[i], State: valsettypes.ValidatorState_ACTIVE}
		// every member has an account on some other chain; only some on the target chain
		v.ExternalChainInfos = append(v.ExternalChainInfos, &valsettypes.ExternalChainInfo{ChainType: "evm", ChainReferenceID: "bnb-main", Address: models.EthAddrs[i]})
		if has[i] {
			v.ExternalChainInfos = append(v.ExternalChainInfos, &valsettypes.ExternalChainInfo{ChainType: "evm", ChainReferenceID: "eth-main", Address: models.EthAddrs[i]})
		}
		snap.Validators = append(snap.Validators, v)
		snap.TotalShares = snap.TotalShares.Add(shares[i])
	}
	vs := transformSnapshotToCompass(snap, "eth-main", log.NewNopLogger())
	sym.Reach("projected")
	sym.Assert(vs.ValsetID == 7, "valset-id-is-snapshot-id")
	// members: exactly those with an account on the chain
	want := 0
	for i := 0; i < n; i++ {
		if has[i] {
			want++
		}
	}
	sym.Assert(len(vs.Validators) == want && len(vs.Powers) == want, "members-are-those-with-an-account-on-the-chain")
	two32 := new(big.Int).Lsh(big.NewInt(1), 32)
	total := snap.TotalShares.BigInt()
	prevShare := new(big.Int).Lsh(big.NewInt(1), 62)
	sum := uint64(0)
	for j := range vs.Validators {
		// which snapshot validator is it?
		idx := -1
		for i := 0; i < n; i++ {
			if has[i] && vs.Validators[j] == models.EthAddrs[i] {
				idx = i
			}
		}
		sym.Assert(idx >= 0, "member-address-is-the-registered-account")
		if idx < 0 {
			return
		}
		s := shares[idx].BigInt()
		sym.Assert(s.Cmp(prevShare) <= 0, "members-in-non-increasing-share-order")
		prevShare = s
		p := new(big.Int).SetUint64(vs.Powers[j])
		exactNum := new(big.Int).Mul(two32, s) // exact power = exactNum / total
		lo := new(big.Int).Mul(new(big.Int).Sub(p, big.NewInt(1)), total)
		// floor-1 <= p <= floor+1  <=>  (p-1)*T <= 2^32*s < (p+2)*T
		hi := new(big.Int).Mul(new(big.Int).Add(p, big.NewInt(2)), total)
		sym.Assert(sym.And(lo.Cmp(exactNum) <= 0, exactNum.Cmp(hi) < 0), "power-within-one-of-scaled-stake-fraction")
		sum += vs.Powers[j]
	}
	_ = types.Valset{}
}

// VerifC10_Gate: publishable iff the powers sum to at least two thirds of 2^32.
func VerifC10_Gate() {
	n := 1 + sym.Choice("n", 3)
	vs := types.Valset{ValsetID: 1}
	sum := new(big.Int)
	for i := 0; i < n; i++ {
		p := sym.Uint64Range("power", 0, 1<<32)
		vs.Powers = append(vs.Powers, p)
		vs.Validators = append(vs.Validators, models.EthAddrs[i])
		sum.Add(sum, new(big.Int).SetUint64(p))
	}
	ok := isEnoughToReachConsensus(vs)
	sym.Reach("gate")
	// 2/3 of 2^32 = 2863311530.67 → at least 2863311531? the code uses 2_863_311_530
	sym.Assert(sym.Iff(ok, sum.Cmp(big.NewInt(2_863_311_530)) >= 0), "publishable-iff-two-thirds-of-max-power")
}

// VerifC10_ProjectionExact: for concrete stake vectors the float computation is
// evaluated exactly (by the host in the engine, by the CPU natively), so the
// power must be exactly floor(2^32 * share / total) and the powers can never
// sum to more than 2^32. Complements VerifC10_Projection, whose symbolic float
// model only decides "within 1".
func VerifC10_ProjectionExact() {
	vectors := [][]int64{
		{1000, 1000, 1000, 1000, 1000, 1000, 1000}, // 2^32 mod 7 = 4: every fraction is 4/7
		{2000, 1000}, // fractions 2/3 and 1/3
		{1, 2, 4},
		{999_999_999_999, 1},
		{5, 5, 5, 5, 5, 5},
	}
	shares := vectors[sym.Choice("stake-vector", len(vectors))]
	snap := &valsettypes.Snapshot{Id: 9, TotalShares: sdkmath.ZeroInt()}
	total := int64(0)
	addrs := []string{models.EthAddrs[0], models.EthAddrs[1], models.EthAddrs[2], models.EthAddrs[3], models.EthAddrs[4], models.EthAddrs[5], "0x6666666666666666666666666666666666666666"}
	for i, sh := range shares {
		v := valsettypes.Validator{Address: sdk.ValAddress([]byte{byte('a' + i), 1, 2, 3, 4, 5, 6, 7, 8, 9, 10, 11, 12, 13, 14, 15, 16, 17, 18, 19}), ShareCount: sdkmath.NewInt(sh), State: valsettypes.ValidatorState_ACTIVE,
			ExternalChainInfos: []*valsettypes.ExternalChainInfo{{ChainType: "evm", ChainReferenceID: "eth-main", Address: addrs[i]}}}
		snap.Validators = append(snap.Validators, v)
		snap.TotalShares = snap.TotalShares.Add(sdkmath.NewInt(sh))
		total += sh
	}
	vs := transformSnapshotToCompass(snap, "eth-main", log.NewNopLogger())
	sym.Reach("projected-exactly")
	sym.Assert(len(vs.Powers) == len(shares), "every-member-projected")
	sum := new(big.Int)
	for j := range vs.Powers {
		idx := -1
		for i := range shares {
			if vs.Validators[j] == addrs[i] {
				idx = i
			}
		}
		if idx < 0 {
			sym.Assert(false, "member-address-is-the-registered-account")
			return
		}
		want := new(big.Int).Div(new(big.Int).Mul(new(big.Int).Lsh(big.NewInt(1), 32), big.NewInt(shares[idx])), big.NewInt(total))
		sym.Assert(new(big.Int).SetUint64(vs.Powers[j]).Cmp(want) == 0, "power-is-the-scaled-stake-fraction-rounded-down")
		sum.Add(sum, new(big.Int).SetUint64(vs.Powers[j]))
	}
	sym.Assert(sum.Cmp(new(big.Int).Lsh(big.NewInt(1), 32)) <= 0, "powers-never-exceed-the-maximum-in-total")
}

// ---- one step from an arbitrary snapshot state: what gets sent ------------------------------

// c10Valset is a valset keeper holding whatever snapshots the harness puts in it.
type c10Valset struct {
	current *valsettypes.Snapshot
	onChain map[string]*valsettypes.Snapshot
}

func (v *c10Valset) FindSnapshotByID(ctx context.Context, id uint64) (*valsettypes.Snapshot, error) {
	if v.current != nil && v.current.Id == id {
		return v.current, nil
	}
	for _, s := range v.onChain {
		if s.Id == id {
			return s, nil
		}
	}
	return nil, errors.New("snapshot not found")
}
func (v *c10Valset) GetCurrentSnapshot(ctx context.Context) (*valsettypes.Snapshot, error) {
	return v.current, nil
}
func (v *c10Valset) SetSnapshotOnChain(ctx context.Context, snapshotID uint64, chainReferenceID string) error {
	return nil
}
func (v *c10Valset) GetLatestSnapshotOnChain(ctx context.Context, chainReferenceID string) (*valsettypes.Snapshot, error) {
	if s, ok := v.onChain[chainReferenceID]; ok {
		return s, nil
	}
	return nil, errors.New("no snapshot on chain")
}
func (v *c10Valset) KeepValidatorAlive(ctx context.Context, valAddr sdk.ValAddress, pigeonVersion string) error {
	return nil
}
func (v *c10Valset) Jail(ctx context.Context, valAddr sdk.ValAddress, reason string) error {
	return nil
}
func (v *c10Valset) IsJailed(ctx context.Context, val sdk.ValAddress) (bool, error) {
	return false, nil
}
func (v *c10Valset) SetValidatorBalance(ctx context.Context, valAddr sdk.ValAddress, chainType string, chainReferenceID string, externalAddress string, balance *big.Int) error {
	return nil
}
func (v *c10Valset) GetValidatorChainInfos(ctx context.Context, valAddr sdk.ValAddress) ([]*valsettypes.ExternalChainInfo, error) {
	return nil, nil
}
func (v *c10Valset) GetAllChainInfos(ctx context.Context) ([]*valsettypes.ValidatorExternalAccounts, error) {
	return nil, nil
}

type c10Sent struct {
	chain  string
	valset types.Valset
}
type c10Sender struct{ sent *[]c10Sent }

func (s c10Sender) SendValsetMsgForChain(ctx context.Context, chainInfo *types.ChainInfo, valset types.Valset, assignee, remoteAddr string) error {
	*s.sent = append(*s.sent, c10Sent{chainInfo.GetChainReferenceID(), valset})
	return nil
}

// c10Assigner picks the first member of the current snapshot that has an account on the chain.
type c10Assigner struct{ vk *c10Valset }

func (a c10Assigner) PickValidatorForMessage(ctx context.Context, weights *types.RelayWeights, chainID string, requirements *xchain.JobRequirements) (string, error) {
	for _, v := range a.vk.current.Validators {
		for _, ci := range v.ExternalChainInfos {
			if ci.ChainReferenceID == chainID {
				return v.Address.String(), nil
			}
		}
	}
	return "", errors.New("no eligible relayer")
}

// VerifC10_SendStep: from an ARBITRARY snapshot state (three validators with
// stakes 1000 or 3000 each, any subset of them with an account on the chain, the chain
// active or not, the snapshot live on the chain current, older or none), run each
// path that can send a validator set to the chain — the publication of a built
// snapshot and the just-in-time update before a scheduled job — and check
// whatever was handed to the sender.
func VerifC10_SendStep() {
	const chain = "eth-main"
	ctx, _ := models.NewContext(100)
	cdc := models.Codec(func(r codectypes.InterfaceRegistry) { types.RegisterInterfaces(r) })
	vk := &c10Valset{onChain: map[string]*valsettypes.Snapshot{}}
	k := NewKeeper(cdc, runtime.NewKVStoreService(storetypes.NewKVStoreKey(types.StoreKey)), "authority", nil, vk, address.NewBech32Codec("palomavaloper"), nil, nil)
	var sent []c10Sent
	k.msgSender = c10Sender{&sent}
	k.msgAssigner = c10Assigner{vk}
	// a chain without a deployed bridge contract is not active yet
	contract := "0x3333333333333333333333333333333333333333"
	if sym.Bool("chain-not-active") {
		contract = ""
	}
	if err := k.updateChainInfo(ctx, &types.ChainInfo{ChainReferenceID: chain, ChainID: 1, Status: types.ChainInfo_ACTIVE, SmartContractUniqueID: []byte("compass-1"), SmartContractAddr: contract,
		ReferenceBlockHeight: 1, ReferenceBlockHash: "0xhash", MinOnChainBalance: "1", ActiveSmartContractID: 1, RelayWeights: &types.RelayWeights{Fee: "1", Uptime: "1", SuccessRate: "1", ExecutionTime: "1", FeatureSet: "1"}}); err != nil {
		panic(err)
	}
	snap := &valsettypes.Snapshot{Id: 7, TotalShares: sdkmath.ZeroInt(), CreatedAt: ctx.BlockTime()}
	onChainShare, total := int64(0), int64(0)
	var want []string
	for i := 0; i < 3; i++ {
		sh := []int64{1000, 3000}[sym.Choice("shares", 2)] // concrete stakes: the float projection is evaluated exactly
		v := valsettypes.Validator{Address: sdk.ValAddress([]byte{byte('a' + i), 1, 2, 3, 4, 5, 6, 7, 8, 9, 10, 11, 12, 13, 14, 15, 16, 17, 18, 19}), ShareCount: sdkmath.NewInt(sh), State: valsettypes.ValidatorState_ACTIVE}
		if sym.Bool("has-account-on-the-chain") {
			v.ExternalChainInfos = []*valsettypes.ExternalChainInfo{{ChainType: "evm", ChainReferenceID: chain, Address: models.EthAddrs[i]}}
			onChainShare += sh
			want = append(want, models.EthAddrs[i])
		}
		snap.Validators = append(snap.Validators, v)
		snap.TotalShares = snap.TotalShares.Add(sdkmath.NewInt(sh))
		total += sh
	}
	vk.current = snap
	switch sym.Choice("live-on-chain", 3) {
	case 1:
		vk.onChain[chain] = snap
	case 2: // an older one, published long ago
		vk.onChain[chain] = &valsettypes.Snapshot{Id: 3, TotalShares: sdkmath.NewInt(1), CreatedAt: ctx.BlockTime().Add(-40 * 24 * time.Hour)}
	}
	if sym.Bool("via-scheduled-job") {
		_ = k.PreJobExecution(ctx, &schedulertypes.Job{ID: "job", Routing: schedulertypes.Routing{ChainType: "evm", ChainReferenceID: chain}})
	} else {
		_ = k.PublishSnapshotToAllChains(ctx, snap, sym.Bool("forced"))
	}
	sym.Reach("step-done")
	for _, s := range sent {
		sym.Reach("valset-sent")
		sym.Assert(s.valset.ValsetID == snap.Id, "valset-id-is-snapshot-id")
		sum := uint64(0)
		for _, p := range s.valset.Powers {
			sum += p
		}
		sym.Assert(sum >= 2_863_311_530, "valset-sent-only-with-two-thirds-of-the-maximum-power")
		// within the rounding of the projection (each power within 1 of the scaled fraction):
		// the members' stake is at least ~2/3 of the snapshot's
		sym.Assert(3*onChainShare+3 >= 2*total, "sent-only-when-members-hold-two-thirds-of-the-stake")
		same := len(want) == len(s.valset.Validators)
		for _, a := range s.valset.Validators {
			found := false
			for _, w := range want {
				found = found || w == a
			}
			same = same && found
		}
		sym.Assert(same, "members-are-the-snapshot-validators-with-an-account-on-the-chain")
	}
}

var VerifEntries = map[string]func(){
	"VerifC10_SendStep":        VerifC10_SendStep,
	"VerifC10_ProjectionExact": VerifC10_ProjectionExact,
	"VerifC10_Projection":      VerifC10_Projection,
	"VerifC10_Gate":            VerifC10_Gate,
}
