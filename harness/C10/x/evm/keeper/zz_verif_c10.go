package keeper

import (
	"math/big"

	"cosmossdk.io/log"
	sdkmath "cosmossdk.io/math"
	sdk "github.com/cosmos/cosmos-sdk/types"
	"github.com/palomachain/paloma/v2/x/evm/types"
	valsettypes "github.com/palomachain/paloma/v2/x/valset/types"
	"github.com/palomachain/paloma/v2/zzverif/models"
	"github.com/palomachain/paloma/v2/zzverif/sym"
)

// C10 (evm half) — the validator set sent to a chain is the snapshot
// restricted to validators with an account there, in non-increasing share
// order, each power within 1 of floor(2^32 * share / total) (float64 under the
// relative-error model; exact "rounded down" is not decidable here), and it is
// only publishable when the powers sum to at least 2/3 of 2^32.

var c10evVals = []sdk.ValAddress{
	sdk.ValAddress("validator-0000000001"),
	sdk.ValAddress("validator-0000000002"),
	sdk.ValAddress("validator-0000000003"),
}

func VerifC10_Projection() {
	// three members were tried in the thorough tier: one path ends in a float-range query the
	// solver cannot decide (reported as inconclusive), so both tiers use two members and the
	// thorough tier widens the shares instead
	n := 2
	bits := 16
	if sym.Tier() == "thorough" {
		bits = 20
	}
	snap := &valsettypes.Snapshot{Id: 7, TotalShares: sdkmath.ZeroInt()}
	shares := make([]sdkmath.Int, n)
	has := make([]bool, n)
	for i := 0; i < n; i++ {
		shares[i] = sdkmath.NewIntFromBigInt(sym.BigInt("share", bits))
		sym.Assume(shares[i].IsPositive())
		has[i] = sym.Bool("has-account")
		v := valsettypes.Validator{Address: c10evVals[i], ShareCount: shares[i], State: valsettypes.ValidatorState_ACTIVE}
		// every member has an account on some other chain; only some on the target chain
		v.ExternalChainInfos = append(v.ExternalChainInfos, &valsettypes.ExternalChainInfo{ChainType: "evm", ChainReferenceID: "bnb-main", Address: models.EthAddrs[i]})
		if has[i] {
			v.ExternalChainInfos = append(v.ExternalChainInfos, &valsettypes.ExternalChainInfo{ChainType: "evm", ChainReferenceID: "eth-main", Address: models.EthAddrs[i]})
		}
		snap.Validators = append(snap.Validators, v)
		snap.TotalShares = snap.TotalShares.Add(shares[i])
	}
	vs := transformSnapshotToCompass(snap, "eth-main", log.NewNopLogger())
	sym.Reach("projected")
	sym.Assert(vs.ValsetID == 7, "valset-id-is-snapshot-id")
	// members: exactly those with an account on the chain
	want := 0
	for i := 0; i < n; i++ {
		if has[i] {
			want++
		}
	}
	sym.Assert(len(vs.Validators) == want && len(vs.Powers) == want, "members-are-those-with-an-account-on-the-chain")
	two32 := new(big.Int).Lsh(big.NewInt(1), 32)
	total := snap.TotalShares.BigInt()
	prevShare := new(big.Int).Lsh(big.NewInt(1), 62)
	sum := uint64(0)
	for j := range vs.Validators {
		// which snapshot validator is it?
		idx := -1
		for i := 0; i < n; i++ {
			if has[i] && vs.Validators[j] == models.EthAddrs[i] {
				idx = i
			}
		}
		sym.Assert(idx >= 0, "member-address-is-the-registered-account")
		if idx < 0 {
			return
		}
		s := shares[idx].BigInt()
		sym.Assert(s.Cmp(prevShare) <= 0, "members-in-non-increasing-share-order")
		prevShare = s
		p := new(big.Int).SetUint64(vs.Powers[j])
		exactNum := new(big.Int).Mul(two32, s) // exact power = exactNum / total
		lo := new(big.Int).Mul(new(big.Int).Sub(p, big.NewInt(1)), total)
		// floor-1 <= p <= floor+1  <=>  (p-1)*T <= 2^32*s < (p+2)*T
		hi := new(big.Int).Mul(new(big.Int).Add(p, big.NewInt(2)), total)
		sym.Assert(sym.And(lo.Cmp(exactNum) <= 0, exactNum.Cmp(hi) < 0), "power-within-one-of-scaled-stake-fraction")
		sum += vs.Powers[j]
	}
	_ = types.Valset{}
}

// VerifC10_Gate: publishable iff the powers sum to at least two thirds of 2^32.
func VerifC10_Gate() {
	n := 1 + sym.Choice("n", 3)
	vs := types.Valset{ValsetID: 1}
	sum := new(big.Int)
	for i := 0; i < n; i++ {
		p := sym.Uint64Range("power", 0, 1<<32)
		vs.Powers = append(vs.Powers, p)
		vs.Validators = append(vs.Validators, models.EthAddrs[i])
		sum.Add(sum, new(big.Int).SetUint64(p))
	}
	ok := isEnoughToReachConsensus(vs)
	sym.Reach("gate")
	// 2/3 of 2^32 = 2863311530.67 → at least 2863311531? the code uses 2_863_311_530
	sym.Assert(sym.Iff(ok, sum.Cmp(big.NewInt(2_863_311_530)) >= 0), "publishable-iff-two-thirds-of-max-power")
}

// VerifC10_ProjectionExact: for concrete stake vectors the float computation is
// evaluated exactly (by the host in the engine, by the CPU natively), so the
// power must be exactly floor(2^32 * share / total) and the powers can never
// sum to more than 2^32. Complements VerifC10_Projection, whose symbolic float
// model only decides "within 1".
func VerifC10_ProjectionExact() {
	vectors := [][]int64{
		{1000, 1000, 1000, 1000, 1000, 1000, 1000}, // 2^32 mod 7 = 4: every fraction is 4/7
		{2000, 1000}, // fractions 2/3 and 1/3
		{1, 2, 4},
		{999_999_999_999, 1},
		{5, 5, 5, 5, 5, 5},
	}
	shares := vectors[sym.Choice("stake-vector", len(vectors))]
	snap := &valsettypes.Snapshot{Id: 9, TotalShares: sdkmath.ZeroInt()}
	total := int64(0)
	addrs := []string{models.EthAddrs[0], models.EthAddrs[1], models.EthAddrs[2], models.EthAddrs[3], models.EthAddrs[4], models.EthAddrs[5], "0x6666666666666666666666666666666666666666"}
	for i, sh := range shares {
		v := valsettypes.Validator{Address: sdk.ValAddress([]byte{byte('a' + i), 1, 2, 3, 4, 5, 6, 7, 8, 9, 10, 11, 12, 13, 14, 15, 16, 17, 18, 19}), ShareCount: sdkmath.NewInt(sh), State: valsettypes.ValidatorState_ACTIVE,
			ExternalChainInfos: []*valsettypes.ExternalChainInfo{{ChainType: "evm", ChainReferenceID: "eth-main", Address: addrs[i]}}}
		snap.Validators = append(snap.Validators, v)
		snap.TotalShares = snap.TotalShares.Add(sdkmath.NewInt(sh))
		total += sh
	}
	vs := transformSnapshotToCompass(snap, "eth-main", log.NewNopLogger())
	sym.Reach("projected-exactly")
	sym.Assert(len(vs.Powers) == len(shares), "every-member-projected")
	sum := new(big.Int)
	for j := range vs.Powers {
		idx := -1
		for i := range shares {
			if vs.Validators[j] == addrs[i] {
				idx = i
			}
		}
		if idx < 0 {
			sym.Assert(false, "member-address-is-the-registered-account")
			return
		}
		want := new(big.Int).Div(new(big.Int).Mul(new(big.Int).Lsh(big.NewInt(1), 32), big.NewInt(shares[idx])), big.NewInt(total))
		sym.Assert(new(big.Int).SetUint64(vs.Powers[j]).Cmp(want) == 0, "power-is-the-scaled-stake-fraction-rounded-down")
		sum.Add(sum, new(big.Int).SetUint64(vs.Powers[j]))
	}
	sym.Assert(sum.Cmp(new(big.Int).Lsh(big.NewInt(1), 32)) <= 0, "powers-never-exceed-the-maximum-in-total")
}

var VerifEntries = map[string]func(){
	"VerifC10_ProjectionExact": VerifC10_ProjectionExact,
	"VerifC10_Projection":      VerifC10_Projection,
	"VerifC10_Gate":            VerifC10_Gate,
}
