package keeper

import (
	sdkmath "cosmossdk.io/math"
	stakingtypes "github.com/cosmos/cosmos-sdk/x/staking/types"
	"github.com/palomachain/paloma/v2/x/valset/types"
	"github.com/palomachain/paloma/v2/zzverif/sym"
)

// C10 (valset half) — every snapshot lists exactly the bonded, unjailed
// validators with an account on every active chain, share = bonded stake,
// total = sum; ids strictly increase; the current snapshot has the highest id;
// stored snapshots only ever gain entries in Chains.

var c10Chains = []string{"eth-main", "bnb-main"}

func c10N() int {
	if sym.Tier() == "thorough" {
		return 3
	}
	return 2
}

type c10Val struct {
	status stakingtypes.BondStatus
	jailed bool
	tokens sdkmath.Int
	has    [2]bool
}

// c10Populate gives each validator an arbitrary staking state and arbitrary
// accounts on the two chains; returns the ghost description.
var c10TokenAlphabet = []int64{1_000_000, 2_000_000, 5_000_000}

func c10Tokens(symbolic bool, name string) sdkmath.Int {
	if symbolic {
		return sdkmath.NewIntFromBigInt(sym.BigInt(name, 62))
	}
	return sdkmath.NewInt(c10TokenAlphabet[sym.Choice(name, len(c10TokenAlphabet))])
}

func c10Populate(env *VEnv, n int, symbolicTokens, full bool) []c10Val {
	statuses := []stakingtypes.BondStatus{stakingtypes.Bonded, stakingtypes.Unbonding, stakingtypes.Unbonded}
	out := make([]c10Val, n)
	for i := 0; i < n; i++ {
		v := c10Val{
			status: stakingtypes.Bonded,
			jailed: sym.Bool("jailed"),
			tokens: c10Tokens(symbolicTokens, "tokens"),
		}
		// x/staking never keeps a validator with zero tokens (it is removed when its
		// last delegation leaves): documented precondition, not a finding
		sym.Assume(v.tokens.IsPositive())
		if full {
			v.status = statuses[sym.Choice("status", 3)]
		}
		env.Staking.Add(VVals[i], v.status, v.jailed, v.tokens, 0)
		var infos []*types.ExternalChainInfo
		for c := range c10Chains {
			if !full || sym.Bool("has-account") {
				v.has[c] = true
				infos = append(infos, VChainInfo(i, c10Chains[c]))
			}
		}
		if len(infos) > 0 {
			store := env.K.externalChainInfoStore(env.Ctx, VVals[i])
			store.Set([]byte(VVals[i].String()), env.K.cdc.MustMarshal(&types.ValidatorExternalAccounts{Address: VVals[i], ExternalChainInfo: infos}))
		}
		out[i] = v
	}
	return out
}

func c10Expected(vals []c10Val, active [2]bool, i int) bool {
	v := vals[i]
	if v.status != stakingtypes.Bonded || v.jailed {
		return false
	}
	for c := 0; c < 2; c++ {
		if active[c] && !v.has[c] {
			return false
		}
	}
	return true
}

// VerifC10_Snapshot: one build from an arbitrary staking state (stakes fully symbolic).
func VerifC10_Snapshot() { c10Run(true, false) }

// VerifC10_Sequence: build, activate on a chain, change one validator, build
// again (stakes from a 3-element alphabet so that the 1% worthiness test stays
// linear).
func VerifC10_Sequence() { c10Run(sym.Tier() == "thorough", true) }

func c10Run(symbolicTokens, second bool) {
	env := NewVEnv(100)
	n := c10N()
	var active [2]bool
	for c := range c10Chains {
		if second || sym.Bool("chain-active") {
			active[c] = true
			env.Evm.Active = append(env.Evm.Active, c10Chains[c])
		}
	}
	vals := c10Populate(env, n, symbolicTokens, !second)

	snap, err := env.K.TriggerSnapshotBuild(env.Ctx)
	sym.Assert(err == nil, "first-build-succeeds")
	sym.Assert(snap != nil, "first-snapshot-is-always-taken")
	sym.Reach("snapshot-built")
	sym.Assert(snap.Id == 1, "first-id-is-one")

	// membership, shares, total
	total := sdkmath.ZeroInt()
	k := 0
	for i := 0; i < n; i++ {
		want := c10Expected(vals, active, i)
		got, found := snap.GetValidator(VVals[i])
		sym.Assert(found == want, "member-iff-bonded-unjailed-and-on-all-active-chains")
		if found {
			k++
			sym.Assert(got.ShareCount.Equal(vals[i].tokens), "share-equals-bonded-stake")
			total = total.Add(vals[i].tokens)
		}
	}
	sym.Assert(len(snap.Validators) == k, "no-foreign-members")
	sym.Assert(snap.TotalShares.Equal(total), "total-is-sum-of-shares")
	cur, err := env.K.GetCurrentSnapshot(env.Ctx)
	sym.Assert(err == nil && cur != nil && cur.Id == 1, "current-is-the-new-snapshot")

	if !second {
		return
	}
	// second round: change one validator's staking state, activate on a chain, build again
	stored1, _ := env.K.FindSnapshotByID(env.Ctx, 1)
	if err := env.K.SetSnapshotOnChain(env.Ctx, 1, c10Chains[0]); err != nil {
		panic(err)
	}
	j := sym.Choice("changed", n)
	sv := env.Staking.Find(VVals[j])
	sv.Jailed = sym.Bool("jailed2")
	sv.Tokens = c10Tokens(symbolicTokens, "tokens2")
	sym.Assume(sv.Tokens.IsPositive())
	vals[j].jailed, vals[j].tokens = sv.Jailed, sv.Tokens
	env.Ctx = env.Ctx.WithBlockHeight(101)
	snap2, err := env.K.TriggerSnapshotBuild(env.Ctx)
	sym.Assert(err == nil, "second-build-succeeds")
	if snap2 != nil {
		sym.Reach("second-snapshot-taken")
		sym.Assert(snap2.Id == 2, "ids-strictly-increase")
		for i := 0; i < n; i++ {
			_, found := snap2.GetValidator(VVals[i])
			sym.Assert(found == c10Expected(vals, active, i), "second-member-iff-eligible")
		}
		cur, _ := env.K.GetCurrentSnapshot(env.Ctx)
		sym.Assert(cur != nil && cur.Id == 2, "current-has-highest-id")
	} else {
		sym.Reach("second-snapshot-not-worthy")
		cur, _ := env.K.GetCurrentSnapshot(env.Ctx)
		sym.Assert(cur != nil && cur.Id == 1, "current-unchanged-when-not-worthy")
	}
	// snapshot 1 is immutable except for its Chains list
	after, err := env.K.FindSnapshotByID(env.Ctx, 1)
	sym.Assert(err == nil, "old-snapshot-still-stored")
	sym.Assert(len(after.Chains) == 1 && after.Chains[0] == c10Chains[0], "chains-list-gained-exactly-the-activated-chain")
	sym.Assert(after.TotalShares.Equal(stored1.TotalShares) && len(after.Validators) == len(stored1.Validators) && after.Height == stored1.Height, "stored-snapshot-body-unchanged")
	for i := range after.Validators {
		sym.Assert(after.Validators[i].Address.Equals(stored1.Validators[i].Address) && after.Validators[i].ShareCount.Equal(stored1.Validators[i].ShareCount), "stored-snapshot-members-unchanged")
	}
	// the same snapshot goes live on the other chain as well: the list only grows
	if err := env.K.SetSnapshotOnChain(env.Ctx, 1, c10Chains[1]); err != nil {
		panic(err)
	}
	after2, err := env.K.FindSnapshotByID(env.Ctx, 1)
	sym.Assert(err == nil, "old-snapshot-still-stored")
	has := func(c string) bool {
		for _, x := range after2.Chains {
			if x == c {
				return true
			}
		}
		return false
	}
	sym.Assert(has(c10Chains[0]) && has(c10Chains[1]) && len(after2.Chains) == 2, "chains-are-only-ever-added-to-a-stored-snapshot")
	sym.Assert(after2.TotalShares.Equal(stored1.TotalShares) && len(after2.Validators) == len(stored1.Validators), "stored-snapshot-body-unchanged")
	live, err := env.K.GetLatestSnapshotOnChain(env.Ctx, c10Chains[0])
	sym.Assert(err == nil && live != nil && live.Id == 1, "snapshot-stays-live-on-the-earlier-chain")
}

var VerifEntries = map[string]func(){
	"VerifC10_Snapshot": VerifC10_Snapshot,
	"VerifC10_Sequence": VerifC10_Sequence,
}
