package wired

import (
	"bytes"
	"encoding/hex"
	"encoding/json"
	schedulerbindings "github.com/palomachain/paloma/v2/x/scheduler/bindings"
	schedulerbindingstypes "github.com/palomachain/paloma/v2/x/scheduler/bindings/types"

	sdkmath "cosmossdk.io/math"
	sdk "github.com/cosmos/cosmos-sdk/types"
	"github.com/palomachain/paloma/v2/util/libmsg"
	evmtypes "github.com/palomachain/paloma/v2/x/evm/types"
	schedulerkeeper "github.com/palomachain/paloma/v2/x/scheduler/keeper"
	schedulertypes "github.com/palomachain/paloma/v2/x/scheduler/types"
	treasurytypes "github.com/palomachain/paloma/v2/x/treasury/types"
	valsettypes "github.com/palomachain/paloma/v2/x/valset/types"
	"github.com/palomachain/paloma/v2/zzverif/sym"
)

// C17 — jobs are immutable; each successful run enqueues exactly the stored
// call (or the caller's payload iff the job is payload-modifiable) followed by
// the 32-byte left-padded address of the requester; a failed request enqueues
// no contract call.

var (
	c17Owner = sdk.AccAddress("user-a--------------")
	c17Other = sdk.AccAddress("user-b--------------")
)

const c17Target = "0x6666666666666666666666666666666666666666"

func c17Meta(who sdk.AccAddress) valsettypes.MsgMetadata {
	return valsettypes.MsgMetadata{Creator: who.String(), Signers: []string{who.String()}}
}

// c17Payload renders the call data p in one of the spellings the job
// verifier accepts: plain hex, 0x / 0X prefixed, or with an odd number of
// digits (one leading nibble 0xf, i.e. the byte 0x0f in front of p). It
// returns the JSON and the bytes the spelling denotes.
func c17Payload(p []byte, spelling int) ([]byte, []byte) {
	h := hex.EncodeToString(p)
	want := p
	switch spelling {
	case 1:
		h = "0x" + h
	case 2:
		h = "0X" + h
	case 3:
		h = "f" + h
		want = append([]byte{0x0f}, p...)
	}
	bz, err := json.Marshal(&evmtypes.JobPayload{HexPayload: h})
	if err != nil {
		panic(err)
	}
	return bz, want
}

func c17Calls(env *Env) []*evmtypes.SubmitLogicCall {
	msgs, err := env.Consensus.GetMessagesFromQueue(env.Ctx, c06Queue, 0)
	if err != nil {
		panic(err)
	}
	var out []*evmtypes.SubmitLogicCall
	for _, q := range msgs {
		m, err := libmsg.ToEvmMessage(q, env.Cdc)
		if err != nil {
			panic(err)
		}
		if c := m.GetSubmitLogicCall(); c != nil {
			out = append(out, c)
		}
	}
	return out
}

func VerifC17_Jobs() {
	env := New(100)
	env.AddChain(ChainA, 1)
	for i := 0; i < 2; i++ {
		env.AddValidator(i, 10_000_000, ChainA)
	}
	if _, err := env.Valset.TriggerSnapshotBuild(env.Ctx); err != nil {
		panic(err)
	}
	if err := env.Treasury.SetCommunityFundFee(env.Ctx, "0.01"); err != nil {
		panic(err)
	}
	if err := env.Treasury.SetSecurityFee(env.Ctx, "0.01"); err != nil {
		panic(err)
	}
	// relayer selection fails when no validator has a fee on record
	relayersAvailable := sym.Bool("relayers-available")
	if relayersAvailable {
		for i := 0; i < 2; i++ {
			rfs := &treasurytypes.RelayerFeeSetting{ValAddress: Vals[i].String(), Fees: []treasurytypes.RelayerFeeSetting_FeeSetting{{ChainReferenceId: ChainA, Multiplicator: sdkmath.LegacyMustNewDecFromStr("1.1")}}}
			if err := env.Treasury.SetRelayerFee(env.Ctx, Vals[i], rfs); err != nil {
				panic(err)
			}
		}
	}
	for _, a := range []sdk.AccAddress{c17Owner, c17Other} {
		env.Accounts.SetAccount(env.Ctx, env.Accounts.NewAccountWithAddress(env.Ctx, a))
	}
	srv := schedulerkeeper.NewMsgServerImpl(*env.Scheduler)

	storedJSON, stored := c17Payload(sym.Bytes("stored-payload", 2), sym.Choice("stored-spelling", 4))
	modifiable := sym.Bool("payload-modifiable")
	def, _ := json.Marshal(&evmtypes.JobDefinition{Address: c17Target, ABI: "00"})
	job := &schedulertypes.Job{ID: "job1", Routing: schedulertypes.Routing{ChainType: "evm", ChainReferenceID: ChainA}, Definition: def, Payload: storedJSON, IsPayloadModifiable: modifiable}
	// the embedded job may arrive with an owner field already filled in (by anybody's name);
	// the owner on record is the creator who authorised the transaction all the same
	switch sym.Choice("preset-owner", 3) {
	case 1:
		job.Owner = c17Owner
	case 2:
		job.Owner = c17Other
	}
	_, err := srv.CreateJob(env.Ctx, &schedulertypes.MsgCreateJob{Job: job, Metadata: c17Meta(c17Owner)})
	if err != nil {
		// which payload spellings the verifier accepts is not the property's business
		sym.Reach("job-refused")
		return
	}
	sym.Reach("job-created")
	orig, err := env.Scheduler.GetJob(env.Ctx, "job1")
	if err != nil {
		panic(err)
	}
	sym.Assert(orig.Owner.Equals(c17Owner), "owner-is-the-creator")

	// a second creation under the same id (by anybody, with anything) is refused
	otherJSON, _ := c17Payload(sym.Bytes("other-payload", 2), 0)
	other := &schedulertypes.Job{ID: "job1", Routing: schedulertypes.Routing{ChainType: "evm", ChainReferenceID: ChainA}, Definition: def, Payload: otherJSON, IsPayloadModifiable: !modifiable}
	creator2 := []sdk.AccAddress{c17Owner, c17Other}[sym.Choice("second-creator", 2)]
	cctx, commit := env.Ctx.CacheContext()
	_, err = srv.CreateJob(cctx, &schedulertypes.MsgCreateJob{Job: other, Metadata: c17Meta(creator2)})
	if err == nil {
		commit()
	}
	sym.Assert(err != nil, "duplicate-job-id-refused")

	// execution requests
	n := 1
	if sym.Tier() == "thorough" {
		n = 2
	}
	for r := 0; r < n; r++ {
		caller := []sdk.AccAddress{c17Owner, c17Other}[sym.Choice("caller", 2)]
		var in, inBody []byte
		if sym.Bool("caller-supplies-payload") {
			spelling := 0
			if r == 0 { // (a second request uses the plain spelling)
				spelling = sym.Choice("caller-spelling", 4)
			}
			in, inBody = c17Payload(sym.Bytes("caller-payload", 2), spelling)
		}
		viaContract := sym.Bool("requested-by-contract")
		before := c17Calls(env)
		cctx, commit := env.Ctx.CacheContext()
		var runErr error
		var requester []byte
		if viaContract && in != nil && sym.Bool("through-the-cosmwasm-binding") {
			// the contract dispatches an execute_job message; its free-form sender field may say anything
			contract := sdk.AccAddress(sym.Bytes("contract-address", 32))
			requester = contract
			claimed := []string{"", contract.String(), c17Other.String(), "not an address"}[sym.Choice("binding-sender-field", 4)]
			_, _, _, runErr = schedulerbindings.NewMessenger(env.Scheduler, srv).DispatchMsg(cctx, contract, "",
				schedulerbindingstypes.Message{ExecuteJob: &schedulerbindingstypes.ExecuteJob{JobID: "job1", Sender: claimed, Payload: inBody}})
			sym.Reach("requested-through-the-binding")
		} else if viaContract {
			contract := sdk.AccAddress(sym.Bytes("contract-address", 32))
			requester = contract
			_, runErr = env.Scheduler.ExecuteJob(cctx, "job1", in, nil, contract)
		} else {
			requester = caller
			// the transaction may be signed by a fee grantee of the creator (accepted by the
			// ante decorator); the requester remains the creator
			meta := c17Meta(caller)
			if r == 0 && sym.Bool("signed-by-grantee") {
				other := c17Other
				if caller.Equals(c17Other) {
					other = c17Owner
				}
				meta.Signers = []string{other.String()}
			}
			_, runErr = srv.ExecuteJob(cctx, &schedulertypes.MsgExecuteJob{JobID: "job1", Payload: in, Metadata: meta})
		}
		if runErr == nil {
			commit()
		}
		after := c17Calls(env)
		if runErr != nil {
			sym.Reach("execution-failed")
			sym.Assert(len(after) == len(before), "failed-request-enqueues-no-contract-call")
			continue
		}
		sym.Reach("execution-ok")
		sym.Assert(relayersAvailable, "success-needs-an-eligible-relayer")
		sym.Assert(len(after) == len(before)+1, "exactly-one-contract-call-enqueued")
		if len(after) != len(before)+1 {
			return
		}
		call := after[len(after)-1]
		sym.Assert(call.HexContractAddress == c17Target, "call-targets-the-jobs-contract")
		wantBody := stored
		if modifiable && in != nil {
			wantBody = inBody
			sym.Reach("caller-payload-used")
		}
		sym.Assert(in == nil || modifiable, "caller-payload-only-for-modifiable-jobs")
		pad := make([]byte, 32-len(requester))
		want := append(append(append([]byte{}, wantBody...), pad...), requester...)
		sym.Assert(bytes.Equal(call.Payload, want), "payload-is-stored-or-caller-payload-plus-padded-requester")
	}
	// the stored job never changed
	now, err := env.Scheduler.GetJob(env.Ctx, "job1")
	sym.Assert(err == nil, "job-still-stored")
	sym.Assert(now.Owner.Equals(orig.Owner) && now.IsPayloadModifiable == orig.IsPayloadModifiable && bytes.Equal(now.Payload, orig.Payload) && bytes.Equal(now.Definition, orig.Definition) &&
		now.Routing.ChainReferenceID == orig.Routing.ChainReferenceID && now.Routing.ChainType == orig.Routing.ChainType && now.EnforceMEVRelay == orig.EnforceMEVRelay, "job-is-immutable")
}
