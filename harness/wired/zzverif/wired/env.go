// Package wired builds the real consensus, evm, valset, metrix and treasury
// keepers wired together the way app.go does, over the harness MultiStore and
// the SDK-keeper fakes. Harnesses for properties that span these modules live
// in this package and use the keepers' exported entry points.
package wired

import (
	"context"

	sdkmath "cosmossdk.io/math"
	storetypes "cosmossdk.io/store/types"
	"github.com/cosmos/cosmos-sdk/codec"
	"github.com/cosmos/cosmos-sdk/codec/address"
	codectypes "github.com/cosmos/cosmos-sdk/codec/types"
	"github.com/cosmos/cosmos-sdk/runtime"
	sdk "github.com/cosmos/cosmos-sdk/types"
	authtypes "github.com/cosmos/cosmos-sdk/x/auth/types"
	stakingtypes "github.com/cosmos/cosmos-sdk/x/staking/types"
	gethcommon "github.com/ethereum/go-ethereum/common"
	xchain "github.com/palomachain/paloma/v2/internal/x-chain"
	consensuskeeper "github.com/palomachain/paloma/v2/x/consensus/keeper"
	consensustypes "github.com/palomachain/paloma/v2/x/consensus/types"
	evmkeeper "github.com/palomachain/paloma/v2/x/evm/keeper"
	evmtypes "github.com/palomachain/paloma/v2/x/evm/types"
	metrixkeeper "github.com/palomachain/paloma/v2/x/metrix/keeper"
	metrixtypes "github.com/palomachain/paloma/v2/x/metrix/types"
	schedulerkeeper "github.com/palomachain/paloma/v2/x/scheduler/keeper"
	schedulertypes "github.com/palomachain/paloma/v2/x/scheduler/types"
	treasurykeeper "github.com/palomachain/paloma/v2/x/treasury/keeper"
	treasurytypes "github.com/palomachain/paloma/v2/x/treasury/types"
	valsetkeeper "github.com/palomachain/paloma/v2/x/valset/keeper"
	valsettypes "github.com/palomachain/paloma/v2/x/valset/types"
	"github.com/palomachain/paloma/v2/zzverif/models"
)

var Vals = []sdk.ValAddress{
	sdk.ValAddress("validator-0000000001"),
	sdk.ValAddress("validator-0000000002"),
	sdk.ValAddress("validator-0000000003"),
	sdk.ValAddress("validator-0000000004"),
}

const (
	ChainA = "eth-main"
	ChainB = "bnb-main"
)

// fakeSkyway implements evm types.SkywayKeeper.
type fakeSkyway struct{}

func (fakeSkyway) GetLastObservedSkywayNonce(ctx context.Context, chainReferenceID string) (uint64, error) {
	return 0, nil
}
func (fakeSkyway) CastAllERC20ToDenoms(ctx context.Context) ([]evmtypes.ERC20Record, error) {
	return nil, nil
}
func (fakeSkyway) CastChainERC20ToDenoms(ctx context.Context, chainReferenceID string) ([]evmtypes.ERC20Record, error) {
	return nil, nil
}

type Env struct {
	Cdc       codec.Codec
	Ctx       sdk.Context
	MS        *models.MultiStore
	Staking   *models.Staking
	Slashing  *models.Slashing
	Bank      *models.Bank
	Accounts  *models.Accounts
	Valset    *valsetkeeper.Keeper
	Metrix    *metrixkeeper.Keeper
	Treasury  *treasurykeeper.Keeper
	Consensus *consensuskeeper.Keeper
	Evm       *evmkeeper.Keeper
	Scheduler *schedulerkeeper.Keeper
}

func register(r codectypes.InterfaceRegistry) {
	consensustypes.RegisterInterfaces(r)
	evmtypes.RegisterInterfaces(r)
	valsettypes.RegisterInterfaces(r)
	metrixtypes.RegisterInterfaces(r)
	schedulertypes.RegisterInterfaces(r)
	treasurytypes.RegisterInterfaces(r)
	authtypes.RegisterInterfaces(r)
}

// New wires the keepers at the given height.
func New(height int64) *Env {
	ctx, ms := models.NewContext(height)
	cdc := models.Codec(register)
	st := models.NewStaking()
	sl := &models.Slashing{Staking: st}
	bank := models.NewBank(ms)
	accs := models.NewAccounts(ms, cdc)
	valCodec := address.NewBech32Codec("palomavaloper")

	metrix := metrixkeeper.NewKeeper(cdc, runtime.NewKVStoreService(storetypes.NewKVStoreKey(metrixtypes.StoreKey)), models.Subspace(cdc, metrixtypes.ModuleName), sl, st, valCodec)
	valset := valsetkeeper.NewKeeper(cdc, runtime.NewKVStoreService(storetypes.NewKVStoreKey(valsettypes.StoreKey)), models.Subspace(cdc, valsettypes.ModuleName), st, sl, sdkmath.NewInt(1_000_000), valCodec)
	treasury := &treasurykeeper.Keeper{}
	reg := consensuskeeper.NewRegistry()
	cons := consensuskeeper.NewKeeper(cdc, runtime.NewKVStoreService(storetypes.NewKVStoreKey(consensustypes.StoreKey)), models.Subspace(cdc, consensustypes.ModuleName), valset, reg, treasury)
	cons.AddMessageConsensusAttestedListener(&metrix)
	evm := evmkeeper.NewKeeper(cdc, runtime.NewKVStoreService(storetypes.NewKVStoreKey(evmtypes.StoreKey)), Authority, cons, valset, valCodec, metrix, treasury)
	valset.SnapshotListeners = []valsettypes.OnSnapshotBuiltListener{evm, &metrix}
	valset.EvmKeeper = evm
	evm.AddMessageConsensusAttestedListener(&metrix)
	*treasury = *treasurykeeper.NewKeeper(cdc, runtime.NewKVStoreService(storetypes.NewKVStoreKey(treasurytypes.StoreKey)), models.Subspace(cdc, treasurytypes.ModuleName), bank, accs, evm)
	evm.Skyway = fakeSkyway{}
	cons.LateInject(evm)
	reg.Add(evm)
	sched := schedulerkeeper.NewKeeper(cdc, runtime.NewKVStoreService(storetypes.NewKVStoreKey(schedulertypes.StoreKey)), accs, evm, []xchain.Bridge{evm})
	return &Env{Scheduler: sched, Cdc: cdc, Ctx: ctx, MS: ms, Staking: st, Slashing: sl, Bank: bank, Accounts: accs, Valset: valset, Metrix: &metrix, Treasury: treasury, Consensus: cons, Evm: evm}
}

// AddChain registers and activates an EVM chain (the governance path).
// Authority is the governance account the keepers are wired with.
var Authority = sdk.AccAddress("gov-module-account--").String()

func (e *Env) AddChain(chain string, chainID uint64) {
	err := e.Evm.AddSupportForNewChain(e.Ctx, chain, chainID, 100, "0xblockhash", sdkmath.NewInt(1).BigInt())
	if err != nil {
		panic(err)
	}
	if err := e.Evm.ActivateChainReferenceID(e.Ctx, chain, &evmtypes.SmartContract{Id: 1}, "0x3333333333333333333333333333333333333333", []byte("compass-"+chain)); err != nil {
		panic(err)
	}
}

// AddValidator adds a bonded validator with an account on the given chains.
func (e *Env) AddValidator(i int, tokens int64, chains ...string) {
	e.Staking.Add(Vals[i], stakingtypes.Bonded, false, sdkmath.NewInt(tokens), tokens/1_000_000)
	var infos []*valsettypes.ExternalChainInfo
	for _, c := range chains {
		infos = append(infos, &valsettypes.ExternalChainInfo{ChainType: "evm", ChainReferenceID: c, Address: models.EthAddrs[i], Pubkey: gethcommon.HexToAddress(models.EthAddrs[i]).Bytes()})
	}
	if len(infos) > 0 {
		if err := e.Valset.AddExternalChainInfo(e.Ctx, Vals[i], infos); err != nil {
			panic(err)
		}
	}
}

// SetupFees configures treasury so that fees can be attached to estimated messages.
func (e *Env) SetupFees(mult sdkmath.LegacyDec, validators ...int) {
	if err := e.Treasury.SetCommunityFundFee(e.Ctx, "0.01"); err != nil {
		panic(err)
	}
	if err := e.Treasury.SetSecurityFee(e.Ctx, "0.01"); err != nil {
		panic(err)
	}
	for _, i := range validators {
		rfs := &treasurytypes.RelayerFeeSetting{ValAddress: Vals[i].String(), Fees: []treasurytypes.RelayerFeeSetting_FeeSetting{
			{ChainReferenceId: ChainA, Multiplicator: mult}, {ChainReferenceId: ChainB, Multiplicator: mult}}}
		if err := e.Treasury.SetRelayerFee(e.Ctx, Vals[i], rfs); err != nil {
			panic(err)
		}
	}
}
