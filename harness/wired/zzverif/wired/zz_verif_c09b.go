package wired

import (
	"math/big"

	sdkmath "cosmossdk.io/math"
	gethcommon "github.com/ethereum/go-ethereum/common"
	ethtypes "github.com/ethereum/go-ethereum/core/types"
	consensusmodule "github.com/palomachain/paloma/v2/x/consensus"
	"github.com/palomachain/paloma/v2/x/consensus/keeper/consensus"
	consensustypes "github.com/palomachain/paloma/v2/x/consensus/types"
	evmtypes "github.com/palomachain/paloma/v2/x/evm/types"
	"github.com/palomachain/paloma/v2/zzverif/models"
	"github.com/palomachain/paloma/v2/zzverif/sym"
)

// C09 (attested receipts) — the evidence for a user contract deployment is a
// remote transaction and its receipt; the receipt's event logs are produced by
// code the user wrote (a constructor may emit an anonymous event without any
// topic). Whatever they contain, the consensus end blocker that processes the
// attested message must get through the block.
func VerifC09_ContractReceipt() {
	env, signing, _ := c07Setup()
	// the chain's compass (its ABI is parsed when the receipt is inspected)
	if err := env.Evm.ActivateChainReferenceID(env.Ctx, ChainA, &evmtypes.SmartContract{Id: 5, AbiJSON: models.CompassABI}, "0x3333333333333333333333333333333333333333", []byte("compass-"+ChainA)); err != nil {
		panic(err)
	}
	const deployer = "0x7777777777777777777777777777777777777777"
	action := &evmtypes.UploadUserSmartContract{Bytecode: []byte{0x60, 0x01}, DeployerAddress: deployer, Deadline: 1000, SenderAddress: []byte(Vals[0]), BlockHeight: 100, Id: 1,
		Fees: &evmtypes.Fees{RelayerFee: 3, CommunityFee: 1, SecurityFee: 1}}
	msg := &evmtypes.Message{TurnstoneID: "compass-" + ChainA, ChainReferenceID: ChainA, Assignee: Vals[0].String(), AssigneeRemoteAddress: models.EthAddrs[0],
		AssignedAtBlockHeight: sdkmath.NewInt(100), Action: &evmtypes.Message_UploadUserSmartContract{UploadUserSmartContract: action}}
	id, err := env.Consensus.PutMessageInQueue(env.Ctx, c06Queue, msg, &consensus.PutOptions{RequireSignatures: true})
	if err != nil {
		panic(err)
	}
	for v := 0; v < 2; v++ {
		bts, err := c06Load(env, id).GetBytesToSign(env.Cdc)
		if err != nil {
			panic(err)
		}
		if err := env.Consensus.AddMessageSignature(env.Ctx, Vals[v], []*consensustypes.ConsensusMessageSignature{{Id: id, QueueTypeName: c06Queue, Signature: models.SignDigest(v, c06Digest(bts)), SignedByAddress: models.EthAddrs[v]}}); err != nil {
			panic(err)
		}
	}
	if err := env.Consensus.SetMessagePublicAccessData(env.Ctx, Vals[0], &consensustypes.MsgSetPublicAccessData{MessageID: id, QueueTypeName: c06Queue, Data: []byte("txhash"), ValsetID: signing.ValsetID}); err != nil {
		panic(err)
	}
	m := c06Load(env, id)
	var payer [32]byte
	copy(payer[32-len(action.SenderAddress):], action.SenderAddress)
	data := c07Pack("deploy_contract", c07Consensus(signing, m.GetSignData()), gethcommon.HexToAddress(deployer), action.Bytecode,
		evmtypes.FeeArgs{RelayerFee: big.NewInt(3), CommunityFee: big.NewInt(1), SecurityFee: big.NewInt(1), FeePayerPalomaAddress: payer},
		new(big.Int).SetUint64(id), big.NewInt(action.Deadline), gethcommon.HexToAddress(models.EthAddrs[0]))
	// the logs of the receipt: anything the deployed code and compass may emit
	other := gethcommon.BytesToHash(sym.Bytes("some-topic", 4))
	var logs []*ethtypes.Log
	switch sym.Choice("receipt-logs", 5) {
	case 1: // an anonymous event (LOG0): no topic at all
		logs = []*ethtypes.Log{{Address: gethcommon.HexToAddress(deployer), Topics: []gethcommon.Hash{}, Data: []byte{1}}}
	case 2:
		logs = []*ethtypes.Log{{Address: gethcommon.HexToAddress(deployer), Topics: []gethcommon.Hash{other}, Data: []byte{1}}}
	case 3:
		logs = []*ethtypes.Log{{Address: gethcommon.HexToAddress(deployer), Topics: []gethcommon.Hash{other}}, {Address: gethcommon.HexToAddress(deployer), Topics: nil}}
	case 4:
		logs = []*ethtypes.Log{{Address: gethcommon.HexToAddress(deployer), Topics: []gethcommon.Hash{other, other}, Data: nil}}
	}
	rcpt := &ethtypes.Receipt{Type: ethtypes.LegacyTxType, Status: 1, CumulativeGasUsed: 21000, Logs: logs}
	if logs == nil {
		rcpt.Logs = []*ethtypes.Log{}
	}
	txb, err := models.EthTx(1, data).MarshalBinary()
	if err != nil {
		panic(err)
	}
	rb, err := rcpt.MarshalBinary()
	if err != nil {
		panic(err)
	}
	c07Evidence(env, id, txb, rb, 3)
	sym.Reach("evidence-in")
	out := c09Run(func() error { return consensusmodule.NewAppModule(env.Cdc, *env.Consensus, nil, nil).EndBlock(env.Ctx) })
	sym.Reach("consensus-endblock-ran")
	sym.Assert(!out.panicked, "consensus-endblock-does-not-panic")
	sym.Assert(out.err == nil, "consensus-endblock-returns-no-error")
}
