package wired

import (
	sdkmath "cosmossdk.io/math"
	sdk "github.com/cosmos/cosmos-sdk/types"
	gethcommon "github.com/ethereum/go-ethereum/common"
	"github.com/ethereum/go-ethereum/crypto"
	"github.com/palomachain/paloma/v2/x/consensus/keeper/consensus"
	consensustypes "github.com/palomachain/paloma/v2/x/consensus/types"
	evmtypes "github.com/palomachain/paloma/v2/x/evm/types"
	valsettypes "github.com/palomachain/paloma/v2/x/valset/types"
	"github.com/palomachain/paloma/v2/zzverif/models"
	"github.com/palomachain/paloma/v2/zzverif/sym"
)

// C06 — every signature stored with a queued message verifies against the
// message's CURRENT signing bytes under the key its validator had registered
// when it signed; a validator/key appears at most once; when the signing bytes
// change (estimate elected, fees attached) earlier signatures are discarded.

const c06Prefix = "\x19Ethereum Signed Message:\n32"

func c06Digest(bytesToSign []byte) []byte {
	return crypto.Keccak256(append([]byte(c06Prefix), bytesToSign...))
}

const c06Queue = "evm/" + ChainA + "/evm-turnstone-message"

func c06Load(env *Env, id uint64) consensustypes.QueuedSignedMessageI {
	msgs, err := env.Consensus.GetMessagesFromQueue(env.Ctx, c06Queue, 0)
	if err != nil {
		panic(err)
	}
	for _, m := range msgs {
		if m.GetId() == id {
			return m
		}
	}
	return nil
}

// c06Invariant checks the stored signatures of message id against its current bytes.
// c06KeyOf[v] is the index (into models.EthAddrs) of the key validator v has registered now;
// c06SignedWith[v] the one it had registered when its stored signature was accepted.
var (
	c06KeyOf      = []int{0, 1, 2, 3}
	c06SignedWith = []int{-1, -1, -1, -1}
)

func c06Invariant(env *Env, id uint64, label string) {
	m := c06Load(env, id)
	if m == nil {
		return
	}
	bts, err := m.GetBytesToSign(env.Cdc)
	if err != nil {
		panic(err)
	}
	digest := c06Digest(bts)
	sigs := m.GetSignData()
	for i, sd := range sigs {
		pub, err := crypto.SigToPub(digest, sd.Signature)
		ok := err == nil
		if ok {
			ok = crypto.PubkeyToAddress(*pub) == gethcommon.BytesToAddress(sd.PublicKey)
		}
		sym.Assert(ok, label+"/stored-signature-verifies-against-current-bytes")
		// key = the one the validator has registered
		var want []byte
		for v := range Vals {
			if Vals[v].Equals(sd.ValAddress) && c06SignedWith[v] >= 0 {
				want = gethcommon.HexToAddress(models.EthAddrs[c06SignedWith[v]]).Bytes()
			}
		}
		sym.Assert(want != nil && gethcommon.BytesToAddress(want) == gethcommon.BytesToAddress(sd.PublicKey), label+"/stored-key-is-the-key-registered-when-signing")
		for j := 0; j < i; j++ {
			sym.Assert(!sigs[j].ValAddress.Equals(sd.ValAddress), label+"/validator-signs-at-most-once")
		}
	}
}

func VerifC06_Signatures() {
	L := 2
	if sym.Tier() == "thorough" {
		L = 3
	}
	c06Run(L, false, 2)
}

// VerifC06_SignaturesThree (thorough tier): histories of two operations with
// three acting validators.
func VerifC06_SignaturesThree() { c06Run(2, false, 3) }

// VerifC06_Rekey: a validator that has already signed re-registers another key
// and signs again (operations: sign / re-register only).
func VerifC06_Rekey() {
	L := 2
	if sym.Tier() == "thorough" {
		L = 3
	}
	c06Run(L, true, 2)
}

// c06Unsigned: the queued message is one that may be relayed without signatures
// (balance / reference-block attestations are enqueued that way); a signature
// somebody submits for it is still only kept if it verifies.
var c06Unsigned bool

// VerifC06_Unsigned: one sign operation of every kind on a message that does not
// require signatures.
func VerifC06_Unsigned() {
	c06Unsigned = true
	defer func() { c06Unsigned = false }()
	c06Run(1, false, 2)
}

func c06Run(L int, rekeyFocus bool, actors int) {
	c06KeyOf = []int{0, 1, 2, 3}
	c06SignedWith = []int{-1, -1, -1, -1}
	env := New(100)
	env.AddChain(ChainA, 1)
	nv := 3
	for i := 0; i < nv; i++ {
		env.AddValidator(i, 10_000_000, ChainA)
	}
	if _, err := env.Valset.TriggerSnapshotBuild(env.Ctx); err != nil {
		panic(err)
	}
	env.SetupFees(sdkmath.LegacyMustNewDecFromStr("1.5"), 0, 1, 2)
	// validators 0 and 1 also have accounts on a second chain, under different keys (4 and 5)
	env.AddChain(ChainB, 2)
	for v := 0; v < 2; v++ {
		if err := env.Valset.AddExternalChainInfo(env.Ctx, Vals[v], []*valsettypes.ExternalChainInfo{
			{ChainType: "evm", ChainReferenceID: ChainA, Address: models.EthAddrs[v], Pubkey: gethcommon.HexToAddress(models.EthAddrs[v]).Bytes()},
			{ChainType: "evm", ChainReferenceID: ChainB, Address: models.EthAddrs[4+v], Pubkey: gethcommon.HexToAddress(models.EthAddrs[4+v]).Bytes()}}); err != nil {
			panic(err)
		}
	}
	msg := &evmtypes.Message{TurnstoneID: "compass-" + ChainA, ChainReferenceID: ChainA, Assignee: Vals[0].String(), AssigneeRemoteAddress: models.EthAddrs[0],
		AssignedAtBlockHeight: sdkmath.NewInt(100),
		Action:                &evmtypes.Message_SubmitLogicCall{SubmitLogicCall: &evmtypes.SubmitLogicCall{HexContractAddress: "0x6666666666666666666666666666666666666666", Payload: []byte{1, 2}, Deadline: 1000, SenderAddress: []byte("sender-address-20byt")}}}
	// either a user call (fees are attached when the estimate is elected, the message is replaced)
	// or a validator-set update (no fee payer: only the estimate changes the signing bytes)
	if sym.Bool("message-is-valset-update") {
		msg.Action = &evmtypes.Message_UpdateValset{UpdateValset: &evmtypes.UpdateValset{Valset: &evmtypes.Valset{ValsetID: 2,
			Validators: []string{models.EthAddrs[0], models.EthAddrs[1], models.EthAddrs[2]}, Powers: []uint64{1431655765, 1431655765, 1431655765}}}}
	}
	id, err := env.Consensus.PutMessageInQueue(env.Ctx, c06Queue, msg, &consensus.PutOptions{RequireSignatures: !c06Unsigned, RequireGasEstimation: true})
	if err != nil {
		panic(err)
	}
	// bytes the chain has published so far (for "stale" signatures)
	first := c06Load(env, id)
	bts0, _ := first.GetBytesToSign(env.Cdc)
	published := [][]byte{bts0}

	// pre-state: some estimates may already be in (submitted through the real handler)
	pre := sym.Choice("estimates-already-in", 3)
	for v := 0; v < pre; v++ {
		if err := env.Consensus.AddMessageGasEstimates(env.Ctx, Vals[v], []*consensustypes.MsgAddMessageGasEstimates_GasEstimate{{MsgId: id, QueueTypeName: c06Queue, Value: 21000}}); err != nil {
			panic(err)
		}
	}
	if rekeyFocus {
		// pre-state: validator 0 has a genuine signature on record
		bts, _ := c06Load(env, id).GetBytesToSign(env.Cdc)
		if err := env.Consensus.AddMessageSignature(env.Ctx, Vals[0], []*consensustypes.ConsensusMessageSignature{{Id: id, QueueTypeName: c06Queue, Signature: models.SignDigest(0, c06Digest(bts)), SignedByAddress: models.EthAddrs[0]}}); err != nil {
			panic(err)
		}
		c06SignedWith[0] = 0
	}
	for step := 0; step < L; step++ {
		op := 0
		if rekeyFocus {
			op = []int{0, 3}[sym.Choice("op", 2)]
		} else {
			op = sym.Choice("op", 4)
		}
		switch op {
		case 3: // a validator re-registers another external-chain key (the spare one)
			v := sym.Choice("rekeyed", actors)
			if c06KeyOf[v] == 3 {
				continue
			}
			cctx, commit := env.Ctx.CacheContext()
			err := env.Valset.AddExternalChainInfo(cctx, Vals[v], []*valsettypes.ExternalChainInfo{{ChainType: "evm", ChainReferenceID: ChainA, Address: models.EthAddrs[3], Pubkey: gethcommon.HexToAddress(models.EthAddrs[3]).Bytes()}})
			if err == nil {
				commit()
				c06KeyOf[v] = 3
				sym.Reach("key-re-registered")
			}
		case 0: // a validator submits a signature
			v := sym.Choice("signer", actors)
			cur := c06Load(env, id)
			if cur == nil {
				continue
			}
			bts, _ := cur.GetBytesToSign(env.Cdc)
			var sig []byte
			signedBy := models.EthAddrs[c06KeyOf[v]]
			switch sym.Choice("sig-kind", 5) {
			case 4: // genuine, but with the key the validator registered for ANOTHER chain
				if v >= 2 {
					continue
				}
				sig = models.SignDigest(4+v, c06Digest(bts))
				signedBy = models.EthAddrs[4+v]
			case 0: // genuine, over the current bytes
				sig = models.SignDigest(c06KeyOf[v], c06Digest(bts))
			case 1: // genuine but over bytes published earlier (stale)
				sig = models.SignDigest(c06KeyOf[v], c06Digest(published[sym.Choice("which-bytes", len(published))]))
			case 2: // signed with somebody else's key
				sig = models.SignDigest(c06KeyOf[(v+1)%nv], c06Digest(bts))
			case 3: // arbitrary bytes
				sig = sym.Bytes("sig", 65)
			}
			cctx, commit := env.Ctx.CacheContext()
			err := env.Consensus.AddMessageSignature(cctx, Vals[v], []*consensustypes.ConsensusMessageSignature{{Id: id, QueueTypeName: c06Queue, Signature: sig, SignedByAddress: signedBy}})
			if err == nil {
				commit()
				c06SignedWith[v] = c06KeyOf[v]
				sym.Reach("signature-accepted")
			} else {
				sym.Reach("signature-rejected")
			}
		case 1: // a validator submits a gas estimate
			v := sym.Choice("estimator", actors)
			g := []uint64{21000, 50000}[sym.Choice("gas", 2)]
			cctx, commit := env.Ctx.CacheContext()
			err := env.Consensus.AddMessageGasEstimates(cctx, Vals[v], []*consensustypes.MsgAddMessageGasEstimates_GasEstimate{{MsgId: id, QueueTypeName: c06Queue, Value: g}})
			if err == nil {
				commit()
				sym.Reach("estimate-accepted")
			}
		case 2: // end of block: estimates are elected, fees attached
			before := c06Load(env, id)
			err := env.Consensus.CheckAndProcessEstimatedMessages(env.Ctx)
			sym.Assert(err == nil, "estimate-processing-returns-no-error")
			after := c06Load(env, id)
			if before != nil && after != nil {
				b0, _ := before.GetBytesToSign(env.Cdc)
				b1, _ := after.GetBytesToSign(env.Cdc)
				if string(b0) != string(b1) {
					sym.Reach("signing-bytes-changed")
					sym.Assert(len(after.GetSignData()) == 0, "signatures-discarded-when-signing-bytes-change")
					published = append(published, b1)
				}
				if after.GetGasEstimate() != 0 {
					sym.Reach("estimate-elected")
				}
			}
		}
		c06Invariant(env, id, "after-step")
	}
	_ = sdk.AccAddress{}
}
