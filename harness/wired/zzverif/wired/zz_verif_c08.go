package wired

import (
	sdkmath "cosmossdk.io/math"
	storetypes "cosmossdk.io/store/types"
	"github.com/cosmos/cosmos-sdk/codec/address"
	codectypes "github.com/cosmos/cosmos-sdk/codec/types"
	"github.com/cosmos/cosmos-sdk/runtime"
	sdk "github.com/cosmos/cosmos-sdk/types"
	gethcommon "github.com/ethereum/go-ethereum/common"
	"github.com/palomachain/paloma/v2/x/consensus/keeper/consensus"
	consensustypes "github.com/palomachain/paloma/v2/x/consensus/types"
	evmtypes "github.com/palomachain/paloma/v2/x/evm/types"
	palomakeeper "github.com/palomachain/paloma/v2/x/paloma/keeper"
	palomatypes "github.com/palomachain/paloma/v2/x/paloma/types"
	valsettypes "github.com/palomachain/paloma/v2/x/valset/types"
	"github.com/palomachain/paloma/v2/zzverif/models"
	"github.com/palomachain/paloma/v2/zzverif/sym"
)

// C08 (map order, caches, extra queries) — twin execution. Two identical worlds
// are built; the same operation runs in both, each with its own arbitrary map
// iteration orders, with or without extra read-only queries before it. Results,
// every module store and the emitted events must be identical.

func c08World() *Env {
	env := New(100)
	env.AddChain(ChainA, 1)
	for i := 0; i < 3; i++ {
		env.AddValidator(i, 10_000_000, ChainA) // equal stakes, equal metrics: every ranking is a tie
	}
	env.SetupFees(sdkmath.LegacyMustNewDecFromStr("1.1"), 0, 1, 2)
	s1, err := env.Valset.TriggerSnapshotBuild(env.Ctx)
	if err != nil {
		panic(err)
	}
	// the first snapshot is live on the chain (so later snapshots go through the keep-warm rule)
	if err := env.Valset.SetSnapshotOnChain(env.Ctx, s1.Id, ChainA); err != nil {
		panic(err)
	}
	return env
}

func c08Events(ctx sdk.Context) []string {
	var out []string
	for _, e := range ctx.EventManager().Events() {
		s := e.Type
		for _, a := range e.Attributes {
			s += "|" + a.Key + "=" + a.Value
		}
		out = append(out, s)
	}
	return out
}

// c08Permute: the node under test iterates its maps in an arbitrary order
var c08Permute bool

func c08Run(env *Env, op int, texts [3]string, daysLater int64) (res []string) {
	// the block under test is produced some time after the world was set up
	env.Ctx = env.Ctx.WithBlockTime(env.Ctx.BlockTime().Add(sdkSeconds(daysLater * 86400)))
	defer func() {
		if r := recover(); r != nil {
			res = append(res, "panic")
		}
	}()
	switch op {
	case 0: // relayer selection
		for i := 0; i < 1; i++ {
			v, a, err := env.Evm.PickValidatorForMessage(env.Ctx, ChainA, nil)
			if err != nil {
				res = append(res, "error: "+err.Error())
			} else {
				res = append(res, v+"/"+a)
			}
		}
	case 1: // snapshot construction after a stake change
		env.Staking.Add(Vals[3], 3, false, sdkmath.NewInt(10_000_000), 10)
		env.AddValidator(3, 10_000_000, ChainA)
		s, err := env.Valset.TriggerSnapshotBuild(env.Ctx)
		if err != nil {
			res = append(res, "error: "+err.Error())
		} else {
			for _, v := range s.Validators {
				res = append(res, v.Address.String()+"="+v.ShareCount.String())
			}
			// was the new snapshot published to the chain (a valset update enqueued)?
			msgs, _ := env.Consensus.GetMessagesFromQueue(env.Ctx, c06Queue, 0)
			res = append(res, "queued="+sdkmath.NewInt(int64(len(msgs))).String())
		}
	case 2: // evidence tally: every partition of the three validators over three distinct reports
		msg := &evmtypes.Message{TurnstoneID: "compass-" + ChainA, ChainReferenceID: ChainA, Assignee: Vals[0].String(), AssigneeRemoteAddress: models.EthAddrs[0], AssignedAtBlockHeight: sdkmath.NewInt(100),
			Action: &evmtypes.Message_SubmitLogicCall{SubmitLogicCall: &evmtypes.SubmitLogicCall{HexContractAddress: "0x6666666666666666666666666666666666666666", Payload: []byte{1}, Deadline: 1000, SenderAddress: []byte("sender-address-20byt"), Retries: 2}}}
		id, err := env.Consensus.PutMessageInQueue(env.Ctx, c06Queue, msg, &consensus.PutOptions{RequireSignatures: true, PublicAccessData: []byte("tx")})
		if err != nil {
			panic(err)
		}
		for v := 0; v < 3; v++ {
			text := texts[v]
			proof, _ := codectypes.NewAnyWithValue(&evmtypes.SmartContractExecutionErrorProof{ErrorMessage: text})
			if err := env.Consensus.AddMessageEvidence(env.Ctx, Vals[v], &consensustypes.MsgAddEvidence{Proof: proof, MessageID: id, QueueTypeName: c06Queue}); err != nil {
				panic(err)
			}
		}
		if err := env.Consensus.CheckAndProcessAttestedMessages(env.Ctx); err != nil {
			res = append(res, "error: "+err.Error())
		}
		if c06Load(env, id) == nil {
			res = append(res, "removed")
		} else {
			res = append(res, "kept")
		}
	case 4: // a relayer's keep-alive (its record is stored as JSON)
		if err := env.Valset.KeepValidatorAlive(env.Ctx, Vals[0], "v1.12.0"); err != nil {
			res = append(res, "error: "+err.Error())
		}
		alive, err := env.Valset.IsValidatorAlive(env.Ctx, Vals[0])
		if err != nil {
			res = append(res, "error: "+err.Error())
		} else if alive {
			res = append(res, "alive")
		} else {
			res = append(res, "not alive")
		}
	case 5: // the paloma end blocker jails validators that lack an account on a supported chain
		sym.MapOrder(false) // (set-up)
		env.AddChain(ChainB, 2)
		for i := 0; i < 3; i++ {
			// the three big validators support both chains
			if err := env.Valset.AddExternalChainInfo(env.Ctx, Vals[i], []*valsettypes.ExternalChainInfo{
				{ChainType: "evm", ChainReferenceID: ChainA, Address: models.EthAddrs[i], Pubkey: gethcommon.HexToAddress(models.EthAddrs[i]).Bytes()},
				{ChainType: "evm", ChainReferenceID: ChainB, Address: models.EthAddrs[i+3], Pubkey: gethcommon.HexToAddress(models.EthAddrs[i+3]).Bytes()}}); err != nil {
				panic(err)
			}
		}
		env.Staking.Add(Vals[3], 3, false, sdkmath.NewInt(1_000_000), 1) // a small one supports neither
		pk := palomakeeper.NewKeeper(env.Cdc, runtime.NewKVStoreService(storetypes.NewKVStoreKey(palomatypes.StoreKey)), models.Subspace(env.Cdc, palomatypes.ModuleName),
			"v1.0.0", "ugrain", env.Accounts, env.Bank, nil, env.Valset, nil, address.NewBech32Codec("palomavaloper"), Authority)
		pk.ExternalChains = []palomatypes.ExternalChainSupporterKeeper{env.Evm}
		sym.MapOrder(c08Permute)
		if err := pk.JailValidatorsWithMissingExternalChainInfos(env.Ctx); err != nil {
			res = append(res, "error: "+err.Error())
		}
		for i := 0; i < 4; i++ {
			if env.Staking.Find(Vals[i]).Jailed {
				res = append(res, "jailed: "+Vals[i].String())
			}
		}
	case 3: // metric updates at the block boundary
		env.Metrix.UpdateUptime(env.Ctx)
		env.Metrix.UpdateRelayMetrics(env.Ctx)
		env.Metrix.PurgeRelayMetrics(env.Ctx)
		r, err := env.Metrix.Validators(env.Ctx, nil)
		if err != nil {
			res = append(res, "error: "+err.Error())
		} else {
			for _, m := range r.ValMetrics {
				res = append(res, m.ValAddress+":"+m.Uptime.String()+":"+m.SuccessRate.String())
			}
		}
	}
	return res
}

func VerifC08_Twin() {
	op := sym.Choice("operation", 6)
	daysLater := []int64{0, 29, 31}[sym.Choice("days-later", 3)]
	var texts [3]string
	if op == 2 {
		for v := range texts {
			texts[v] = []string{"boom", "bang", "bust"}[sym.Choice("report", 3)]
		}
	}
	var res [2][]string
	var ev [2][]string
	var envs [2]*Env
	// node 0 is the reference run (insertion order, no extra traffic); node 1 iterates
	// every map in an arbitrary order and may have served read-only queries before
	for node := 0; node < 2; node++ {
		sym.MapOrder(false)
		env := c08World()
		if node == 1 && sym.Bool("extra-queries-before") {
			// read-only traffic (simulations, gRPC queries) on a throw-away context
			qctx, _ := env.Ctx.CacheContext()
			_, _, _ = env.Evm.PickValidatorForMessage(qctx, ChainA, nil)
			_, _ = env.Evm.GetValsetByID(qctx, &evmtypes.QueryGetValsetByIDRequest{ChainReferenceID: ChainA})
			_, _ = env.Metrix.Validators(qctx, nil)
		}
		// node 1 may also run under another process environment (operators set TZ, locale
		// and feature variables to taste)
		otherEnv := node == 1 && sym.Bool("other-process-environment")
		if otherEnv {
			sym.Setenv("TZ", "Asia/Tokyo")
			sym.Setenv("LANG", "ja_JP.UTF-8")
			sym.Setenv("PALOMA_TEST_NET", "1")
		}
		c08Permute = node == 1
		sym.MapOrder(c08Permute)
		res[node] = c08Run(env, op, texts, daysLater)
		sym.MapOrder(false)
		if otherEnv {
			sym.Unsetenv("TZ")
			sym.Unsetenv("LANG")
			sym.Unsetenv("PALOMA_TEST_NET")
		}
		ev[node] = c08Events(env.Ctx)
		envs[node] = env
	}
	sym.Reach("both-nodes-executed")
	same := len(res[0]) == len(res[1])
	for i := 0; same && i < len(res[0]); i++ {
		same = res[0][i] == res[1][i]
	}
	sym.Assert(same, "same-results-on-every-node")
	sym.Assert(envs[0].MS.Equal(envs[1].MS), "same-state-on-every-node")
	sameEv := len(ev[0]) == len(ev[1])
	for i := 0; sameEv && i < len(ev[0]); i++ {
		sameEv = ev[0][i] == ev[1][i]
	}
	sym.Assert(sameEv, "same-events-on-every-node")
}
