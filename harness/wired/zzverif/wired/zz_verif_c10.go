package wired

import (
	sdkmath "cosmossdk.io/math"
	gethcommon "github.com/ethereum/go-ethereum/common"
	"github.com/palomachain/paloma/v2/util/libmsg"
	schedulertypes "github.com/palomachain/paloma/v2/x/scheduler/types"
	valsettypes "github.com/palomachain/paloma/v2/x/valset/types"
	"github.com/palomachain/paloma/v2/zzverif/models"
	"github.com/palomachain/paloma/v2/zzverif/sym"
)

// C10 (what is sent) — every validator-set update that any path queues for a
// chain (publication when a snapshot is built, the just-in-time update before a
// scheduled job) carries a snapshot's id, exactly that snapshot's validators
// with an account on the chain, and powers summing to at least 2/3 of 2^32.

func c10Queue(chain string) string { return "evm/" + chain + "/evm-turnstone-message" }

func c10CheckQueued(env *Env, chain string) {
	msgs, err := env.Consensus.GetMessagesFromQueue(env.Ctx, c10Queue(chain), 0)
	if err != nil {
		return
	}
	for _, q := range msgs {
		m, err := libmsg.ToEvmMessage(q, env.Cdc)
		if err != nil {
			panic(err)
		}
		uv := m.GetUpdateValset()
		if uv == nil {
			continue
		}
		sym.Reach("valset-sent")
		vs := uv.GetValset()
		sum := uint64(0)
		for _, p := range vs.Powers {
			sum += p
		}
		sym.Assert(sum >= 2_863_311_530, "valset-sent-only-with-two-thirds-of-the-maximum-power")
		snap, err := env.Valset.FindSnapshotByID(env.Ctx, vs.ValsetID)
		if err != nil || snap == nil {
			sym.Assert(false, "valset-id-names-a-snapshot")
			continue
		}
		var want []string
		for _, v := range snap.Validators {
			for _, ci := range v.ExternalChainInfos {
				if ci.ChainType == "evm" && ci.ChainReferenceID == chain {
					want = append(want, ci.Address)
				}
			}
		}
		same := len(want) == len(vs.Validators) && len(vs.Validators) == len(vs.Powers)
		for _, a := range vs.Validators {
			found := false
			for _, w := range want {
				if w == a {
					found = true
				}
			}
			same = same && found
		}
		sym.Assert(same, "members-are-the-snapshot-validators-with-an-account-on-the-chain")
	}
}

func VerifC10_Sends() {
	env := New(100)
	env.AddChain(ChainA, 1)
	for i := 0; i < 3; i++ {
		env.AddValidator(i, 10_000_000, ChainA)
	}
	env.SetupFees(sdkmath.LegacyMustNewDecFromStr("1.1"), 0, 1, 2)
	s1, err := env.Valset.TriggerSnapshotBuild(env.Ctx)
	if err != nil || s1 == nil {
		panic("setup: first snapshot")
	}
	c10CheckQueued(env, ChainA)
	if err := env.Valset.SetSnapshotOnChain(env.Ctx, s1.Id, ChainA); err != nil {
		panic(err)
	}
	// a second chain is added and activated; some validators register an account there
	env.AddChain(ChainB, 2)
	for i := 0; i < 3; i++ {
		if sym.Bool("registers-on-the-new-chain") {
			// (a registration replaces the validator's whole list of accounts)
			if err := env.Valset.AddExternalChainInfo(env.Ctx, Vals[i], []*valsettypes.ExternalChainInfo{
				{ChainType: "evm", ChainReferenceID: ChainA, Address: models.EthAddrs[i], Pubkey: gethcommon.HexToAddress(models.EthAddrs[i]).Bytes()},
				{ChainType: "evm", ChainReferenceID: ChainB, Address: models.EthAddrs[i+3], Pubkey: gethcommon.HexToAddress(models.EthAddrs[i+3]).Bytes()},
			}); err != nil {
				panic(err)
			}
		}
	}
	// the compass deployed on the new chain carries the first snapshot (as its constructor does)
	if sym.Bool("first-snapshot-live-on-the-new-chain") {
		if err := env.Valset.SetSnapshotOnChain(env.Ctx, s1.Id, ChainB); err != nil {
			panic(err)
		}
	}
	if sym.Bool("new-snapshot-built") {
		// (more than the 30-day keep-warm period later, so publication is attempted)
		env.Ctx = env.Ctx.WithBlockHeight(150).WithBlockTime(env.Ctx.BlockTime().Add(sdkSeconds(31 * 86400)))
		if _, err := env.Valset.TriggerSnapshotBuild(env.Ctx); err != nil {
			sym.Reach("snapshot-build-error")
		}
	}
	// a scheduled job is about to run on one of the chains
	chain := []string{ChainA, ChainB}[sym.Choice("job-chain", 2)]
	if err := env.Evm.PreJobExecution(env.Ctx, &schedulertypes.Job{ID: "job", Routing: schedulertypes.Routing{ChainType: "evm", ChainReferenceID: chain}}); err != nil {
		sym.Reach("pre-job-error")
	} else {
		sym.Reach("pre-job-ok")
	}
	c10CheckQueued(env, ChainA)
	c10CheckQueued(env, ChainB)
}
