package wired

import (
	sdkmath "cosmossdk.io/math"
	codectypes "github.com/cosmos/cosmos-sdk/codec/types"
	stakingtypes "github.com/cosmos/cosmos-sdk/x/staking/types"
	"github.com/palomachain/paloma/v2/x/consensus/keeper/consensus"
	consensustypes "github.com/palomachain/paloma/v2/x/consensus/types"
	evmtypes "github.com/palomachain/paloma/v2/x/evm/types"
	"github.com/palomachain/paloma/v2/zzverif/models"
	"github.com/palomachain/paloma/v2/zzverif/sym"
)

// C13 (b) — when an undelivered or contested message is pruned, validators
// that supplied evidence for it are never jailed, and nobody is jailed when
// fewer than 10% of the snapshot shares attested.

func VerifC13_Prune() {
	nv := 4
	env := New(100)
	env.AddChain(ChainA, 1)
	// stakes (in base tokens) from per-validator alphabets that include totals not divisible
	// by ten with one member holding exactly floor(total/10), members above and below the 25%
	// jailing protection, and a dominant validator
	stakes := [][]int64{{1_000_000, 3_400_002}, {2_200_001, 1_000_000}, {3_400_002, 6_000_000}, {3_400_002, 30_000_000}}
	if sym.Tier() == "thorough" {
		stakes = [][]int64{{1_000_000, 3_400_002, 999_999}, {2_200_001, 1_000_000, 2_000_000}, {3_400_002, 6_000_000, 1_000_000}, {3_400_002, 30_000_000, 1_000_001}}
	}
	tokens := make([]int64, nv)
	total := int64(0)
	for i := 0; i < nv; i++ {
		tokens[i] = stakes[i][sym.Choice("stake", len(stakes[i]))]
		total += tokens[i]
		env.AddValidator(i, tokens[i], ChainA)
	}
	if _, err := env.Valset.TriggerSnapshotBuild(env.Ctx); err != nil {
		panic(err)
	}
	msg := &evmtypes.Message{TurnstoneID: "compass-" + ChainA, ChainReferenceID: ChainA, Assignee: Vals[0].String(), AssigneeRemoteAddress: models.EthAddrs[0], AssignedAtBlockHeight: sdkmath.NewInt(100),
		Action: &evmtypes.Message_SubmitLogicCall{SubmitLogicCall: &evmtypes.SubmitLogicCall{HexContractAddress: "0x6666666666666666666666666666666666666666", Payload: []byte{1}, Deadline: 1000, SenderAddress: []byte("sender-address-20byt")}}}
	id, err := env.Consensus.PutMessageInQueue(env.Ctx, c06Queue, msg, &consensus.PutOptions{RequireSignatures: true})
	if err != nil {
		panic(err)
	}
	delivered := sym.Bool("delivery-attempted")
	if delivered {
		if err := env.Consensus.SetMessagePublicAccessData(env.Ctx, Vals[0], &consensustypes.MsgSetPublicAccessData{MessageID: id, QueueTypeName: c06Queue, Data: []byte("txhash"), ValsetID: 1}); err != nil {
			panic(err)
		}
	}
	// evidence: each validator none / report A / report B; one of them may send its
	// report a second time (a relayer retry; thorough tier: possibly a corrected report)
	attested := int64(0)
	gave := make([]bool, nv)
	if delivered {
		resubmitted := false
		for v := 0; v < nv; v++ {
			k := sym.Choice("evidence", 3)
			if k == 0 {
				continue
			}
			proof, _ := codectypes.NewAnyWithValue(&evmtypes.SmartContractExecutionErrorProof{ErrorMessage: []string{"", "boom", "bang"}[k]})
			if err := env.Consensus.AddMessageEvidence(env.Ctx, Vals[v], &consensustypes.MsgAddEvidence{Proof: proof, MessageID: id, QueueTypeName: c06Queue}); err != nil {
				panic(err)
			}
			gave[v] = true
			attested += tokens[v]
			if !resubmitted && sym.Bool("resubmits") {
				resubmitted = true
				k2 := k
				if sym.Tier() == "thorough" && sym.Bool("corrected-report") {
					k2 = 3 - k
				}
				proof2, _ := codectypes.NewAnyWithValue(&evmtypes.SmartContractExecutionErrorProof{ErrorMessage: []string{"", "boom", "bang"}[k2]})
				if err := env.Consensus.AddMessageEvidence(env.Ctx, Vals[v], &consensustypes.MsgAddEvidence{Proof: proof2, MessageID: id, QueueTypeName: c06Queue}); err != nil {
					panic(err)
				}
				sym.Reach("evidence-resubmitted")
			}
		}
	}
	err = env.Consensus.PruneJob(env.Ctx, c06Queue, id)
	sym.Reach("pruned")
	_ = err
	anyJailed := false
	for v := 0; v < nv; v++ {
		sv := env.Staking.Find(Vals[v])
		if sv.Jailed {
			anyJailed = true
			sym.Assert(!gave[v], "validator-that-supplied-evidence-is-not-jailed")
		}
	}
	if anyJailed {
		sym.Reach("somebody-jailed")
		sym.Assert(delivered, "nobody-jailed-for-an-undelivered-message")
		sym.Assert(attested*10 >= total, "nobody-jailed-when-fewer-than-ten-percent-attested")
	}
	sym.Assert(c06Load(env, id) == nil, "pruned-message-leaves-the-queue")
	_ = stakingtypes.Bonded
}
