package wired

import (
	"fmt"

	sdkmath "cosmossdk.io/math"
	codectypes "github.com/cosmos/cosmos-sdk/codec/types"
	sdk "github.com/cosmos/cosmos-sdk/types"
	consensusmodule "github.com/palomachain/paloma/v2/x/consensus"
	consensuskeeper "github.com/palomachain/paloma/v2/x/consensus/keeper"
	"github.com/palomachain/paloma/v2/x/consensus/keeper/consensus"
	consensustypes "github.com/palomachain/paloma/v2/x/consensus/types"
	evmmodule "github.com/palomachain/paloma/v2/x/evm"
	evmtypes "github.com/palomachain/paloma/v2/x/evm/types"
	metrixmodule "github.com/palomachain/paloma/v2/x/metrix"
	treasurykeeper "github.com/palomachain/paloma/v2/x/treasury/keeper"
	treasurytypes "github.com/palomachain/paloma/v2/x/treasury/types"
	valsetmodule "github.com/palomachain/paloma/v2/x/valset"
	valsettypes "github.com/palomachain/paloma/v2/x/valset/types"
	"github.com/palomachain/paloma/v2/zzverif/models"
	"github.com/palomachain/paloma/v2/zzverif/sym"
)

// C09 — begin/end-block processing never aborts. The state is what ACCEPTED
// transactions can write: every sender-controlled parameter first goes
// through its real submitting handler with an arbitrary value; what the
// handler accepted is kept; then the real AppModule.EndBlock of the module
// runs. Observable: a panic or a non-nil error escaping EndBlock.

type c09Outcome struct {
	panicked bool
	what     string
	err      error
}

func c09Run(f func() error) (out c09Outcome) {
	defer func() {
		if r := recover(); r != nil {
			if _, ok := r.(sym.AssumeFailed); ok {
				panic(r)
			}
			out.panicked = true
			out.what = fmt.Sprint(r)
		}
	}()
	out.err = f()
	return
}

func c09Meta(v int) valsettypes.MsgMetadata {
	a := sdk.AccAddress(Vals[v]).String()
	return valsettypes.MsgMetadata{Creator: a, Signers: []string{a}}
}

// VerifC09_ConsensusFees: relayer-fee multiplier and gas estimates are
// validator supplied; end-of-block fee computation must not abort.
func VerifC09_ConsensusFees() {
	env := New(100)
	env.AddChain(ChainA, 1)
	for i := 0; i < 3; i++ {
		env.AddValidator(i, 10_000_000, ChainA)
	}
	if _, err := env.Valset.TriggerSnapshotBuild(env.Ctx); err != nil {
		panic(err)
	}
	if err := env.Treasury.SetCommunityFundFee(env.Ctx, "0.01"); err != nil {
		panic(err)
	}
	if err := env.Treasury.SetSecurityFee(env.Ctx, "0.01"); err != nil {
		panic(err)
	}
	// the assignee sets its relayer fee through the real message handler: any decimal
	multRaw := sym.BigIntSigned("multiplier-raw", 315)
	mult := sdkmath.LegacyNewDecFromBigIntWithPrec(multRaw, 18)
	tsrv := treasurykeeper.NewMsgServerImpl(*env.Treasury)
	_, err := tsrv.UpsertRelayerFee(env.Ctx, &treasurytypes.MsgUpsertRelayerFee{Metadata: c09Meta(0),
		FeeSetting: &treasurytypes.RelayerFeeSetting{ValAddress: Vals[0].String(), Fees: []treasurytypes.RelayerFeeSetting_FeeSetting{{ChainReferenceId: ChainA, Multiplicator: mult}}}})
	if err != nil {
		sym.Reach("fee-setting-rejected")
		return
	}
	sym.Reach("fee-setting-accepted")

	msg := &evmtypes.Message{TurnstoneID: "compass-" + ChainA, ChainReferenceID: ChainA, Assignee: Vals[0].String(), AssigneeRemoteAddress: models.EthAddrs[0], AssignedAtBlockHeight: sdkmath.NewInt(100),
		Action: &evmtypes.Message_SubmitLogicCall{SubmitLogicCall: &evmtypes.SubmitLogicCall{HexContractAddress: "0x6666666666666666666666666666666666666666", Payload: []byte{1}, Deadline: 1000, SenderAddress: []byte("sender-address-20byt")}}}
	id, err := env.Consensus.PutMessageInQueue(env.Ctx, c06Queue, msg, &consensus.PutOptions{RequireSignatures: true, RequireGasEstimation: true})
	if err != nil {
		panic(err)
	}
	// validators submit arbitrary estimates through the real message handler
	csrv := consensuskeeper.NewMsgServerImpl(*env.Consensus)
	gas := sym.Uint64("gas")
	// a validator bonded after the snapshot was taken (not a snapshot member) may submit too
	env.AddValidator(3, 10_000_000, ChainA)
	if sym.Bool("outsider-estimates") {
		_, err := csrv.AddMessageEstimates(env.Ctx, &consensustypes.MsgAddMessageGasEstimates{Metadata: c09Meta(3),
			Estimates: []*consensustypes.MsgAddMessageGasEstimates_GasEstimate{{MsgId: id, QueueTypeName: c06Queue, Value: sym.Uint64("outsider-gas")}}})
		if err == nil {
			sym.Reach("outsider-estimate-accepted")
		}
	}
	for v := 0; v < 3; v++ {
		_, err := csrv.AddMessageEstimates(env.Ctx, &consensustypes.MsgAddMessageGasEstimates{Metadata: c09Meta(v),
			Estimates: []*consensustypes.MsgAddMessageGasEstimates_GasEstimate{{MsgId: id, QueueTypeName: c06Queue, Value: gas}}})
		if err != nil {
			sym.Reach("estimate-rejected")
			return
		}
	}
	sym.Reach("estimates-accepted")
	am := consensusmodule.NewAppModule(env.Cdc, *env.Consensus, nil, nil)
	out := c09Run(func() error { return am.EndBlock(env.Ctx) })
	sym.Reach("consensus-endblock-ran")
	sym.Assert(!out.panicked, "consensus-endblock-does-not-panic")
	sym.Assert(out.err == nil, "consensus-endblock-returns-no-error")
}

// VerifC09_Blocks: the end-blockers of consensus, evm, valset and metrix at
// heights covering the residue classes they distinguish, on a state with a
// queued message that has received public access data / error data and
// evidence from an arbitrary subset of validators.
func VerifC09_Blocks() {
	heights := []int64{100, 101, 150, 300, 303, 600, 650}
	h := heights[sym.Choice("height", len(heights))]
	env := New(h)
	env.AddChain(ChainA, 1)
	for i := 0; i < 3; i++ {
		env.AddValidator(i, 10_000_000, ChainA)
	}
	if sym.Bool("validator-0-offers-mev") {
		infos, _ := env.Valset.GetValidatorChainInfos(env.Ctx, Vals[0])
		infos[0].Traits = []string{valsettypes.PIGEON_TRAIT_MEV}
		if err := env.Valset.SetExternalChainInfoState(env.Ctx, Vals[0], infos); err != nil {
			panic(err)
		}
	}
	if _, err := env.Valset.TriggerSnapshotBuild(env.Ctx); err != nil {
		panic(err)
	}
	env.SetupFees(sdkmath.LegacyMustNewDecFromStr("1.5"), 0, 1, 2)
	// the queued call may demand an MEV relayer while only one validator (or none) offers that
	needMEV := sym.Bool("call-requires-mev-relayer")
	msg := &evmtypes.Message{TurnstoneID: "compass-" + ChainA, ChainReferenceID: ChainA, Assignee: Vals[0].String(), AssigneeRemoteAddress: models.EthAddrs[0], AssignedAtBlockHeight: sdkmath.NewInt(h),
		Action: &evmtypes.Message_SubmitLogicCall{SubmitLogicCall: &evmtypes.SubmitLogicCall{HexContractAddress: "0x6666666666666666666666666666666666666666", Payload: []byte{1}, Deadline: 1000, SenderAddress: []byte("sender-address-20byt"),
			ExecutionRequirements: evmtypes.SubmitLogicCall_ExecutionRequirements{EnforceMEVRelay: needMEV}}}}
	// the message may have been waiting for a long time (old enough to be pruned at this block)
	putCtx := env.Ctx
	if h > 400 && sym.Bool("message-is-stale") {
		putCtx = env.Ctx.WithBlockHeight(h - 400)
		sym.Reach("stale-message")
	}
	id, err := env.Consensus.PutMessageInQueue(putCtx, c06Queue, msg, &consensus.PutOptions{RequireSignatures: true, RequireGasEstimation: sym.Bool("requires-estimate")})
	if err != nil {
		panic(err)
	}
	csrv := consensuskeeper.NewMsgServerImpl(*env.Consensus)
	// the assignee reports an error (validator-controlled text), validators attest to it
	if sym.Bool("error-reported") {
		_, err := csrv.SetErrorData(env.Ctx, &consensustypes.MsgSetErrorData{Metadata: c09Meta(0), MessageID: id, QueueTypeName: c06Queue, Data: []byte("boom")})
		if err == nil {
			sym.Reach("error-data-set")
			env.AddValidator(3, 10_000_000, ChainA) // bonded, not in the snapshot
			for v := 0; v < 4; v++ {
				if sym.Bool("attests") {
					proof, _ := codectypes.NewAnyWithValue(&evmtypes.SmartContractExecutionErrorProof{ErrorMessage: "boom"})
					_, err := csrv.AddEvidence(env.Ctx, &consensustypes.MsgAddEvidence{Metadata: c09Meta(v), Proof: proof, MessageID: id, QueueTypeName: c06Queue})
					if err == nil {
						sym.Reach("evidence-added")
					}
				}
			}
		}
	}
	mods := []struct {
		name string
		run  func() error
	}{
		{"consensus", func() error { return consensusmodule.NewAppModule(env.Cdc, *env.Consensus, nil, nil).EndBlock(env.Ctx) }},
		{"evm", func() error { return evmmodule.NewAppModule(env.Cdc, *env.Evm, nil, nil).EndBlock(env.Ctx) }},
		{"valset", func() error { return valsetmodule.NewAppModule(env.Cdc, *env.Valset, nil, nil).EndBlock(env.Ctx) }},
		{"metrix", func() error { return metrixmodule.NewAppModule(env.Cdc, *env.Metrix).EndBlock(env.Ctx) }},
	}
	for _, m := range mods {
		out := c09Run(m.run)
		sym.Reach(m.name + "-endblock-ran")
		sym.Assert(!out.panicked, m.name+"-endblock-does-not-panic")
		sym.Assert(out.err == nil, m.name+"-endblock-returns-no-error")
	}
}

// VerifC09_SetChanges: the validator set changes between two snapshot builds —
// validators leave (jailed), change stake or join — and the periodic end
// blockers (snapshot build at a multiple of 50, liveness sweep, publication)
// must get through the block all the same.
func VerifC09_SetChanges() {
	env := New(100)
	env.AddChain(ChainA, 1)
	n0 := 2 + sym.Choice("initial-validators", 2) // 2 or 3
	stakes := []int64{10_000_000, 20_000_000}
	for i := 0; i < n0; i++ {
		env.AddValidator(i, stakes[sym.Choice("stake", 2)], ChainA)
	}
	if _, err := env.Valset.TriggerSnapshotBuild(env.Ctx); err != nil {
		panic(err)
	}
	env.SetupFees(sdkmath.LegacyMustNewDecFromStr("1.5"), 0, 1, 2, 3)
	// changes before the next periodic build
	for i := 0; i < n0; i++ {
		switch sym.Choice("change", 3) {
		case 1:
			env.Staking.Find(Vals[i]).Jailed = true
			sym.Reach("validator-left")
		case 2:
			sv := env.Staking.Find(Vals[i])
			sv.Tokens = sdkmath.NewInt(30_000_000)
			sv.Power = 30
		}
	}
	if sym.Bool("validator-joins") {
		env.AddValidator(3, stakes[sym.Choice("stake", 2)], ChainA)
	}
	env.Ctx = env.Ctx.WithBlockHeight(150)
	mods := []struct {
		name string
		run  func() error
	}{
		{"valset", func() error { return valsetmodule.NewAppModule(env.Cdc, *env.Valset, nil, nil).EndBlock(env.Ctx) }},
		{"evm", func() error { return evmmodule.NewAppModule(env.Cdc, *env.Evm, nil, nil).EndBlock(env.Ctx) }},
		{"consensus", func() error { return consensusmodule.NewAppModule(env.Cdc, *env.Consensus, nil, nil).EndBlock(env.Ctx) }},
		{"metrix", func() error { return metrixmodule.NewAppModule(env.Cdc, *env.Metrix).EndBlock(env.Ctx) }},
	}
	for _, m := range mods {
		out := c09Run(m.run)
		sym.Reach(m.name + "-endblock-ran")
		sym.Assert(!out.panicked, m.name+"-endblock-does-not-panic")
		sym.Assert(out.err == nil, m.name+"-endblock-returns-no-error")
	}
}
