package wired

import (
	sdkmath "cosmossdk.io/math"
	"github.com/palomachain/paloma/v2/util/libmsg"
	"github.com/palomachain/paloma/v2/x/consensus/keeper/consensus"
	consensustypes "github.com/palomachain/paloma/v2/x/consensus/types"
	evmtypes "github.com/palomachain/paloma/v2/x/evm/types"
	"github.com/palomachain/paloma/v2/zzverif/models"
	"github.com/palomachain/paloma/v2/zzverif/sym"
)

// C04 / C14 — gas-estimate election at the keeper level. Validators submit
// estimates for one queued message through the real handler function, in any
// order and possibly more than once; the end blocker then elects (or not).
//   - a value is elected only when the validators that submitted — each counted
//     once — hold at least two thirds of the snapshot shares;
//   - the elected value lies between the smallest and largest submitted value;
//   - a message is offered to its relayer only with an elected estimate AND the
//     fees computed from it (whatever a failing fee look-up does to the election).
func VerifC04_Election() {
	env := New(100)
	env.AddChain(ChainA, 1)
	stakes := [][3]int64{{10_000_000, 10_000_000, 10_000_000}, {40_000_000, 1_000_000, 59_000_000}, {30_000_000, 30_000_000, 40_000_000}}[sym.Choice("stakes", 3)]
	total := int64(0)
	for i := 0; i < 3; i++ {
		env.AddValidator(i, stakes[i], ChainA)
		total += stakes[i]
	}
	if _, err := env.Valset.TriggerSnapshotBuild(env.Ctx); err != nil {
		panic(err)
	}
	// relayer fee records: for everybody, or for everybody but the assignee (then the
	// fee computation of the election step fails)
	assigneeHasFees := sym.Bool("assignee-has-a-fee-record")
	if assigneeHasFees {
		env.SetupFees(sdkmath.LegacyMustNewDecFromStr("1.1"), 0, 1, 2)
	} else {
		env.SetupFees(sdkmath.LegacyMustNewDecFromStr("1.1"), 1, 2)
	}
	msg := &evmtypes.Message{TurnstoneID: "compass-" + ChainA, ChainReferenceID: ChainA, Assignee: Vals[0].String(), AssigneeRemoteAddress: models.EthAddrs[0], AssignedAtBlockHeight: sdkmath.NewInt(100),
		Action: &evmtypes.Message_SubmitLogicCall{SubmitLogicCall: &evmtypes.SubmitLogicCall{HexContractAddress: "0x6666666666666666666666666666666666666666", Payload: []byte{1}, Deadline: 1000, SenderAddress: []byte("sender-address-20byt")}}}
	id, err := env.Consensus.PutMessageInQueue(env.Ctx, c06Queue, msg, &consensus.PutOptions{RequireSignatures: true, RequireGasEstimation: true})
	if err != nil {
		panic(err)
	}
	L := 3
	values := []uint64{21000, 1_000_000}
	if sym.Tier() == "thorough" {
		L = 4
		values = []uint64{21000, 50000, 1_000_000}
	}
	var submitted [3]bool
	counted := int64(0)
	lo, hi := uint64(0), uint64(0)
	for s := 0; s < L; s++ {
		v := sym.Choice("estimator", 3)
		g := values[sym.Choice("value", len(values))]
		cctx, commit := env.Ctx.CacheContext()
		err := env.Consensus.AddMessageGasEstimates(cctx, Vals[v], []*consensustypes.MsgAddMessageGasEstimates_GasEstimate{{MsgId: id, QueueTypeName: c06Queue, Value: g}})
		if err != nil {
			sym.Reach("estimate-refused")
			continue
		}
		commit()
		sym.Reach("estimate-accepted")
		sym.Assert(!submitted[v], "one-estimate-per-validator")
		if !submitted[v] {
			submitted[v] = true
			counted += stakes[v]
		}
		if lo == 0 || g < lo {
			lo = g
		}
		if g > hi {
			hi = g
		}
	}
	if err := env.Consensus.CheckAndProcessEstimatedMessages(env.Ctx); err != nil {
		panic(err)
	}
	m := c06Load(env, id)
	if m == nil {
		panic("message lost")
	}
	em, err := libmsg.ToEvmMessage(m, env.Cdc)
	if err != nil {
		panic(err)
	}
	fees := em.GetSubmitLogicCall().GetFees()
	elected := m.GetGasEstimate()
	if elected != 0 {
		sym.Reach("estimate-elected")
		sym.Assert(3*counted >= 2*total, "election-needs-two-thirds-of-snapshot-shares-each-validator-counted-once")
		sym.Assert(lo <= elected && elected <= hi, "elected-value-lies-between-the-submitted-values")
		if !assigneeHasFees {
			sym.Reach("elected-although-the-fees-cannot-be-computed")
		}
	} else {
		sym.Reach("nothing-elected")
	}
	offered, err := env.Consensus.GetMessagesForRelaying(env.Ctx, c06Queue, Vals[0])
	if err != nil {
		panic(err)
	}
	if len(offered) > 0 {
		sym.Reach("offered-for-relay")
		sym.Assert(elected != 0 && fees != nil, "offered-for-relay-only-with-elected-estimate-and-fees")
	}
}
