package wired

import (
	gethcommon "github.com/ethereum/go-ethereum/common"
	"math/big"
	"time"

	sdkmath "cosmossdk.io/math"
	sdk "github.com/cosmos/cosmos-sdk/types"
	"github.com/palomachain/paloma/v2/util/libmsg"
	"github.com/palomachain/paloma/v2/x/consensus/keeper/consensus"
	consensustypes "github.com/palomachain/paloma/v2/x/consensus/types"
	evmtypes "github.com/palomachain/paloma/v2/x/evm/types"
	treasurytypes "github.com/palomachain/paloma/v2/x/treasury/types"
	valsettypes "github.com/palomachain/paloma/v2/x/valset/types"
	"github.com/palomachain/paloma/v2/zzverif/models"
	"github.com/palomachain/paloma/v2/zzverif/sym"
)

// C14 — messages are assigned to, and only relayable by, an eligible relayer;
// the attached fees follow the ceil formulas.

// VerifC14_Assign: the assignee of a new contract-call message is in the
// snapshot, has an account on the target chain (whose address becomes the
// signed relayer address), has a relayer fee on record and carries the MEV
// trait when demanded; otherwise the request fails and nothing is enqueued.
func VerifC14_Assign() {
	env := New(100)
	env.AddChain(ChainA, 1)
	env.AddChain(ChainB, 2)
	nv := 3
	jailed := make([]bool, nv)
	hasFee := make([]bool, nv)
	mev := make([]bool, nv)
	for i := 0; i < nv; i++ {
		env.AddValidator(i, int64(10_000_000*(i+1)))
		// accounts on both chains under different addresses, the job's chain listed second
		if err := env.Valset.AddExternalChainInfo(env.Ctx, Vals[i], []*valsettypes.ExternalChainInfo{
			{ChainType: "evm", ChainReferenceID: ChainB, Address: models.EthAddrs[i+3], Pubkey: gethcommon.HexToAddress(models.EthAddrs[i+3]).Bytes()},
			{ChainType: "evm", ChainReferenceID: ChainA, Address: models.EthAddrs[i], Pubkey: gethcommon.HexToAddress(models.EthAddrs[i]).Bytes()},
		}); err != nil {
			panic(err)
		}
		jailed[i] = sym.Bool("jailed")
		env.Staking.Find(Vals[i]).Jailed = jailed[i]
		// the MEV trait is per chain account: none, on the job's chain, or (validator 0) on the other chain only
		traitOn := ""
		if i == 0 {
			traitOn = []string{"", ChainA, ChainB}[sym.Choice("mev-trait-on", 3)]
		} else if sym.Bool("mev-trait") {
			traitOn = ChainA
		}
		if traitOn != "" && !jailed[i] {
			infos, _ := env.Valset.GetValidatorChainInfos(env.Ctx, Vals[i])
			for _, ci := range infos {
				if ci.ChainReferenceID == traitOn {
					ci.Traits = []string{valsettypes.PIGEON_TRAIT_MEV}
				}
			}
			if err := env.Valset.SetExternalChainInfoState(env.Ctx, Vals[i], infos); err != nil {
				panic(err)
			}
			mev[i] = traitOn == ChainA
		}
	}
	if _, err := env.Valset.TriggerSnapshotBuild(env.Ctx); err != nil {
		panic(err)
	}
	if err := env.Treasury.SetCommunityFundFee(env.Ctx, "0.01"); err != nil {
		panic(err)
	}
	if err := env.Treasury.SetSecurityFee(env.Ctx, "0.01"); err != nil {
		panic(err)
	}
	for i := 0; i < nv; i++ {
		hasFee[i] = sym.Bool("has-fee")
		if hasFee[i] {
			rfs := &treasurytypes.RelayerFeeSetting{ValAddress: Vals[i].String(), Fees: []treasurytypes.RelayerFeeSetting_FeeSetting{{ChainReferenceId: ChainA, Multiplicator: sdkmath.LegacyMustNewDecFromStr("1.1")}}}
			if err := env.Treasury.SetRelayerFee(env.Ctx, Vals[i], rfs); err != nil {
				panic(err)
			}
		}
	}
	// block time decides which of the top candidates is picked
	env.Ctx = env.Ctx.WithBlockTime(env.Ctx.BlockTime().Add(sdkSeconds(sym.IntRange("block-time-offset", 0, 1000))))
	needMEV := sym.Bool("job-requires-mev")
	call := &evmtypes.SubmitLogicCall{HexContractAddress: "0x6666666666666666666666666666666666666666", Payload: []byte{1}, Deadline: 1000, SenderAddress: []byte("sender-address-20byt"),
		ExecutionRequirements: evmtypes.SubmitLogicCall_ExecutionRequirements{EnforceMEVRelay: needMEV}}
	before, _ := env.Consensus.GetMessagesFromQueue(env.Ctx, c06Queue, 0)
	id, err := env.Evm.AddSmartContractExecutionToConsensus(env.Ctx, ChainA, "compass-"+ChainA, call)
	after, _ := env.Consensus.GetMessagesFromQueue(env.Ctx, c06Queue, 0)
	if err != nil {
		sym.Reach("assignment-failed")
		sym.Assert(len(after) == len(before), "failed-request-enqueues-nothing")
		// it may only fail when no validator is eligible
		for i := 0; i < nv; i++ {
			eligible := !jailed[i] && hasFee[i] && (!needMEV || mev[i])
			sym.Assert(!eligible, "request-fails-only-without-eligible-validator")
		}
		return
	}
	sym.Reach("assigned")
	sym.Assert(len(after) == len(before)+1, "successful-request-enqueues-exactly-one")
	var m *evmtypes.Message
	for _, q := range after {
		if q.GetId() == id {
			mm, err := libmsg.ToEvmMessage(q, env.Cdc)
			if err != nil {
				panic(err)
			}
			m = mm
		}
	}
	sym.Assert(m != nil, "enqueued-message-found")
	who := -1
	for i := 0; i < nv; i++ {
		if m.Assignee == Vals[i].String() {
			who = i
		}
	}
	sym.Assert(who >= 0, "assignee-is-a-known-validator")
	if who < 0 {
		return
	}
	sym.Assert(!jailed[who], "assignee-is-in-the-snapshot")
	sym.Assert(hasFee[who], "assignee-has-a-relayer-fee-on-record")
	sym.Assert(!needMEV || mev[who], "assignee-carries-mev-trait-when-required")
	sym.Assert(m.AssigneeRemoteAddress == models.EthAddrs[who], "signed-relayer-address-is-the-assignees-chain-account")
}

func sdkSeconds(n int64) time.Duration { return time.Duration(n) * time.Second }

// VerifC14_Relay: the messages-for-relaying query.
func VerifC14_Relay() {
	env := New(100)
	env.AddChain(ChainA, 1)
	for i := 0; i < 3; i++ {
		env.AddValidator(i, 10_000_000, ChainA)
	}
	opts, err := env.Evm.SupportedQueues(env.Ctx)
	if err != nil {
		panic(err)
	}
	var qo consensus.QueueOptions
	for _, o := range opts {
		if o.QueueTypeName == c06Queue {
			qo = o.QueueOptions
		}
	}
	qo.Sg = env.Consensus
	qo.Cdc = env.Cdc
	q, err := consensus.NewQueue(qo)
	if err != nil {
		panic(err)
	}
	n := 3
	type attr struct {
		id        uint64
		valset    bool
		assignee  int
		sender    int
		required  bool
		elected   bool
		processed int
	}
	senders := [][]byte{[]byte("sender-one----------"), []byte("sender-two----------")}
	var ms []attr
	free := 2 // messages with arbitrary attributes; the last one is a fixed probe
	if sym.Tier() == "thorough" {
		free = 3
	}
	for i := 0; i < n; i++ {
		a := attr{}
		if i < free {
			a.assignee, a.sender = sym.Choice("assignee", 2), sym.Choice("sender", 2)
		}
		a.valset = i < 2 && sym.Bool("is-valset-update") // up to two pending validator-set updates
		var msg *evmtypes.Message
		if a.valset {
			msg = &evmtypes.Message{TurnstoneID: "c", ChainReferenceID: ChainA, Assignee: Vals[a.assignee].String(), AssigneeRemoteAddress: models.EthAddrs[a.assignee], AssignedAtBlockHeight: sdkmath.NewInt(100),
				Action: &evmtypes.Message_UpdateValset{UpdateValset: &evmtypes.UpdateValset{Valset: &evmtypes.Valset{ValsetID: 9, Validators: []string{models.EthAddrs[0]}, Powers: []uint64{1 << 32}}}}}
		} else {
			msg = &evmtypes.Message{TurnstoneID: "c", ChainReferenceID: ChainA, Assignee: Vals[a.assignee].String(), AssigneeRemoteAddress: models.EthAddrs[a.assignee], AssignedAtBlockHeight: sdkmath.NewInt(100),
				Action: &evmtypes.Message_SubmitLogicCall{SubmitLogicCall: &evmtypes.SubmitLogicCall{HexContractAddress: "0x6666666666666666666666666666666666666666", Payload: []byte{byte(i)}, Deadline: 1000, SenderAddress: senders[a.sender]}}}
		}
		a.required = i < free && sym.Bool("requires-estimate")
		id, err := env.Consensus.PutMessageInQueue(env.Ctx, c06Queue, msg, &consensus.PutOptions{RequireSignatures: true, RequireGasEstimation: a.required})
		if err != nil {
			panic(err)
		}
		a.id = id
		if a.required && sym.Bool("estimate-elected") {
			a.elected = true
			if err := q.SetElectedGasEstimate(env.Ctx, id, 21000); err != nil {
				panic(err)
			}
		}
		if i < free {
			a.processed = sym.Choice("processed", 3)
		}
		switch a.processed {
		case 1:
			if err := q.SetPublicAccessData(env.Ctx, id, &consensustypes.PublicAccessData{ValAddress: Vals[0], Data: []byte("tx")}); err != nil {
				panic(err)
			}
		case 2:
			if err := q.SetErrorData(env.Ctx, id, &consensustypes.ErrorData{ValAddress: Vals[0], Data: []byte("err")}); err != nil {
				panic(err)
			}
		}
		ms = append(ms, a)
	}
	got, err := env.Consensus.GetMessagesForRelaying(env.Ctx, c06Queue, Vals[0])
	sym.Assert(err == nil, "relay-query-succeeds")
	sym.Reach("relay-query")
	// specification
	pending := uint64(0)
	for _, a := range ms {
		if a.valset && pending == 0 {
			pending = a.id
		}
	}
	seen := map[int]bool{}
	want := map[uint64]bool{}
	for _, a := range ms {
		if pending != 0 && a.id > pending {
			continue // behind an older pending validator-set update
		}
		if a.processed != 0 {
			continue // already has a delivery or error report
		}
		if !a.valset {
			if seen[a.sender] {
				continue // an older message of the same sender is still pending
			}
			seen[a.sender] = true
		}
		if a.required && !a.elected {
			continue
		}
		if a.assignee != 0 {
			continue
		}
		want[a.id] = true
	}
	gotSet := map[uint64]bool{}
	for _, g := range got {
		gotSet[g.GetId()] = true
	}
	for _, a := range ms {
		sym.Assert(gotSet[a.id] == want[a.id], "offered-for-relay-iff-eligible")
	}
	sym.Assert(len(got) == len(gotSet), "no-message-offered-twice")
}

// VerifC14_Fees: relayerFee = ceil(mult*gas), community/security = ceil(rate*relayerFee).
func VerifC14_Fees() {
	env := New(100)
	env.AddChain(ChainA, 1)
	for i := 0; i < 3; i++ {
		env.AddValidator(i, 10_000_000, ChainA)
	}
	if _, err := env.Valset.TriggerSnapshotBuild(env.Ctx); err != nil {
		panic(err)
	}
	multRaw := sym.BigInt("multiplier-raw", 70) // LegacyDec raw value (x 10^-18)
	sym.Assume(multRaw.Sign() > 0)
	mult := sdkmath.LegacyNewDecFromBigIntWithPrec(multRaw, 18)
	env.SetupFees(mult, 0, 1, 2)
	gas := sym.Uint64Range("gas", 1, 1<<40)
	// stated bound: the relayer fee fits a uint64 (the overflow is the subject of C09)
	prod := new(big.Int).Mul(multRaw, new(big.Int).SetUint64(gas))
	limit := new(big.Int).Mul(new(big.Int).Lsh(big.NewInt(1), 62), new(big.Int).Exp(big.NewInt(10), big.NewInt(18), nil))
	sym.Assume(prod.Cmp(limit) < 0)

	msg := &evmtypes.Message{TurnstoneID: "compass-" + ChainA, ChainReferenceID: ChainA, Assignee: Vals[0].String(), AssigneeRemoteAddress: models.EthAddrs[0], AssignedAtBlockHeight: sdkmath.NewInt(100),
		Action: &evmtypes.Message_SubmitLogicCall{SubmitLogicCall: &evmtypes.SubmitLogicCall{HexContractAddress: "0x6666666666666666666666666666666666666666", Payload: []byte{1}, Deadline: 1000, SenderAddress: []byte("sender-address-20byt")}}}
	id, err := env.Consensus.PutMessageInQueue(env.Ctx, c06Queue, msg, &consensus.PutOptions{RequireSignatures: true, RequireGasEstimation: true})
	if err != nil {
		panic(err)
	}
	for v := 0; v < 3; v++ {
		if err := env.Consensus.AddMessageGasEstimates(env.Ctx, Vals[v], []*consensustypes.MsgAddMessageGasEstimates_GasEstimate{{MsgId: id, QueueTypeName: c06Queue, Value: gas}}); err != nil {
			panic(err)
		}
	}
	if err := env.Consensus.CheckAndProcessEstimatedMessages(env.Ctx); err != nil {
		panic(err)
	}
	m := c06Load(env, id)
	sym.Assert(m != nil && m.GetGasEstimate() == gas, "median-of-identical-estimates-elected")
	em, err := libmsg.ToEvmMessage(m, env.Cdc)
	if err != nil {
		panic(err)
	}
	fees := em.GetSubmitLogicCall().GetFees()
	sym.Assert(fees != nil, "fees-attached-after-election")
	if fees == nil {
		return
	}
	sym.Reach("fees-attached")
	e18 := new(big.Int).Exp(big.NewInt(10), big.NewInt(18), nil)
	r := new(big.Int).SetUint64(fees.RelayerFee)
	// r = ceil(prod / 10^18)  <=>  (r-1)*10^18 < prod <= r*10^18
	lo := new(big.Int).Mul(new(big.Int).Sub(r, big.NewInt(1)), e18)
	hi := new(big.Int).Mul(r, e18)
	sym.Assert(sym.And(lo.Cmp(prod) < 0, prod.Cmp(hi) <= 0), "relayer-fee-is-ceil-of-multiplier-times-gas")
	// community / security = ceil(0.01 * r)  <=>  (c-1)*100 < r <= c*100
	for k, c := range []uint64{fees.CommunityFee, fees.SecurityFee} {
		cb := new(big.Int).SetUint64(c)
		clo := new(big.Int).Mul(new(big.Int).Sub(cb, big.NewInt(1)), big.NewInt(100))
		chi := new(big.Int).Mul(cb, big.NewInt(100))
		label := "community-fee-is-ceil-of-rate-times-relayer-fee"
		if k == 1 {
			label = "security-fee-is-ceil-of-rate-times-relayer-fee"
		}
		sym.Assert(sym.And(clo.Cmp(r) < 0, r.Cmp(chi) <= 0), label)
	}
	_ = sdk.AccAddress{}
}
