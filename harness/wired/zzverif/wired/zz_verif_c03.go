package wired

import (
	sdkmath "cosmossdk.io/math"
	codectypes "github.com/cosmos/cosmos-sdk/codec/types"
	sdk "github.com/cosmos/cosmos-sdk/types"
	consensuskeeper "github.com/palomachain/paloma/v2/x/consensus/keeper"
	"github.com/palomachain/paloma/v2/x/consensus/keeper/consensus"
	consensustypes "github.com/palomachain/paloma/v2/x/consensus/types"
	evmkeeper "github.com/palomachain/paloma/v2/x/evm/keeper"
	evmtypes "github.com/palomachain/paloma/v2/x/evm/types"
	treasurykeeper "github.com/palomachain/paloma/v2/x/treasury/keeper"
	treasurytypes "github.com/palomachain/paloma/v2/x/treasury/types"
	valsetkeeper "github.com/palomachain/paloma/v2/x/valset/keeper"
	valsettypes "github.com/palomachain/paloma/v2/x/valset/types"
	"github.com/palomachain/paloma/v2/zzverif/models"
	"github.com/palomachain/paloma/v2/zzverif/sym"
)

// C03 (layer 2, validator-keyed state) — a message authorised by validator A
// changes only state kept in A's name: relayer fee settings, gas estimates,
// evidence, keep-alives, external chain accounts.

func VerifC03_Treasury() {
	env := New(100)
	env.AddChain(ChainA, 1)
	for i := 0; i < 2; i++ {
		env.AddValidator(i, 10_000_000, ChainA)
	}
	env.SetupFees(sdkmath.LegacyMustNewDecFromStr("1.5"), 0, 1)
	creator := sym.Choice("creator", 2)
	// the validator named inside the message: one of the two validators, or an arbitrary 20-byte address
	var namedAddr sdk.ValAddress
	if named := sym.Choice("named-validator", 3); named < 2 {
		namedAddr = Vals[named]
	} else {
		namedAddr = sdk.ValAddress(sym.Bytes("named-address", 20))
	}
	before := [2]sdkmath.LegacyDec{}
	get := func(i int) sdkmath.LegacyDec {
		f, err := env.Treasury.GetRelayerFeesByChainReferenceID(env.Ctx, ChainA)
		if err != nil {
			panic(err)
		}
		return f[Vals[i].String()]
	}
	for i := 0; i < 2; i++ {
		before[i] = get(i)
	}
	srv := treasurykeeper.NewMsgServerImpl(*env.Treasury)
	msg := &treasurytypes.MsgUpsertRelayerFee{Metadata: c09Meta(creator),
		FeeSetting: &treasurytypes.RelayerFeeSetting{ValAddress: namedAddr.String(), Fees: []treasurytypes.RelayerFeeSetting_FeeSetting{{ChainReferenceId: ChainA, Multiplicator: sdkmath.LegacyMustNewDecFromStr("9.9")}}}}
	// delivered as baseapp does: stateless validation first, then the handler
	err := c03ValidateBasic(msg)
	if err == nil {
		_, err = srv.UpsertRelayerFee(env.Ctx, msg)
	}
	if err != nil {
		sym.Reach("fee-update-rejected")
		return
	}
	sym.Reach("fee-update-accepted")
	sym.Assert(namedAddr.Equals(Vals[creator]), "accepted-fee-update-names-the-creator")
	sym.Assert(!get(creator).Equal(before[creator]), "accepted-fee-update-takes-effect-for-the-creator")
	for i := 0; i < 2; i++ {
		if i != creator {
			sym.Assert(get(i).Equal(before[i]), "fee-setting-of-another-validator-untouched")
		}
	}
}

// c03ValidateBasic mirrors baseapp.validateBasicTxMsgs for one message.
func c03ValidateBasic(msg sdk.Msg) error {
	if vb, ok := msg.(sdk.HasValidateBasic); ok {
		return vb.ValidateBasic()
	}
	return nil
}

// VerifC03_ValidatorKeyed: consensus and valset handlers derive the validator from the creator.
func VerifC03_ValidatorKeyed() {
	env := New(100)
	env.AddChain(ChainA, 1)
	for i := 0; i < 3; i++ {
		env.AddValidator(i, 10_000_000, ChainA)
	}
	if _, err := env.Valset.TriggerSnapshotBuild(env.Ctx); err != nil {
		panic(err)
	}
	if err := env.Valset.SetPigeonRequirements(env.Ctx, &valsettypes.PigeonRequirements{MinVersion: "v1.12.0"}); err != nil {
		panic(err)
	}
	msg := &evmtypes.Message{TurnstoneID: "compass-" + ChainA, ChainReferenceID: ChainA, Assignee: Vals[0].String(), AssigneeRemoteAddress: models.EthAddrs[0], AssignedAtBlockHeight: sdkmath.NewInt(100),
		Action: &evmtypes.Message_SubmitLogicCall{SubmitLogicCall: &evmtypes.SubmitLogicCall{HexContractAddress: "0x6666666666666666666666666666666666666666", Payload: []byte{1}, Deadline: 1000, SenderAddress: []byte("sender-address-20byt")}}}
	id, err := env.Consensus.PutMessageInQueue(env.Ctx, c06Queue, msg, &consensus.PutOptions{RequireSignatures: true, RequireGasEstimation: true, PublicAccessData: []byte("tx")})
	if err != nil {
		panic(err)
	}
	creator := sym.Choice("creator", 2)
	other := 1 - creator
	csrv := consensuskeeper.NewMsgServerImpl(*env.Consensus)
	vsrv := valsetkeeper.NewMsgServerImpl(*env.Valset)
	aliveBefore, _ := env.Valset.IsValidatorAlive(env.Ctx, Vals[other])
	infosBefore, _ := env.Valset.GetValidatorChainInfos(env.Ctx, Vals[other])
	switch sym.Choice("message", 4) {
	case 0:
		_, err = csrv.AddMessageEstimates(env.Ctx, &consensustypes.MsgAddMessageGasEstimates{Metadata: c09Meta(creator),
			Estimates: []*consensustypes.MsgAddMessageGasEstimates_GasEstimate{{MsgId: id, QueueTypeName: c06Queue, Value: 21000, EstimatedByAddress: models.EthAddrs[other]}}})
	case 1:
		proof, _ := codectypes.NewAnyWithValue(&evmtypes.SmartContractExecutionErrorProof{ErrorMessage: "boom"})
		_, err = csrv.AddEvidence(env.Ctx, &consensustypes.MsgAddEvidence{Metadata: c09Meta(creator), Proof: proof, MessageID: id, QueueTypeName: c06Queue})
	case 2:
		_, err = vsrv.KeepAlive(env.Ctx, &valsettypes.MsgKeepAlive{Metadata: c09Meta(creator), PigeonVersion: "v1.12.0"})
	case 3:
		_, err = vsrv.AddExternalChainInfoForValidator(env.Ctx, &valsettypes.MsgAddExternalChainInfoForValidator{Metadata: c09Meta(creator),
			ChainInfos: []*valsettypes.ExternalChainInfo{{ChainType: "evm", ChainReferenceID: ChainA, Address: models.EthAddrs[3], Pubkey: []byte("new-key")}}})
	}
	if err != nil {
		sym.Reach("validator-message-rejected")
		return
	}
	sym.Reach("validator-message-accepted")
	m := c06Load(env, id)
	for _, ge := range m.GetGasEstimates() {
		sym.Assert(ge.ValAddress.Equals(Vals[creator]), "gas-estimate-recorded-under-the-creator")
	}
	for _, ev := range m.GetEvidence() {
		sym.Assert(ev.ValAddress.Equals(Vals[creator]), "evidence-recorded-under-the-creator")
	}
	aliveAfter, _ := env.Valset.IsValidatorAlive(env.Ctx, Vals[other])
	sym.Assert(aliveAfter == aliveBefore, "keep-alive-of-another-validator-untouched")
	infosAfter, _ := env.Valset.GetValidatorChainInfos(env.Ctx, Vals[other])
	sym.Assert(len(infosAfter) == len(infosBefore) && (len(infosAfter) == 0 || infosAfter[0].Address == infosBefore[0].Address), "chain-accounts-of-another-validator-untouched")
	_ = sdk.AccAddress{}
}

// VerifC03_UserOwned: uploaded user contracts are kept per creator; removal
// and deployment only touch the creator's own contracts. Governance-only evm
// handlers run for the governance authority alone.
func VerifC03_UserOwned() {
	env := New(100)
	env.AddChain(ChainA, 1)
	for i := 0; i < 2; i++ {
		env.AddValidator(i, 10_000_000, ChainA)
	}
	if _, err := env.Valset.TriggerSnapshotBuild(env.Ctx); err != nil {
		panic(err)
	}
	env.SetupFees(sdkmath.LegacyMustNewDecFromStr("1.1"), 0, 1)
	srv := evmkeeper.NewMsgServerImpl(*env.Evm)
	ownerVal := func(i int) string { return Vals[i].String() }
	up, err := srv.UploadUserSmartContract(env.Ctx, &evmtypes.MsgUploadUserSmartContractRequest{Metadata: c09Meta(0), Title: "t", AbiJson: "[]", Bytecode: "0x00", ConstructorInput: "0x"})
	if err != nil {
		panic(err)
	}
	if err := env.Evm.SetSmartContractDeployer(env.Ctx, ChainA, "0x5555555555555555555555555555555555555555"); err != nil {
		panic(err)
	}
	before, _ := env.Evm.UserSmartContracts(env.Ctx, ownerVal(0))
	if len(before) != 1 {
		panic("setup: contract not stored")
	}
	switch sym.Choice("message", 4) {
	case 0:
		creator := sym.Choice("creator", 2)
		_, err := srv.RemoveUserSmartContract(env.Ctx, &evmtypes.MsgRemoveUserSmartContractRequest{Metadata: c09Meta(creator), Id: up.Id})
		after, _ := env.Evm.UserSmartContracts(env.Ctx, ownerVal(0))
		if err == nil {
			sym.Reach("remove-accepted")
			sym.Assert(creator == 0, "only-the-author-removes-a-contract")
		} else {
			sym.Reach("remove-rejected")
		}
		if creator != 0 {
			sym.Assert(len(after) == 1, "contract-of-another-user-untouched-by-remove")
		}
	case 1:
		creator := sym.Choice("creator", 2)
		_, err := srv.DeployUserSmartContract(env.Ctx, &evmtypes.MsgDeployUserSmartContractRequest{Metadata: c09Meta(creator), Id: up.Id, TargetChain: ChainA})
		after, _ := env.Evm.UserSmartContracts(env.Ctx, ownerVal(0))
		if err == nil {
			sym.Reach("deploy-accepted")
			sym.Assert(creator == 0, "only-the-author-deploys-a-contract")
		} else {
			sym.Reach("deploy-rejected")
			if creator == 0 {
				sym.Note("author-deploy-rejected: " + err.Error())
			}
		}
		if creator != 0 {
			sym.Assert(len(after) == 1 && len(after[0].Deployments) == 0, "contract-of-another-user-untouched-by-deploy")
		}
	case 2:
		creator := sym.Choice("creator", 2)
		_, err := srv.UploadUserSmartContract(env.Ctx, &evmtypes.MsgUploadUserSmartContractRequest{Metadata: c09Meta(creator), Title: "u", AbiJson: "[]", Bytecode: "0x01", ConstructorInput: "0x"})
		if err != nil {
			panic(err)
		}
		o, _ := env.Evm.UserSmartContracts(env.Ctx, ownerVal(1-creator))
		want := 1
		if creator == 0 {
			want = 0
		}
		sym.Assert(len(o) == want, "upload-recorded-under-the-creator-only")
	case 3:
		ids := []string{Authority, sdk.AccAddress(Vals[0]).String(), sdk.AccAddress("some-user-----------").String()}
		auth := ids[sym.Choice("authority-field", 3)]
		creator := ids[sym.Choice("creator-field", 3)]
		ci0, _ := env.Evm.GetChainInfo(env.Ctx, ChainA)
		_, err := srv.ProposeNewReferenceBlockAttestation(env.Ctx, &evmtypes.MsgProposeNewReferenceBlockAttestation{
			Metadata: valsettypes.MsgMetadata{Creator: creator, Signers: []string{creator}}, Authority: auth, ChainReferenceId: ChainA, BlockHeight: 999, BlockHash: "0xabc"})
		ci1, _ := env.Evm.GetChainInfo(env.Ctx, ChainA)
		if err == nil {
			sym.Reach("reference-block-accepted")
			sym.Assert(creator == Authority && auth == Authority, "only-the-authority-sets-the-reference-block")
		} else {
			sym.Reach("reference-block-rejected")
			sym.Assert(ci1.ReferenceBlockHeight == ci0.ReferenceBlockHeight && ci1.ReferenceBlockHash == ci0.ReferenceBlockHash, "rejected-reference-block-changes-nothing")
		}
	}
}
