package wired

import (
	"math/big"
	"strings"

	sdkmath "cosmossdk.io/math"
	codectypes "github.com/cosmos/cosmos-sdk/codec/types"
	"github.com/ethereum/go-ethereum/accounts/abi"
	gethcommon "github.com/ethereum/go-ethereum/common"
	"github.com/palomachain/paloma/v2/x/consensus/keeper/consensus"
	consensustypes "github.com/palomachain/paloma/v2/x/consensus/types"
	evmtypes "github.com/palomachain/paloma/v2/x/evm/types"
	"github.com/palomachain/paloma/v2/zzverif/models"
	"github.com/palomachain/paloma/v2/zzverif/sym"
)

// C07 (keeper layer) — evidence of a remote transaction, agreed on by 2/3 of
// the snapshot, produces the success effects of a queued valset update (the
// new snapshot marked live on the chain) only if the transaction's call data
// is the encoding of that very message and its receipt reports success. The
// same transaction is never accepted for a second message.

func c07Pack(method string, args ...any) []byte {
	a, err := abi.JSON(strings.NewReader(models.CompassABI))
	if err != nil {
		panic(err)
	}
	b, err := a.Pack(method, args...)
	if err != nil {
		panic(err)
	}
	return b
}

func c07CompassValset(v *evmtypes.Valset) evmtypes.CompassValset {
	out := evmtypes.CompassValset{ValsetId: new(big.Int).SetUint64(v.ValsetID)}
	for i, a := range v.Validators {
		out.Validators = append(out.Validators, gethcommon.HexToAddress(a))
		out.Powers = append(out.Powers, new(big.Int).SetUint64(v.Powers[i]))
	}
	return out
}

func c07Consensus(vs *evmtypes.Valset, sigs []*consensustypes.SignData) evmtypes.CompassConsensus {
	c := evmtypes.CompassConsensus{Valset: c07CompassValset(vs)}
	for _, a := range vs.Validators {
		var found *consensustypes.SignData
		for _, s := range sigs {
			if s.ExternalAccountAddress == a {
				found = s
			}
		}
		if found == nil {
			c.Signatures = append(c.Signatures, evmtypes.Signature{V: big.NewInt(0), R: big.NewInt(0), S: big.NewInt(0)})
			continue
		}
		c.Signatures = append(c.Signatures, evmtypes.Signature{V: new(big.Int).SetUint64(uint64(found.Signature[64]) + 27),
			R: new(big.Int).SetBytes(found.Signature[:32]), S: new(big.Int).SetBytes(found.Signature[32:64])})
	}
	return c
}

func c07Live(env *Env, snapshotID uint64) bool {
	s, err := env.Valset.FindSnapshotByID(env.Ctx, snapshotID)
	if err != nil {
		panic(err)
	}
	for _, c := range s.Chains {
		if c == ChainA {
			return true
		}
	}
	return false
}

// c07PutUpdate enqueues a valset update towards snapshot `to`, signed by validators 0 and 1,
// with the relayer's public access data naming the signing snapshot.
func c07PutUpdate(env *Env, to *evmtypes.Valset, signingSnapshot uint64) uint64 {
	msg := &evmtypes.Message{TurnstoneID: "compass-" + ChainA, ChainReferenceID: ChainA, Assignee: Vals[0].String(), AssigneeRemoteAddress: models.EthAddrs[0],
		AssignedAtBlockHeight: sdkmath.NewInt(100), Action: &evmtypes.Message_UpdateValset{UpdateValset: &evmtypes.UpdateValset{Valset: to}}}
	id, err := env.Consensus.PutMessageInQueue(env.Ctx, c06Queue, msg, &consensus.PutOptions{RequireSignatures: true})
	if err != nil {
		panic(err)
	}
	for v := 0; v < 2; v++ {
		bts, err := c06Load(env, id).GetBytesToSign(env.Cdc)
		if err != nil {
			panic(err)
		}
		if err := env.Consensus.AddMessageSignature(env.Ctx, Vals[v], []*consensustypes.ConsensusMessageSignature{{Id: id, QueueTypeName: c06Queue, Signature: models.SignDigest(v, c06Digest(bts)), SignedByAddress: models.EthAddrs[v]}}); err != nil {
			panic(err)
		}
	}
	if err := env.Consensus.SetMessagePublicAccessData(env.Ctx, Vals[0], &consensustypes.MsgSetPublicAccessData{MessageID: id, QueueTypeName: c06Queue, Data: []byte("txhash"), ValsetID: signingSnapshot}); err != nil {
		panic(err)
	}
	return id
}

func c07Evidence(env *Env, id uint64, txBytes, receiptBytes []byte, voters int) {
	for v := 0; v < voters; v++ {
		proof, err := codectypes.NewAnyWithValue(&evmtypes.TxExecutedProof{SerializedTX: txBytes, SerializedReceipt: receiptBytes})
		if err != nil {
			panic(err)
		}
		if err := env.Consensus.AddMessageEvidence(env.Ctx, Vals[v], &consensustypes.MsgAddEvidence{Proof: proof, MessageID: id, QueueTypeName: c06Queue}); err != nil {
			panic(err)
		}
	}
}

func c07QueryValset(env *Env, snapshotID uint64) *evmtypes.Valset {
	r, err := env.Evm.GetValsetByID(env.Ctx, &evmtypes.QueryGetValsetByIDRequest{ValsetID: snapshotID, ChainReferenceID: ChainA})
	if err != nil {
		panic(err)
	}
	return r.Valset
}

// c07Setup: chain with snapshot 1 live, compass contract on record, snapshot 2 built.
func c07Setup() (env *Env, signing, target *evmtypes.Valset) {
	return c07SetupABI(models.CompassABI)
}

func c07SetupABI(compassABI string) (env *Env, signing, target *evmtypes.Valset) {
	env = New(100)
	env.AddChain(ChainA, 1)
	for i := 0; i < 3; i++ {
		env.AddValidator(i, 10_000_000, ChainA)
	}
	s1, err := env.Valset.TriggerSnapshotBuild(env.Ctx)
	if err != nil {
		panic(err)
	}
	sc, err := env.Evm.SaveNewSmartContract(env.Ctx, compassABI, []byte{0x60})
	if err != nil {
		panic(err)
	}
	if err := env.Evm.SetAsCompassContract(env.Ctx, sc); err != nil {
		panic(err)
	}
	env.AddValidator(3, 10_000_000, ChainA)
	s2, err := env.Valset.TriggerSnapshotBuild(env.Ctx)
	if err != nil {
		panic(err)
	}
	if s2.Id == s1.Id {
		panic("setup: no second snapshot")
	}
	return env, c07QueryValset(env, s1.Id), c07QueryValset(env, s2.Id)
}

func c07Count(env *Env, snapshotID uint64) int {
	s, err := env.Valset.FindSnapshotByID(env.Ctx, snapshotID)
	if err != nil {
		panic(err)
	}
	n := 0
	for _, c := range s.Chains {
		if c == ChainA {
			n++
		}
	}
	return n
}

func VerifC07_Attest() {
	// the compass contract on record may be one whose ABI cannot express the call at all
	// (verification then fails with an error other than "not verified")
	abiOK := !sym.Bool("recorded-compass-abi-lacks-the-call")
	compassABI := models.CompassABI
	if !abiOK {
		compassABI = "[]"
	}
	env, signing, target := c07SetupABI(compassABI)
	id := c07PutUpdate(env, target, signing.ValsetID)
	m := c06Load(env, id)
	relayer := models.EthAddrs[0]
	estimate := m.GetGasEstimate()
	delivered := evmtypes.Valset{ValsetID: target.ValsetID, Validators: append([]string{}, target.Validators...), Powers: append([]uint64{}, target.Powers...)}
	same := true
	switch sym.Choice("corruption", 5) {
	case 1:
		relayer = gethcommon.BytesToAddress(sym.Bytes("relayer", 20)).Hex()
		same = relayer == models.EthAddrs[0]
	case 2:
		estimate = sym.Uint64("estimate")
		same = estimate == m.GetGasEstimate()
	case 3:
		delivered.Powers[0] = sym.Uint64Range("power", 0, 1<<32)
		same = delivered.Powers[0] == target.Powers[0]
	case 4:
		delivered.ValsetID = sym.Uint64Range("valset-id", 0, 1<<62)
		same = delivered.ValsetID == target.ValsetID
	}
	data := c07Pack("update_valset", c07Consensus(signing, m.GetSignData()), c07CompassValset(&delivered), gethcommon.HexToAddress(relayer), new(big.Int).SetUint64(estimate))
	status := sym.Uint64Range("receipt-status", 0, 2)
	txb, err := models.EthTx(1, data).MarshalBinary()
	if err != nil {
		panic(err)
	}
	rb, err := models.EthReceipt(status).MarshalBinary()
	if err != nil {
		panic(err)
	}
	// the evidence may come without any receipt at all
	hasReceipt := sym.Bool("receipt-supplied")
	if !hasReceipt {
		rb = nil
	}
	voters := 2 + sym.Choice("voters", 2) // 4 members: 50% (no quorum) or 75%
	c07Evidence(env, id, txb, rb, voters)
	before := c07Count(env, target.ValsetID)
	if before != 0 {
		panic("setup: target snapshot already live")
	}
	perr := env.Consensus.CheckAndProcessAttestedMessages(env.Ctx)
	if perr != nil {
		sym.Note("process error: " + perr.Error())
	}
	if mm := c06Load(env, id); mm != nil {
		sym.Note("message still queued")
	}
	after := c07Count(env, target.ValsetID)
	if after > 0 {
		sym.Reach("snapshot-marked-live")
		sym.Assert(same, "success-effects-only-for-the-exact-call-data")
		sym.Assert(abiOK, "success-effects-only-when-the-call-data-could-be-verified")
		sym.Assert(hasReceipt && status == 1, "success-effects-only-with-a-successful-receipt")
		sym.Assert(voters >= 3, "success-effects-only-with-two-thirds-evidence")
		sym.Assert(after == 1, "success-effects-applied-once")
		sym.Assert(c06Load(env, id) == nil, "delivered-message-leaves-the-queue")
	} else {
		sym.Reach("snapshot-not-marked-live")
		sym.Assert(!(same && abiOK && hasReceipt && status == 1 && voters >= 3), "matching-successful-transaction-with-quorum-is-accepted")
	}
}

// VerifC07_SingleUse: two queued messages with identical call data (update_valset
// carries no message id); one remote transaction is offered as evidence for both.
func VerifC07_SingleUse() {
	env, signing, target := c07Setup()
	idA := c07PutUpdate(env, target, signing.ValsetID)
	idB := c07PutUpdate(env, target, signing.ValsetID)
	m := c06Load(env, idA)
	data := c07Pack("update_valset", c07Consensus(signing, m.GetSignData()), c07CompassValset(target), gethcommon.HexToAddress(models.EthAddrs[0]), new(big.Int).SetUint64(m.GetGasEstimate()))
	nonceB := uint64(1)
	distinct := sym.Bool("second-message-has-its-own-transaction")
	if distinct {
		nonceB = 2
	}
	rb, _ := models.EthReceipt(1).MarshalBinary()
	txA, _ := models.EthTx(1, data).MarshalBinary()
	txB, _ := models.EthTx(nonceB, data).MarshalBinary()
	sameBlock := sym.Bool("evidence-in-the-same-block")
	c07Evidence(env, idA, txA, rb, 3)
	if !sameBlock {
		_ = env.Consensus.CheckAndProcessAttestedMessages(env.Ctx)
	}
	if c06Load(env, idB) == nil {
		sym.Reach("second-message-swept-with-the-first")
		return
	}
	c07Evidence(env, idB, txB, rb, 3)
	_ = env.Consensus.CheckAndProcessAttestedMessages(env.Ctx)
	n := c07Count(env, target.ValsetID)
	sym.Assert(n >= 1, "first-delivery-accepted")
	if distinct {
		sym.Reach("two-transactions")
	} else {
		sym.Reach("one-transaction-offered-twice")
		sym.Assert(n == 1, "one-transaction-proves-one-message")
	}
}
