package wired

import (
	"github.com/palomachain/paloma/v2/x/consensus/keeper/consensus"
	evmtypes "github.com/palomachain/paloma/v2/x/evm/types"
	"github.com/palomachain/paloma/v2/zzverif/sym"
)

// C05 (ids) — message ids are unique across all queues of all chains and
// strictly increase. All histories of L operations {enqueue on one of 4
// queues (2 queue types x 2 chains), replace an existing message, remove}
// through the consensus keeper's exported API over the real evm queue
// registry.

func c05Msg(chain string, n uint64) *evmtypes.Message {
	return &evmtypes.Message{TurnstoneID: "compass-" + chain, ChainReferenceID: chain, Assignee: Vals[0].String(), AssigneeRemoteAddress: "0x5555555555555555555555555555555555555555",
		Action: &evmtypes.Message_SubmitLogicCall{SubmitLogicCall: &evmtypes.SubmitLogicCall{HexContractAddress: "0x6666666666666666666666666666666666666666", Payload: []byte{byte(n)}, Deadline: 1000}}}
}

func VerifC05_Ids() {
	env := New(100)
	env.AddChain(ChainA, 1)
	env.AddChain(ChainB, 56)
	queues := []string{
		"evm/" + ChainA + "/evm-turnstone-message",
		"evm/" + ChainB + "/evm-turnstone-message",
	}
	L := 4
	if sym.Tier() == "thorough" {
		L = 5
	}
	maxID := uint64(0)
	type live struct {
		id uint64
		q  int
	}
	var alive, retired []live
	for step := 0; step < L; step++ {
		switch sym.Choice("op", 4) {
		case 0: // enqueue
			q := sym.Choice("queue", 2)
			chain := []string{ChainA, ChainB}[q]
			id, err := env.Consensus.PutMessageInQueue(env.Ctx, queues[q], c05Msg(chain, uint64(step)), nil)
			sym.Assert(err == nil, "enqueue-succeeds")
			sym.Reach("enqueued")
			sym.Assert(id > maxID, "fresh-id-greater-than-every-earlier-id")
			maxID = id
			alive = append(alive, live{id, q})
		case 1: // replace an existing message in place
			if len(alive) == 0 {
				continue
			}
			i := sym.Choice("which", len(alive))
			chain := []string{ChainA, ChainB}[alive[i].q]
			id, err := env.Consensus.PutMessageInQueue(env.Ctx, queues[alive[i].q], c05Msg(chain, 99), &consensus.PutOptions{MsgIDToReplace: alive[i].id, RequireSignatures: true})
			sym.Assert(err == nil && id == alive[i].id, "replace-keeps-the-id")
			sym.Reach("replaced")
		case 2: // remove
			if len(alive) == 0 {
				continue
			}
			i := sym.Choice("which", len(alive))
			err := env.Consensus.DeleteJob(env.Ctx, queues[alive[i].q], alive[i].id)
			sym.Assert(err == nil, "remove-succeeds")
			sym.Reach("removed")
			retired = append(retired, alive[i])
			alive = append(alive[:i], alive[i+1:]...)
		case 3: // a replace aimed at an id that is not in that queue: one that was removed, or one that lives in the other chain's queue
			var target live
			if len(retired) > 0 && sym.Bool("target-was-removed") {
				target = retired[sym.Choice("which-removed", len(retired))]
			} else if len(alive) > 0 {
				t := alive[sym.Choice("which", len(alive))]
				target = live{t.id, 1 - t.q}
			} else {
				continue
			}
			chain := []string{ChainA, ChainB}[target.q]
			cctx, commit := env.Ctx.CacheContext()
			_, err := env.Consensus.PutMessageInQueue(cctx, queues[target.q], c05Msg(chain, 98), &consensus.PutOptions{MsgIDToReplace: target.id, RequireSignatures: true})
			if err == nil {
				commit()
				sym.Reach("stray-replace-accepted")
			} else {
				sym.Reach("stray-replace-refused")
			}
		}
		// what the queues hold is exactly the live messages: no id twice, no retired id back
		n := 0
		for q := range queues {
			msgs, err := env.Consensus.GetMessagesFromQueue(env.Ctx, queues[q], 0)
			if err != nil {
				panic(err)
			}
			for _, m := range msgs {
				n++
				found := false
				for _, a := range alive {
					if a.id == m.GetId() && a.q == q {
						found = true
					}
				}
				sym.Assert(found, "queues-hold-only-live-messages-under-their-own-ids")
			}
		}
		sym.Assert(n == len(alive), "every-id-is-in-exactly-one-queue")
	}
}

var VerifEntries = map[string]func(){
	"VerifC05_Ids":             VerifC05_Ids,
	"VerifC04_Election":        VerifC04_Election,
	"VerifC06_Rekey":           VerifC06_Rekey,
	"VerifC06_Signatures":      VerifC06_Signatures,
	"VerifC06_SignaturesThree": VerifC06_SignaturesThree,
	"VerifC06_Unsigned":        VerifC06_Unsigned,
	"VerifC14_Assign":          VerifC14_Assign,
	"VerifC14_Relay":           VerifC14_Relay,
	"VerifC14_Fees":            VerifC14_Fees,
	"VerifC09_ConsensusFees":   VerifC09_ConsensusFees,
	"VerifC09_Blocks":          VerifC09_Blocks,
	"VerifC09_SetChanges":      VerifC09_SetChanges,
	"VerifC09_ContractReceipt": VerifC09_ContractReceipt,
	"VerifC10_Sends":           VerifC10_Sends,
	"VerifC17_Jobs":            VerifC17_Jobs,
	"VerifC03_Treasury":        VerifC03_Treasury,
	"VerifC03_ValidatorKeyed":  VerifC03_ValidatorKeyed,
	"VerifC03_UserOwned":       VerifC03_UserOwned,
	"VerifC13_Prune":           VerifC13_Prune,
	"VerifC08_Twin":            VerifC08_Twin,
	"VerifC07_Attest":          VerifC07_Attest,
	"VerifC07_SingleUse":       VerifC07_SingleUse,
}
