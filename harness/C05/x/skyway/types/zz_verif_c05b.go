package types

import (
	"bytes"

	sdkmath "cosmossdk.io/math"
	sdk "github.com/cosmos/cosmos-sdk/types"
	"github.com/ethereum/go-ethereum/common"
	"github.com/palomachain/paloma/v2/zzverif/sym"
)

// C05 (bridge batches) — the batch checkpoint binds token, receivers, amounts,
// batch nonce, deployment id, deadline, relayer and gas estimate.

func c05bAddr(name string) common.Address { return common.BytesToAddress(sym.Bytes(name, 20)) }

func c05bEth(hex string) EthAddress {
	a, err := NewEthAddress(hex)
	if err != nil {
		panic(err)
	}
	return *a
}

func c05bBatch(nTx int) *InternalOutgoingTxBatch {
	b := &InternalOutgoingTxBatch{BatchNonce: 3, BatchTimeout: 5000, TokenContract: c05bEth("0x1111111111111111111111111111111111111111"),
		ChainReferenceID: "eth-main", AssigneeRemoteAddress: common.HexToAddress("0x5555555555555555555555555555555555555555"), GasEstimate: 21000}
	for i := 0; i < nTx; i++ {
		tok, _ := NewInternalERC20Token(sdkmath.NewInt(int64(100+i)), "0x1111111111111111111111111111111111111111", "eth-main")
		b.Transactions = append(b.Transactions, &InternalOutgoingTransferTx{Id: uint64(i + 1), Sender: sdk.AccAddress("user-a--------------"),
			DestAddress: ptrEth("0x9999999999999999999999999999999999999999"), Erc20Token: tok, BridgeTaxAmount: sdkmath.ZeroInt()})
	}
	return b
}

func ptrEth(hex string) *EthAddress { a := c05bEth(hex); return &a }

func c05bCp(b *InternalOutgoingTxBatch, turnstone string) []byte {
	cp, err := b.GetCheckpoint(turnstone)
	if err != nil {
		panic(err)
	}
	return cp
}

func VerifC05_Batch() {
	n := 1 + sym.Choice("transfers", 2)
	b1, b2 := c05bBatch(n), c05bBatch(n)
	t1, t2 := "compass-deployment-1", "compass-deployment-1"
	label := ""
	switch sym.Choice("field", 9) {
	case 0:
		b1.TokenContract, b2.TokenContract = EthAddress{c05bAddr("x")}, EthAddress{c05bAddr("y")}
		sym.Assume(b1.TokenContract.GetAddress() != b2.TokenContract.GetAddress())
		label = "batch-binds-token"
	case 1:
		i := sym.Choice("which", n)
		b1.Transactions[i].DestAddress, b2.Transactions[i].DestAddress = &EthAddress{c05bAddr("x")}, &EthAddress{c05bAddr("y")}
		sym.Assume(b1.Transactions[i].DestAddress.GetAddress() != b2.Transactions[i].DestAddress.GetAddress())
		label = "batch-binds-receiver"
	case 2:
		i := sym.Choice("which", n)
		x, y := sym.BigInt("x", 256), sym.BigInt("y", 256)
		sym.Assume(x.Cmp(y) != 0)
		b1.Transactions[i].Erc20Token.Amount, b2.Transactions[i].Erc20Token.Amount = sdkmath.NewIntFromBigInt(x), sdkmath.NewIntFromBigInt(y)
		label = "batch-binds-amount"
	case 3:
		b1.BatchNonce, b2.BatchNonce = sym.Uint64("x"), sym.Uint64("y")
		sym.Assume(b1.BatchNonce != b2.BatchNonce)
		label = "batch-binds-nonce"
	case 4:
		t1, t2 = string(sym.Bytes("x", 32)), string(sym.Bytes("y", 32))
		sym.Assume(t1 != t2)
		label = "batch-binds-deployment-id"
	case 5:
		b1.BatchTimeout, b2.BatchTimeout = sym.Uint64("x"), sym.Uint64("y")
		sym.Assume(b1.BatchTimeout != b2.BatchTimeout)
		label = "batch-binds-deadline"
	case 6:
		b1.AssigneeRemoteAddress, b2.AssigneeRemoteAddress = c05bAddr("x"), c05bAddr("y")
		sym.Assume(b1.AssigneeRemoteAddress != b2.AssigneeRemoteAddress)
		label = "batch-binds-relayer"
	case 7:
		b1.GasEstimate, b2.GasEstimate = sym.Uint64Range("x", 1, 1<<63), sym.Uint64Range("y", 1, 1<<63)
		sym.Assume(b1.GasEstimate != b2.GasEstimate)
		label = "batch-binds-elected-gas-estimate"
	case 8:
		b2 = c05bBatch(n + 1)
		label = "batch-binds-transfer-count"
	}
	sym.Reach("reach-" + label)
	sym.Assert(!bytes.Equal(c05bCp(b1, t1), c05bCp(b2, t2)), label)
}

var VerifEntries = map[string]func(){
	"VerifC05_Batch": VerifC05_Batch,
}
