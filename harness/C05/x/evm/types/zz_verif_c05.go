package types

import (
	"bytes"

	"github.com/ethereum/go-ethereum/common"
	consensustypes "github.com/palomachain/paloma/v2/x/consensus/types"
	"github.com/palomachain/paloma/v2/zzverif/sym"
)

// C05 — the bytes validators sign depend on every value the remote bridge
// contract is handed. For each action type two messages that agree on
// everything except ONE delivered field (chosen symbolically, values
// arbitrary and different) must have different signing bytes. Paloma's own
// conversions before packing (big.NewInt(int64(x)), HexToAddress, copy into
// bytes32, zero padding) are executed, not assumed.

func c05Addr(name string) string { return common.BytesToAddress(sym.Bytes(name, 20)).Hex() }

func c05Sign(m *Message, id, estimate uint64) []byte {
	b, err := m.Keccak256WithSignedMessage(&consensustypes.QueuedSignedMessage{Id: id, GasEstimate: estimate})
	if err != nil {
		panic(err)
	}
	return b
}

func c05Check(a, b []byte, label string) {
	sym.Reach("reach-" + label)
	sym.Assert(!bytes.Equal(a, b), label)
}

func c05Base(action isMessage_Action) *Message {
	return &Message{TurnstoneID: "compass-deployment-1", ChainReferenceID: "eth-main", Action: action,
		CompassAddr: "0x3333333333333333333333333333333333333333", Assignee: "palomavaloper1x", AssigneeRemoteAddress: "0x5555555555555555555555555555555555555555"}
}

func c05TurnstoneID(name string) string { return string(sym.Bytes(name, 32)) }

// VerifC05_LogicCall: logic_call((address,bytes),(fees…,payer),id,turnstone,deadline,relayer)
func VerifC05_LogicCall() {
	mk := func() (*Message, *SubmitLogicCall) {
		a := &SubmitLogicCall{HexContractAddress: "0x6666666666666666666666666666666666666666", Payload: []byte{1, 2, 3, 4}, Deadline: 1000,
			SenderAddress: []byte("sender-address-20byt"), Fees: &Fees{RelayerFee: 1, CommunityFee: 2, SecurityFee: 3}}
		return c05Base(&Message_SubmitLogicCall{SubmitLogicCall: a}), a
	}
	m1, a1 := mk()
	m2, a2 := mk()
	id1, id2 := uint64(9), uint64(9)
	switch sym.Choice("field", 11) {
	case 0:
		a1.HexContractAddress, a2.HexContractAddress = c05Addr("x"), c05Addr("y")
		sym.Assume(a1.HexContractAddress != a2.HexContractAddress)
		c05Check(c05Sign(m1, id1, 0), c05Sign(m2, id2, 0), "logic-call-binds-target-contract")
	case 1:
		n := 1 + sym.Choice("payload-len", 3)
		a1.Payload, a2.Payload = sym.Bytes("x", n), sym.Bytes("y", n)
		sym.Assume(!bytes.Equal(a1.Payload, a2.Payload))
		c05Check(c05Sign(m1, id1, 0), c05Sign(m2, id2, 0), "logic-call-binds-payload")
	case 2:
		a1.Payload, a2.Payload = sym.Bytes("x", 2), sym.Bytes("y", 3) // different lengths
		c05Check(c05Sign(m1, id1, 0), c05Sign(m2, id2, 0), "logic-call-binds-payload-length")
	case 3:
		a1.Fees.RelayerFee, a2.Fees.RelayerFee = sym.Uint64("x"), sym.Uint64("y")
		sym.Assume(a1.Fees.RelayerFee != a2.Fees.RelayerFee)
		c05Check(c05Sign(m1, id1, 0), c05Sign(m2, id2, 0), "logic-call-binds-relayer-fee")
	case 4:
		a1.Fees.CommunityFee, a2.Fees.CommunityFee = sym.Uint64("x"), sym.Uint64("y")
		sym.Assume(a1.Fees.CommunityFee != a2.Fees.CommunityFee)
		c05Check(c05Sign(m1, id1, 0), c05Sign(m2, id2, 0), "logic-call-binds-community-fee")
	case 5:
		a1.Fees.SecurityFee, a2.Fees.SecurityFee = sym.Uint64("x"), sym.Uint64("y")
		sym.Assume(a1.Fees.SecurityFee != a2.Fees.SecurityFee)
		c05Check(c05Sign(m1, id1, 0), c05Sign(m2, id2, 0), "logic-call-binds-security-fee")
	case 6:
		payerLen := []int{20, 32}[sym.Choice("fee-payer-length", 2)] // account addresses are 20 bytes, contract / module-derived ones 32
		a1.SenderAddress, a2.SenderAddress = sym.Bytes("x", payerLen), sym.Bytes("y", payerLen)
		sym.Assume(!bytes.Equal(a1.SenderAddress, a2.SenderAddress))
		c05Check(c05Sign(m1, id1, 0), c05Sign(m2, id2, 0), "logic-call-binds-fee-payer")
	case 7:
		id1, id2 = sym.Uint64("x"), sym.Uint64("y")
		sym.Assume(id1 != id2)
		c05Check(c05Sign(m1, id1, 0), c05Sign(m2, id2, 0), "logic-call-binds-message-id")
	case 8:
		m1.TurnstoneID, m2.TurnstoneID = c05TurnstoneID("x"), c05TurnstoneID("y")
		sym.Assume(m1.TurnstoneID != m2.TurnstoneID)
		c05Check(c05Sign(m1, id1, 0), c05Sign(m2, id2, 0), "logic-call-binds-deployment-id")
	case 9:
		a1.Deadline, a2.Deadline = sym.Int64("x"), sym.Int64("y")
		sym.Assume(a1.Deadline != a2.Deadline)
		c05Check(c05Sign(m1, id1, 0), c05Sign(m2, id2, 0), "logic-call-binds-deadline")
	case 10:
		m1.AssigneeRemoteAddress, m2.AssigneeRemoteAddress = c05Addr("x"), c05Addr("y")
		sym.Assume(m1.AssigneeRemoteAddress != m2.AssigneeRemoteAddress)
		c05Check(c05Sign(m1, id1, 0), c05Sign(m2, id2, 0), "logic-call-binds-relayer")
	}
}

// VerifC05_UpdateValset: update_valset(checkpoint(addresses,powers,id,turnstone),relayer,estimate)
func VerifC05_UpdateValset() {
	mk := func() (*Message, *Valset) {
		v := &Valset{Validators: []string{"0x7777777777777777777777777777777777777777", "0x8888888888888888888888888888888888888888"}, Powers: []uint64{10, 20}, ValsetID: 5}
		return c05Base(&Message_UpdateValset{UpdateValset: &UpdateValset{Valset: v}}), v
	}
	m1, v1 := mk()
	m2, v2 := mk()
	e1, e2 := uint64(500), uint64(500)
	switch sym.Choice("field", 7) {
	case 0:
		i := sym.Choice("member", 2)
		v1.Validators[i], v2.Validators[i] = c05Addr("x"), c05Addr("y")
		sym.Assume(v1.Validators[i] != v2.Validators[i])
		c05Check(c05Sign(m1, 1, e1), c05Sign(m2, 1, e2), "valset-binds-member-address")
	case 1:
		i := sym.Choice("member", 2)
		v1.Powers[i], v2.Powers[i] = sym.Uint64("x"), sym.Uint64("y")
		sym.Assume(v1.Powers[i] != v2.Powers[i])
		c05Check(c05Sign(m1, 1, e1), c05Sign(m2, 1, e2), "valset-binds-member-power")
	case 2:
		v1.ValsetID, v2.ValsetID = sym.Uint64("x"), sym.Uint64("y")
		sym.Assume(v1.ValsetID != v2.ValsetID)
		c05Check(c05Sign(m1, 1, e1), c05Sign(m2, 1, e2), "valset-binds-valset-id")
	case 3:
		m1.TurnstoneID, m2.TurnstoneID = c05TurnstoneID("x"), c05TurnstoneID("y")
		sym.Assume(m1.TurnstoneID != m2.TurnstoneID)
		c05Check(c05Sign(m1, 1, e1), c05Sign(m2, 1, e2), "valset-binds-deployment-id")
	case 4:
		m1.AssigneeRemoteAddress, m2.AssigneeRemoteAddress = c05Addr("x"), c05Addr("y")
		sym.Assume(m1.AssigneeRemoteAddress != m2.AssigneeRemoteAddress)
		c05Check(c05Sign(m1, 1, e1), c05Sign(m2, 1, e2), "valset-binds-relayer")
	case 5:
		e1, e2 = sym.Uint64Range("x", 1, 1<<63), sym.Uint64Range("y", 1, 1<<63)
		sym.Assume(e1 != e2)
		c05Check(c05Sign(m1, 1, e1), c05Sign(m2, 1, e2), "valset-binds-elected-gas-estimate")
	case 6: // one more member
		v2.Validators = append(v2.Validators, "0x9999999999999999999999999999999999999999")
		v2.Powers = append(v2.Powers, sym.Uint64("p"))
		c05Check(c05Sign(m1, 1, e1), c05Sign(m2, 1, e2), "valset-binds-member-count")
	}
}

// VerifC05_Handover: compass_update_batch((address,bytes)[],deadline,relayer,estimate)
func VerifC05_Handover() {
	mk := func() (*Message, *CompassHandover) {
		h := &CompassHandover{ForwardCallArgs: []CompassHandover_ForwardCallArgs{{HexContractAddress: "0x6666666666666666666666666666666666666666", Payload: []byte{1, 2}}}, Deadline: 77, Id: 3}
		return c05Base(&Message_CompassHandover{CompassHandover: h}), h
	}
	m1, h1 := mk()
	m2, h2 := mk()
	e1, e2 := uint64(500), uint64(500)
	switch sym.Choice("field", 5) {
	case 0:
		h1.ForwardCallArgs[0].HexContractAddress, h2.ForwardCallArgs[0].HexContractAddress = c05Addr("x"), c05Addr("y")
		sym.Assume(h1.ForwardCallArgs[0].HexContractAddress != h2.ForwardCallArgs[0].HexContractAddress)
		c05Check(c05Sign(m1, 1, e1), c05Sign(m2, 1, e2), "handover-binds-forward-call-target")
	case 1:
		h1.ForwardCallArgs[0].Payload, h2.ForwardCallArgs[0].Payload = sym.Bytes("x", 2), sym.Bytes("y", 2)
		sym.Assume(!bytes.Equal(h1.ForwardCallArgs[0].Payload, h2.ForwardCallArgs[0].Payload))
		c05Check(c05Sign(m1, 1, e1), c05Sign(m2, 1, e2), "handover-binds-forward-call-payload")
	case 2:
		h1.Deadline, h2.Deadline = sym.Int64("x"), sym.Int64("y")
		sym.Assume(h1.Deadline != h2.Deadline)
		c05Check(c05Sign(m1, 1, e1), c05Sign(m2, 1, e2), "handover-binds-deadline")
	case 3:
		m1.AssigneeRemoteAddress, m2.AssigneeRemoteAddress = c05Addr("x"), c05Addr("y")
		sym.Assume(m1.AssigneeRemoteAddress != m2.AssigneeRemoteAddress)
		c05Check(c05Sign(m1, 1, e1), c05Sign(m2, 1, e2), "handover-binds-relayer")
	case 4:
		e1, e2 = sym.Uint64Range("x", 1, 1<<63), sym.Uint64Range("y", 1, 1<<63)
		sym.Assume(e1 != e2)
		c05Check(c05Sign(m1, 1, e1), c05Sign(m2, 1, e2), "handover-binds-elected-gas-estimate")
	}
}

// VerifC05_UserContract: deploy_contract(deployer,bytecode,fees,id,turnstone,deadline,relayer)
func VerifC05_UserContract() {
	mk := func() (*Message, *UploadUserSmartContract) {
		u := &UploadUserSmartContract{Bytecode: []byte{0x60, 0x80}, DeployerAddress: "0x6666666666666666666666666666666666666666", Deadline: 99,
			SenderAddress: []byte("sender-address-20byt"), Fees: &Fees{RelayerFee: 1, CommunityFee: 2, SecurityFee: 3}}
		return c05Base(&Message_UploadUserSmartContract{UploadUserSmartContract: u}), u
	}
	m1, u1 := mk()
	m2, u2 := mk()
	id1, id2 := uint64(4), uint64(4)
	switch sym.Choice("field", 7) {
	case 0:
		u1.DeployerAddress, u2.DeployerAddress = c05Addr("x"), c05Addr("y")
		sym.Assume(u1.DeployerAddress != u2.DeployerAddress)
		c05Check(c05Sign(m1, id1, 0), c05Sign(m2, id2, 0), "deploy-binds-deployer")
	case 1:
		u1.Bytecode, u2.Bytecode = sym.Bytes("x", 3), sym.Bytes("y", 3)
		sym.Assume(!bytes.Equal(u1.Bytecode, u2.Bytecode))
		c05Check(c05Sign(m1, id1, 0), c05Sign(m2, id2, 0), "deploy-binds-bytecode")
	case 2:
		u1.Fees.RelayerFee, u2.Fees.RelayerFee = sym.Uint64("x"), sym.Uint64("y")
		sym.Assume(u1.Fees.RelayerFee != u2.Fees.RelayerFee)
		c05Check(c05Sign(m1, id1, 0), c05Sign(m2, id2, 0), "deploy-binds-relayer-fee")
	case 3:
		id1, id2 = sym.Uint64("x"), sym.Uint64("y")
		sym.Assume(id1 != id2)
		c05Check(c05Sign(m1, id1, 0), c05Sign(m2, id2, 0), "deploy-binds-message-id")
	case 4:
		m1.TurnstoneID, m2.TurnstoneID = c05TurnstoneID("x"), c05TurnstoneID("y")
		sym.Assume(m1.TurnstoneID != m2.TurnstoneID)
		c05Check(c05Sign(m1, id1, 0), c05Sign(m2, id2, 0), "deploy-binds-deployment-id")
	case 5:
		u1.Deadline, u2.Deadline = sym.Int64("x"), sym.Int64("y")
		sym.Assume(u1.Deadline != u2.Deadline)
		c05Check(c05Sign(m1, id1, 0), c05Sign(m2, id2, 0), "deploy-binds-deadline")
	case 6:
		m1.AssigneeRemoteAddress, m2.AssigneeRemoteAddress = c05Addr("x"), c05Addr("y")
		sym.Assume(m1.AssigneeRemoteAddress != m2.AssigneeRemoteAddress)
		c05Check(c05Sign(m1, id1, 0), c05Sign(m2, id2, 0), "deploy-binds-relayer")
	}
}

// VerifC05_UploadContract: keccak(bytecode ‖ id)
func VerifC05_UploadContract() {
	mk := func() (*Message, *UploadSmartContract) {
		u := &UploadSmartContract{Bytecode: []byte{0x60, 0x80, 0x11}, Id: 2}
		return c05Base(&Message_UploadSmartContract{UploadSmartContract: u}), u
	}
	m1, u1 := mk()
	m2, u2 := mk()
	switch sym.Choice("field", 2) {
	case 0:
		u1.Bytecode, u2.Bytecode = sym.Bytes("x", 3), sym.Bytes("y", 3)
		sym.Assume(!bytes.Equal(u1.Bytecode, u2.Bytecode))
		c05Check(c05Sign(m1, 1, 0), c05Sign(m2, 1, 0), "upload-binds-bytecode")
	case 1:
		x, y := sym.Uint64("x"), sym.Uint64("y")
		sym.Assume(x != y)
		c05Check(c05Sign(m1, x, 0), c05Sign(m2, y, 0), "upload-binds-message-id")
	}
}

var VerifEntries = map[string]func(){
	"VerifC05_LogicCall":      VerifC05_LogicCall,
	"VerifC05_UpdateValset":   VerifC05_UpdateValset,
	"VerifC05_Handover":       VerifC05_Handover,
	"VerifC05_UserContract":   VerifC05_UserContract,
	"VerifC05_UploadContract": VerifC05_UploadContract,
}
