package keeper

import (
	"context"

	sdkmath "cosmossdk.io/math"
	storetypes "cosmossdk.io/store/types"
	"github.com/cosmos/cosmos-sdk/codec/address"
	codectypes "github.com/cosmos/cosmos-sdk/codec/types"
	"github.com/cosmos/cosmos-sdk/runtime"
	sdk "github.com/cosmos/cosmos-sdk/types"
	"github.com/palomachain/paloma/v2/x/valset/types"
	"github.com/palomachain/paloma/v2/zzverif/models"
)

// Shared wiring for valset keeper harnesses.

var VVals = []sdk.ValAddress{
	sdk.ValAddress("validator-0000000001"),
	sdk.ValAddress("validator-0000000002"),
	sdk.ValAddress("validator-0000000003"),
	sdk.ValAddress("validator-0000000004"),
}

// VEvm is the EvmKeeper fake: the set of active chains.
type VEvm struct {
	Active []string
}

func (e *VEvm) MissingChains(ctx context.Context, have []string) ([]string, error) {
	var missing []string
	for _, a := range e.Active {
		found := false
		for _, h := range have {
			if h == a {
				found = true
			}
		}
		if !found {
			missing = append(missing, a)
		}
	}
	return missing, nil
}

type VEnv struct {
	K        *Keeper
	Ctx      sdk.Context
	MS       *models.MultiStore
	Staking  *models.Staking
	Slashing *models.Slashing
	Evm      *VEvm
}

func NewVEnv(height int64) *VEnv {
	ctx, ms := models.NewContext(height)
	cdc := models.Codec(func(r codectypes.InterfaceRegistry) { types.RegisterInterfaces(r) })
	st := models.NewStaking()
	sl := &models.Slashing{Staking: st}
	k := NewKeeper(cdc, runtime.NewKVStoreService(storetypes.NewKVStoreKey(types.StoreKey)), models.Subspace(cdc, types.ModuleName),
		st, sl, sdkmath.NewInt(1_000_000), address.NewBech32Codec("palomavaloper"))
	evm := &VEvm{}
	k.EvmKeeper = evm
	return &VEnv{K: k, Ctx: ctx, MS: ms, Staking: st, Slashing: sl, Evm: evm}
}

// ChainInfo builds an external-chain account record for validator i on a chain.
func VChainInfo(i int, chain string) *types.ExternalChainInfo {
	return &types.ExternalChainInfo{
		ChainType:        "evm",
		ChainReferenceID: chain,
		Address:          models.EthAddrs[i],
		Pubkey:           []byte("pubkey-" + chain + "-" + string(rune('0'+i))),
	}
}

// GraceStart reads the stored grace-period start height of a validator.
func (e *VEnv) GraceStart(v sdk.ValAddress) (uint64, bool) {
	bz := e.K.gracePeriodStore(e.Ctx).Get(v)
	if bz == nil {
		return 0, false
	}
	return sdk.BigEndianToUint64(bz), true
}
