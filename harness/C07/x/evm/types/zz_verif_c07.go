package types

import (
	"bytes"
	"context"
	"errors"
	"math/big"

	"github.com/ethereum/go-ethereum/accounts/abi"
	"github.com/ethereum/go-ethereum/common"
	ethtypes "github.com/ethereum/go-ethereum/core/types"
	consensustypes "github.com/palomachain/paloma/v2/x/consensus/types"
	"github.com/palomachain/paloma/v2/zzverif/models"
	"github.com/palomachain/paloma/v2/zzverif/sym"
	"strings"
)

// C07 (call-data layer) — a remote transaction proves delivery of a queued
// message only if its call data is the bridge-contract encoding of exactly
// that message. The relayer's transaction is produced by an independent
// reference encoder from a DELIVERED item; the queued item differs from it in
// at most one field with arbitrary distinct values. VerifyAgainstTX must
// accept iff nothing differs and the relayer used a non-empty prefix of the
// collected signatures.

// C07CompassABI: constructor and the four relayed functions of the compass
// contract (x/evm/keeper/testdata/sample-abi.json, other entries removed).
const C07CompassABI = models.CompassABI

var c07Vals = []string{"0x7777777777777777777777777777777777777777", "0x8888888888888888888888888888888888888888", "0x9999999999999999999999999999999999999999"}

// c07Consensus is the reference (relayer side) consensus argument: one entry
// per valset member in valset order, zero signature for members that have not signed.
func c07Consensus(vs *Valset, sigs []*consensustypes.SignData) CompassConsensus {
	var c CompassConsensus
	c.Valset.ValsetId = new(big.Int).SetUint64(vs.ValsetID)
	for i, a := range vs.Validators {
		c.Valset.Validators = append(c.Valset.Validators, common.HexToAddress(a))
		c.Valset.Powers = append(c.Valset.Powers, new(big.Int).SetUint64(vs.Powers[i]))
		var found *consensustypes.SignData
		for _, s := range sigs {
			if s.ExternalAccountAddress == a {
				found = s
			}
		}
		if found == nil {
			c.Signatures = append(c.Signatures, Signature{V: big.NewInt(0), R: big.NewInt(0), S: big.NewInt(0)})
			continue
		}
		c.Signatures = append(c.Signatures, Signature{V: new(big.Int).SetUint64(uint64(found.Signature[64]) + 27),
			R: new(big.Int).SetBytes(found.Signature[:32]), S: new(big.Int).SetBytes(found.Signature[32:64])})
	}
	return c
}

func c07Pack(method string, args ...any) []byte {
	a, err := abi.JSON(strings.NewReader(C07CompassABI))
	if err != nil {
		panic(err)
	}
	b, err := a.Pack(method, args...)
	if err != nil {
		panic(err)
	}
	return b
}

func c07Pad32(b []byte) (out [32]byte) {
	copy(out[32-len(b):], b)
	return out
}

// delivered items as the relayer saw them
type c07Delivery struct {
	valset   *Valset
	sigs     []*consensustypes.SignData // the signatures the relayer included
	relayer  string
	id       uint64
	estimate uint64
}

func c07Addr(name string) string { return common.BytesToAddress(sym.Bytes(name, 20)).Hex() }

func c07Valset() *Valset {
	return &Valset{Validators: []string{c07Vals[0], c07Vals[1], c07Vals[2]}, Powers: []uint64{10, 20, 30}, ValsetID: 5}
}

// c07Sigs: k collected signatures (arbitrary bytes) by the first k members.
func c07Sigs(k int) []*consensustypes.SignData {
	var out []*consensustypes.SignData
	// signatures arrive in any order, not necessarily that of the valset
	order := []int{0, 1, 2}
	if k > 1 && sym.Bool("collected-out-of-valset-order") {
		order = []int{1, 0, 2}
	}
	for _, i := range order[:k] {
		sig := sym.Bytes("sig", 65)
		sym.Assume(sig[64] <= 1)
		out = append(out, &consensustypes.SignData{ValAddress: []byte{byte(i)}, Signature: sig, ExternalAccountAddress: c07Vals[i]})
	}
	return out
}

func c07Tx(data []byte) *ethtypes.Transaction { return models.EthTx(7, data) }

func c07Verdict(err error, same bool, label string) {
	if same {
		sym.Reach("reach-accepts-" + label)
		sym.Assert(err == nil, "matching-transaction-accepted-"+label)
	} else {
		sym.Reach("reach-rejects-" + label)
		sym.Assert(err != nil, "non-matching-transaction-rejected-"+label)
		sym.Assert(err == nil || errors.Is(err, ErrEthTxNotVerified), "mismatch-reported-as-not-verified-"+label)
	}
}

// c07Prefix chooses what the relayer included: a non-empty prefix of the k
// collected signatures (acceptable), or something else (not acceptable).
func c07Prefix(all []*consensustypes.SignData) ([]*consensustypes.SignData, bool) {
	k := len(all)
	switch sym.Choice("relayed-signatures", 4) {
	case 0: // all collected
		return all, true
	case 1: // a proper non-empty prefix: later signatures arrived after relaying
		if k < 2 {
			return all, true
		}
		return all[:1+sym.Choice("prefix", k-1)], true
	case 2: // not a prefix: the last signature only
		if k < 2 {
			return nil, false
		}
		return all[k-1:], false
	default: // none at all
		return nil, false
	}
}

func VerifC07_LogicCall() {
	mk := func() *SubmitLogicCall {
		return &SubmitLogicCall{HexContractAddress: "0x6666666666666666666666666666666666666666", Payload: []byte{1, 2, 3, 4}, Deadline: 1000,
			SenderAddress: []byte("sender-address-20byt"), Fees: &Fees{RelayerFee: 1, CommunityFee: 2, SecurityFee: 3}}
	}
	queued, delivered := mk(), mk()
	k := 1 + sym.Choice("collected", 2)
	all := c07Sigs(k)
	qv, dv := c07Valset(), c07Valset()
	q := c07Delivery{valset: qv, relayer: "0x5555555555555555555555555555555555555555", id: 9}
	d := c07Delivery{valset: dv, relayer: "0x5555555555555555555555555555555555555555", id: 9}
	same := true
	var okPrefix bool
	label := "logic-call"
	switch sym.Choice("field", 12) {
	case 0:
		d.sigs, okPrefix = c07Prefix(all)
		same = okPrefix
		label += "-signature-prefix"
	case 1:
		queued.HexContractAddress, delivered.HexContractAddress = c07Addr("x"), c07Addr("y")
		same = queued.HexContractAddress == delivered.HexContractAddress
		label += "-target-contract"
	case 2:
		n := 1 + sym.Choice("payload-len", 3)
		queued.Payload, delivered.Payload = sym.Bytes("x", n), sym.Bytes("y", n)
		same = bytes.Equal(queued.Payload, delivered.Payload)
		label += "-payload"
	case 3:
		queued.Payload, delivered.Payload = sym.Bytes("x", 2), sym.Bytes("y", 3)
		same = false
		label += "-payload-length"
	case 4:
		queued.Fees.RelayerFee, delivered.Fees.RelayerFee = sym.Uint64("x"), sym.Uint64("y")
		same = queued.Fees.RelayerFee == delivered.Fees.RelayerFee
		label += "-relayer-fee"
	case 5:
		queued.Fees.CommunityFee, delivered.Fees.CommunityFee = sym.Uint64("x"), sym.Uint64("y")
		same = queued.Fees.CommunityFee == delivered.Fees.CommunityFee
		label += "-community-fee"
	case 6:
		queued.Fees.SecurityFee, delivered.Fees.SecurityFee = sym.Uint64("x"), sym.Uint64("y")
		same = queued.Fees.SecurityFee == delivered.Fees.SecurityFee
		label += "-security-fee"
	case 7:
		payerLen := []int{20, 32}[sym.Choice("fee-payer-length", 2)] // account addresses are 20 bytes, contract / module-derived ones 32
		queued.SenderAddress, delivered.SenderAddress = sym.Bytes("x", payerLen), sym.Bytes("y", payerLen)
		same = bytes.Equal(queued.SenderAddress, delivered.SenderAddress)
		label += "-fee-payer"
	case 8:
		q.id, d.id = sym.Uint64Range("x", 0, 1<<62), sym.Uint64Range("y", 0, 1<<62)
		same = q.id == d.id
		label += "-message-id"
	case 9:
		queued.Deadline, delivered.Deadline = sym.Int64("x"), sym.Int64("y")
		sym.Assume(queued.Deadline >= 0 && delivered.Deadline >= 0)
		same = queued.Deadline == delivered.Deadline
		label += "-deadline"
	case 10:
		q.relayer, d.relayer = c07Addr("x"), c07Addr("y")
		same = q.relayer == d.relayer
		label += "-relayer"
	case 11:
		i := sym.Choice("member", 3)
		qv.Powers[i], dv.Powers[i] = sym.Uint64Range("x", 0, 1<<32), sym.Uint64Range("y", 0, 1<<32) // powers are projected onto 2^32 (C10)
		same = qv.Powers[i] == dv.Powers[i]
		label += "-signing-valset"
	}
	if d.sigs == nil && label != "logic-call-signature-prefix" {
		d.sigs = all
	}
	data := c07Pack("submit_logic_call", c07Consensus(d.valset, d.sigs),
		CompassLogicCallArgs{LogicContractAddress: common.HexToAddress(delivered.HexContractAddress), Payload: delivered.Payload},
		FeeArgs{RelayerFee: new(big.Int).SetUint64(delivered.Fees.RelayerFee), CommunityFee: new(big.Int).SetUint64(delivered.Fees.CommunityFee),
			SecurityFee: new(big.Int).SetUint64(delivered.Fees.SecurityFee), FeePayerPalomaAddress: c07Pad32(delivered.SenderAddress)},
		new(big.Int).SetUint64(d.id), big.NewInt(delivered.Deadline), common.HexToAddress(d.relayer))
	ctx, _ := models.NewContext(10)
	msg := &consensustypes.QueuedSignedMessage{Id: q.id, SignData: all}
	err := queued.VerifyAgainstTX(ctx, c07Tx(data), msg, q.valset, &SmartContract{AbiJSON: C07CompassABI}, q.relayer)
	c07Verdict(err, same, label)
}

// c07Common picks one of the fields shared by all signed actions (signature
// prefix, relayer, signing valset) or reports -1 for "an action field".
type c07Env struct {
	all     []*consensustypes.SignData
	q, d    c07Delivery
	same    bool
	label   string
	nCommon int
}

func c07Setup(label string, nAction int) (*c07Env, int) {
	k := 1 + sym.Choice("collected", 2)
	e := &c07Env{all: c07Sigs(k), same: true, label: label}
	e.q = c07Delivery{valset: c07Valset(), relayer: "0x5555555555555555555555555555555555555555", id: 9, estimate: 21000}
	e.d = c07Delivery{valset: c07Valset(), relayer: "0x5555555555555555555555555555555555555555", id: 9, estimate: 21000}
	e.d.sigs = e.all
	f := sym.Choice("field", nAction+4)
	switch f - nAction {
	case 0:
		var ok bool
		e.d.sigs, ok = c07Prefix(e.all)
		e.same = ok
		e.label += "-signature-prefix"
	case 1:
		e.q.relayer, e.d.relayer = c07Addr("x"), c07Addr("y")
		e.same = e.q.relayer == e.d.relayer
		e.label += "-relayer"
	case 2:
		i := sym.Choice("member", 3)
		e.q.valset.Powers[i], e.d.valset.Powers[i] = sym.Uint64Range("x", 0, 1<<32), sym.Uint64Range("y", 0, 1<<32)
		e.same = e.q.valset.Powers[i] == e.d.valset.Powers[i]
		e.label += "-signing-valset-power"
	case 3:
		e.q.valset.ValsetID, e.d.valset.ValsetID = sym.Uint64Range("x", 0, 1<<62), sym.Uint64Range("y", 0, 1<<62)
		e.same = e.q.valset.ValsetID == e.d.valset.ValsetID
		e.label += "-signing-valset-id"
	}
	if f < nAction {
		return e, f
	}
	return e, -1
}

func (e *c07Env) msg() *consensustypes.QueuedSignedMessage {
	return &consensustypes.QueuedSignedMessage{Id: e.q.id, SignData: e.all, GasEstimate: e.q.estimate}
}

func VerifC07_UpdateValset() {
	e, f := c07Setup("update-valset", 4)
	mk := func() *Valset {
		return &Valset{Validators: []string{"0xaAaAaAaaAaAaAaaAaAAAAAAAAaaaAaAaAaaAaaAa", "0xbBbBBBBbbBBBbbbBbbBbbbbBBbBbbbbBbBbbBBbB"}, Powers: []uint64{40, 60}, ValsetID: 6}
	}
	qn, dn := mk(), mk()
	switch f {
	case 0:
		i := sym.Choice("new-member", 2)
		qn.Validators[i], dn.Validators[i] = c07Addr("x"), c07Addr("y")
		e.same = qn.Validators[i] == dn.Validators[i]
		e.label += "-new-member-address"
	case 1:
		i := sym.Choice("new-member", 2)
		qn.Powers[i], dn.Powers[i] = sym.Uint64Range("x", 0, 1<<32), sym.Uint64Range("y", 0, 1<<32)
		e.same = qn.Powers[i] == dn.Powers[i]
		e.label += "-new-member-power"
	case 2:
		qn.ValsetID, dn.ValsetID = sym.Uint64Range("x", 0, 1<<62), sym.Uint64Range("y", 0, 1<<62)
		e.same = qn.ValsetID == dn.ValsetID
		e.label += "-new-valset-id"
	case 3:
		e.q.estimate, e.d.estimate = sym.Uint64("x"), sym.Uint64("y")
		e.same = e.q.estimate == e.d.estimate
		e.label += "-gas-estimate"
	}
	newValset := CompassValset{ValsetId: new(big.Int).SetUint64(dn.ValsetID)}
	for i, a := range dn.Validators {
		newValset.Validators = append(newValset.Validators, common.HexToAddress(a))
		newValset.Powers = append(newValset.Powers, new(big.Int).SetUint64(dn.Powers[i]))
	}
	data := c07Pack("update_valset", c07Consensus(e.d.valset, e.d.sigs), newValset, common.HexToAddress(e.d.relayer), new(big.Int).SetUint64(e.d.estimate))
	ctx, _ := models.NewContext(10)
	err := (&UpdateValset{Valset: qn}).VerifyAgainstTX(ctx, c07Tx(data), e.msg(), e.q.valset, &SmartContract{AbiJSON: C07CompassABI}, e.q.relayer)
	c07Verdict(err, e.same, e.label)
}

func VerifC07_Handover() {
	e, f := c07Setup("handover", 5)
	mk := func() *CompassHandover {
		return &CompassHandover{Deadline: 1000, ForwardCallArgs: []CompassHandover_ForwardCallArgs{
			{HexContractAddress: "0x6666666666666666666666666666666666666666", Payload: []byte{1, 2}},
			{HexContractAddress: "0x4444444444444444444444444444444444444444", Payload: []byte{3}}}}
	}
	qm, dm := mk(), mk()
	switch f {
	case 0:
		i := sym.Choice("call", 2)
		qm.ForwardCallArgs[i].HexContractAddress, dm.ForwardCallArgs[i].HexContractAddress = c07Addr("x"), c07Addr("y")
		e.same = qm.ForwardCallArgs[i].HexContractAddress == dm.ForwardCallArgs[i].HexContractAddress
		e.label += "-forward-call-target"
	case 1:
		i := sym.Choice("call", 2)
		n := 1 + sym.Choice("payload-len", 2)
		qm.ForwardCallArgs[i].Payload, dm.ForwardCallArgs[i].Payload = sym.Bytes("x", n), sym.Bytes("y", n)
		e.same = bytes.Equal(qm.ForwardCallArgs[i].Payload, dm.ForwardCallArgs[i].Payload)
		e.label += "-forward-call-payload"
	case 2:
		dm.ForwardCallArgs = dm.ForwardCallArgs[:1]
		e.same = false
		e.label += "-forward-call-count"
	case 3:
		qm.Deadline, dm.Deadline = sym.Int64("x"), sym.Int64("y")
		sym.Assume(qm.Deadline >= 0 && dm.Deadline >= 0)
		e.same = qm.Deadline == dm.Deadline
		e.label += "-deadline"
	case 4:
		e.q.estimate, e.d.estimate = sym.Uint64("x"), sym.Uint64("y")
		e.same = e.q.estimate == e.d.estimate
		e.label += "-gas-estimate"
	}
	var calls []CompassLogicCallArgs
	for _, a := range dm.ForwardCallArgs {
		calls = append(calls, CompassLogicCallArgs{LogicContractAddress: common.HexToAddress(a.HexContractAddress), Payload: a.Payload})
	}
	data := c07Pack("compass_update_batch", c07Consensus(e.d.valset, e.d.sigs), calls, big.NewInt(dm.Deadline), new(big.Int).SetUint64(e.d.estimate), common.HexToAddress(e.d.relayer))
	ctx, _ := models.NewContext(10)
	err := qm.VerifyAgainstTX(ctx, c07Tx(data), e.msg(), e.q.valset, &SmartContract{AbiJSON: C07CompassABI}, e.q.relayer)
	c07Verdict(err, e.same, e.label)
}

func VerifC07_UserContract() {
	e, f := c07Setup("deploy-contract", 9)
	mk := func() *UploadUserSmartContract {
		return &UploadUserSmartContract{Bytecode: []byte{0x60, 0x80}, DeployerAddress: "0x6666666666666666666666666666666666666666", Deadline: 1000,
			SenderAddress: []byte("sender-address-20byt"), Fees: &Fees{RelayerFee: 1, CommunityFee: 2, SecurityFee: 3}}
	}
	qm, dm := mk(), mk()
	switch f {
	case 0:
		qm.DeployerAddress, dm.DeployerAddress = c07Addr("x"), c07Addr("y")
		e.same = qm.DeployerAddress == dm.DeployerAddress
		e.label += "-deployer"
	case 1:
		n := 1 + sym.Choice("bytecode-len", 3)
		qm.Bytecode, dm.Bytecode = sym.Bytes("x", n), sym.Bytes("y", n)
		e.same = bytes.Equal(qm.Bytecode, dm.Bytecode)
		e.label += "-bytecode"
	case 2:
		qm.Bytecode, dm.Bytecode = sym.Bytes("x", 2), sym.Bytes("y", 3)
		e.same = false
		e.label += "-bytecode-length"
	case 3:
		qm.Fees.RelayerFee, dm.Fees.RelayerFee = sym.Uint64("x"), sym.Uint64("y")
		e.same = qm.Fees.RelayerFee == dm.Fees.RelayerFee
		e.label += "-relayer-fee"
	case 4:
		qm.Fees.CommunityFee, dm.Fees.CommunityFee = sym.Uint64("x"), sym.Uint64("y")
		e.same = qm.Fees.CommunityFee == dm.Fees.CommunityFee
		e.label += "-community-fee"
	case 5:
		qm.Fees.SecurityFee, dm.Fees.SecurityFee = sym.Uint64("x"), sym.Uint64("y")
		e.same = qm.Fees.SecurityFee == dm.Fees.SecurityFee
		e.label += "-security-fee"
	case 6:
		payerLen := []int{20, 32}[sym.Choice("fee-payer-length", 2)] // account addresses are 20 bytes, contract / module-derived ones 32
		qm.SenderAddress, dm.SenderAddress = sym.Bytes("x", payerLen), sym.Bytes("y", payerLen)
		e.same = bytes.Equal(qm.SenderAddress, dm.SenderAddress)
		e.label += "-fee-payer"
	case 7:
		e.q.id, e.d.id = sym.Uint64Range("x", 0, 1<<62), sym.Uint64Range("y", 0, 1<<62)
		e.same = e.q.id == e.d.id
		e.label += "-message-id"
	case 8:
		qm.Deadline, dm.Deadline = sym.Int64("x"), sym.Int64("y")
		sym.Assume(qm.Deadline >= 0 && dm.Deadline >= 0)
		e.same = qm.Deadline == dm.Deadline
		e.label += "-deadline"
	}
	data := c07Pack("deploy_contract", c07Consensus(e.d.valset, e.d.sigs), common.HexToAddress(dm.DeployerAddress), dm.Bytecode,
		FeeArgs{RelayerFee: new(big.Int).SetUint64(dm.Fees.RelayerFee), CommunityFee: new(big.Int).SetUint64(dm.Fees.CommunityFee),
			SecurityFee: new(big.Int).SetUint64(dm.Fees.SecurityFee), FeePayerPalomaAddress: c07Pad32(dm.SenderAddress)},
		new(big.Int).SetUint64(e.d.id), big.NewInt(dm.Deadline), common.HexToAddress(e.d.relayer))
	ctx, _ := models.NewContext(10)
	err := qm.VerifyAgainstTX(ctx, c07Tx(data), e.msg(), e.q.valset, &SmartContract{AbiJSON: C07CompassABI}, e.q.relayer)
	c07Verdict(err, e.same, e.label)
}

// VerifC07_UploadContract: compass deployment — call data is bytecode followed by the constructor input.
func VerifC07_UploadContract() {
	// canonical constructor input: bytes32 id, 2 uint256, empty valset tuple, fee manager
	input := func() []byte {
		a, err := abi.JSON(strings.NewReader(C07CompassABI))
		if err != nil {
			panic(err)
		}
		var id [32]byte
		copy(id[:], "compass-id")
		b, err := a.Pack("", id, big.NewInt(1), big.NewInt(2), CompassValset{Validators: []common.Address{}, Powers: []*big.Int{}, ValsetId: big.NewInt(0)}, common.HexToAddress("0x4444444444444444444444444444444444444444"))
		if err != nil {
			panic(err)
		}
		return b
	}()
	mk := func() *UploadSmartContract {
		return &UploadSmartContract{Bytecode: []byte{0x60, 0x80, 0x60}, Abi: C07CompassABI, ConstructorInput: input}
	}
	qm, dm := mk(), mk()
	same, label := true, "upload-contract"
	switch sym.Choice("field", 6) {
	case 4: // message without constructor input: the call data must be the bytecode and nothing else
		qm.ConstructorInput, dm.ConstructorInput = nil, sym.Bytes("extra", 1+sym.Choice("extra-len", 2))
		same = false
		label += "-no-constructor-input-trailing-bytes"
	case 5:
		qm.ConstructorInput, dm.ConstructorInput = nil, nil
		n := 1 + sym.Choice("bytecode-len", 3)
		qm.Bytecode, dm.Bytecode = sym.Bytes("x", n), sym.Bytes("y", n)
		same = bytes.Equal(qm.Bytecode, dm.Bytecode)
		label += "-no-constructor-input-bytecode"
	case 0:
		n := 1 + sym.Choice("bytecode-len", 3)
		qm.Bytecode, dm.Bytecode = sym.Bytes("x", n), sym.Bytes("y", n)
		same = bytes.Equal(qm.Bytecode, dm.Bytecode)
		label += "-bytecode"
	case 1:
		qm.Bytecode, dm.Bytecode = sym.Bytes("x", 2), sym.Bytes("y", 3)
		same = false
		label += "-bytecode-length"
	case 2: // the relayer deployed without the constructor input
		dm.ConstructorInput = nil
		same = false
		label += "-constructor-input-dropped"
	case 3: // arbitrary trailing bytes after the expected call data
		extra := sym.Bytes("extra", 1)
		dm.ConstructorInput = append(append([]byte{}, input...), extra...)
		same = false
		label += "-trailing-bytes"
	}
	data := append(append([]byte{}, dm.Bytecode...), dm.ConstructorInput...)
	ctx, _ := models.NewContext(10)
	err := qm.VerifyAgainstTX(ctx, c07Tx(data), nil, nil, nil, "")
	c07Verdict(err, same, label)
}

var _ = context.Background

var VerifEntries = map[string]func(){
	"VerifC07_LogicCall":      VerifC07_LogicCall,
	"VerifC07_UpdateValset":   VerifC07_UpdateValset,
	"VerifC07_Handover":       VerifC07_Handover,
	"VerifC07_UserContract":   VerifC07_UserContract,
	"VerifC07_UploadContract": VerifC07_UploadContract,
}
