// Package models holds the collaborator fakes used by verification harnesses.
// Everything here is plain Go: the gosym engine executes it from SSA exactly as
// it executes Paloma code, and the native replay runs the same source.
package models

import (
	"bytes"
	"io"

	"cosmossdk.io/log"
	storetypes "cosmossdk.io/store/types"
	cmtproto "github.com/cometbft/cometbft/proto/tendermint/types"
	sdk "github.com/cosmos/cosmos-sdk/types"
)

type kvPair struct {
	k, v []byte
}

// MemStore is an ordered in-memory KV store (sorted slice; keys compared bytewise).
type MemStore struct {
	pairs []kvPair
}

var _ storetypes.KVStore = (*MemStore)(nil)

func (s *MemStore) find(key []byte) (int, bool) {
	// linear scan keeps the number of symbolic comparisons proportional to the
	// store size (stores in harnesses hold a handful of keys)
	for i := range s.pairs {
		c := bytes.Compare(s.pairs[i].k, key)
		if c == 0 {
			return i, true
		}
		if c > 0 {
			return i, false
		}
	}
	return len(s.pairs), false
}

func cp(b []byte) []byte {
	if b == nil {
		return nil
	}
	out := make([]byte, len(b))
	copy(out, b)
	return out
}

func (s *MemStore) Get(key []byte) []byte {
	if len(key) == 0 {
		panic("key is nil or empty")
	}
	if i, ok := s.find(key); ok {
		return cp(s.pairs[i].v)
	}
	return nil
}

func (s *MemStore) Has(key []byte) bool {
	if len(key) == 0 {
		panic("key is nil or empty")
	}
	_, ok := s.find(key)
	return ok
}

func (s *MemStore) Set(key, value []byte) {
	if len(key) == 0 {
		panic("key is nil or empty")
	}
	if value == nil {
		panic("value is nil")
	}
	i, ok := s.find(key)
	if ok {
		s.pairs[i].v = cp(value)
		return
	}
	s.pairs = append(s.pairs, kvPair{})
	copy(s.pairs[i+1:], s.pairs[i:])
	s.pairs[i] = kvPair{k: cp(key), v: cp(value)}
}

func (s *MemStore) Delete(key []byte) {
	if len(key) == 0 {
		panic("key is nil or empty")
	}
	if i, ok := s.find(key); ok {
		s.pairs = append(s.pairs[:i:i], s.pairs[i+1:]...)
	}
}

func (s *MemStore) GetStoreType() storetypes.StoreType { return storetypes.StoreTypeMemory }
func (s *MemStore) CacheWrap() storetypes.CacheWrap   { panic("models.MemStore: CacheWrap not supported") }
func (s *MemStore) CacheWrapWithTrace(w io.Writer, tc storetypes.TraceContext) storetypes.CacheWrap {
	panic("models.MemStore: CacheWrapWithTrace not supported")
}

func (s *MemStore) snapshot(start, end []byte, reverse bool) *memIterator {
	it := &memIterator{start: start, end: end}
	for _, p := range s.pairs {
		if start != nil && bytes.Compare(p.k, start) < 0 {
			continue
		}
		if end != nil && bytes.Compare(p.k, end) >= 0 {
			continue
		}
		it.items = append(it.items, kvPair{k: cp(p.k), v: cp(p.v)})
	}
	if reverse {
		for i, j := 0, len(it.items)-1; i < j; i, j = i+1, j-1 {
			it.items[i], it.items[j] = it.items[j], it.items[i]
		}
	}
	return it
}

func (s *MemStore) Iterator(start, end []byte) storetypes.Iterator {
	return s.snapshot(start, end, false)
}

func (s *MemStore) ReverseIterator(start, end []byte) storetypes.Iterator {
	return s.snapshot(start, end, true)
}

// Len returns the number of keys (harness oracles).
func (s *MemStore) Len() int { return len(s.pairs) }

// Clone returns a deep copy.
func (s *MemStore) Clone() *MemStore {
	out := &MemStore{pairs: make([]kvPair, len(s.pairs))}
	for i, p := range s.pairs {
		out.pairs[i] = kvPair{k: cp(p.k), v: cp(p.v)}
	}
	return out
}

// Equal reports whether two stores hold the same keys and values.
func (s *MemStore) Equal(o *MemStore) bool {
	if len(s.pairs) != len(o.pairs) {
		return false
	}
	for i := range s.pairs {
		if !bytes.Equal(s.pairs[i].k, o.pairs[i].k) || !bytes.Equal(s.pairs[i].v, o.pairs[i].v) {
			return false
		}
	}
	return true
}

// memIterator iterates over a snapshot taken at creation.
type memIterator struct {
	items      []kvPair
	pos        int
	start, end []byte
}

func (it *memIterator) Domain() ([]byte, []byte) { return it.start, it.end }
func (it *memIterator) Valid() bool              { return it.pos < len(it.items) }
func (it *memIterator) Next() {
	if !it.Valid() {
		panic("iterator is invalid")
	}
	it.pos++
}
func (it *memIterator) Key() []byte {
	if !it.Valid() {
		panic("iterator is invalid")
	}
	return it.items[it.pos].k
}
func (it *memIterator) Value() []byte {
	if !it.Valid() {
		panic("iterator is invalid")
	}
	return it.items[it.pos].v
}
func (it *memIterator) Error() error { return nil }
func (it *memIterator) Close() error { return nil }

// MultiStore maps store-key names to MemStores. CacheMultiStore copies all
// stores; Write copies them back into the parent (isolation until Write — the
// contract the SDK documents for cache-wrapped stores).
type MultiStore struct {
	names  []string
	stores []*MemStore
	parent *MultiStore
}

var (
	_ storetypes.MultiStore      = (*MultiStore)(nil)
	_ storetypes.CacheMultiStore = (*MultiStore)(nil)
)

func NewMultiStore() *MultiStore { return &MultiStore{} }

func (m *MultiStore) store(name string) *MemStore {
	for i, n := range m.names {
		if n == name {
			return m.stores[i]
		}
	}
	s := &MemStore{}
	m.names = append(m.names, name)
	m.stores = append(m.stores, s)
	return s
}

// Store returns the MemStore registered under name (created on first use).
func (m *MultiStore) Store(name string) *MemStore { return m.store(name) }

func (m *MultiStore) GetStoreType() storetypes.StoreType { return storetypes.StoreTypeMulti }
func (m *MultiStore) CacheWrap() storetypes.CacheWrap   { return m.CacheMultiStore().(storetypes.CacheWrap) }
func (m *MultiStore) CacheWrapWithTrace(w io.Writer, tc storetypes.TraceContext) storetypes.CacheWrap {
	return m.CacheWrap()
}

func (m *MultiStore) CacheMultiStore() storetypes.CacheMultiStore {
	c := &MultiStore{parent: m}
	for i, n := range m.names {
		c.names = append(c.names, n)
		c.stores = append(c.stores, m.stores[i].Clone())
	}
	return c
}

func (m *MultiStore) CacheMultiStoreWithVersion(version int64) (storetypes.CacheMultiStore, error) {
	panic("models.MultiStore: versions not supported")
}

func (m *MultiStore) GetStore(key storetypes.StoreKey) storetypes.Store {
	return m.store(key.Name())
}

func (m *MultiStore) GetKVStore(key storetypes.StoreKey) storetypes.KVStore {
	return m.store(key.Name())
}

func (m *MultiStore) TracingEnabled() bool                                     { return false }
func (m *MultiStore) SetTracer(w io.Writer) storetypes.MultiStore              { return m }
func (m *MultiStore) SetTracingContext(storetypes.TraceContext) storetypes.MultiStore { return m }
func (m *MultiStore) LatestVersion() int64                                     { return 0 }

// Write copies every store of this cache layer into its parent.
func (m *MultiStore) Write() {
	if m.parent == nil {
		panic("models.MultiStore: Write on a root store")
	}
	for i, n := range m.names {
		dst := m.parent.store(n)
		dst.pairs = m.stores[i].Clone().pairs
	}
}

// Clone deep-copies the multistore (harness oracles: "state unchanged").
func (m *MultiStore) Clone() *MultiStore {
	c := &MultiStore{parent: m.parent}
	for i, n := range m.names {
		c.names = append(c.names, n)
		c.stores = append(c.stores, m.stores[i].Clone())
	}
	return c
}

// Equal compares two multistores store by store (missing store = empty store).
func (m *MultiStore) Equal(o *MultiStore) bool {
	for i, n := range m.names {
		if !m.stores[i].Equal(o.store(n)) {
			return false
		}
	}
	for i, n := range o.names {
		if !o.stores[i].Equal(m.store(n)) {
			return false
		}
	}
	return true
}

// NewContext builds an sdk.Context over a fresh MultiStore.
func NewContext(height int64) (sdk.Context, *MultiStore) {
	ms := NewMultiStore()
	ctx := sdk.NewContext(ms, cmtproto.Header{Height: height, ChainID: "verif-chain"}, false, log.NewNopLogger())
	return ctx, ms
}
