// Package models holds the collaborator fakes used by verification harnesses.
// Everything here is plain Go: the gosym engine executes it from SSA exactly as
// it executes Paloma code, and the native replay runs the same source.
package models

import (
	"bytes"
	"io"
	"time"

	"cosmossdk.io/log"
	storetypes "cosmossdk.io/store/types"
	cmtproto "github.com/cometbft/cometbft/proto/tendermint/types"
	sdk "github.com/cosmos/cosmos-sdk/types"
)

type kvPair struct {
	k, v []byte
	del  bool // tombstone (cache layers only)
}

// MemStore is an ordered in-memory KV store (sorted slice; keys compared
// bytewise). With a parent it is a cache layer in the sense of the SDK's
// cachekv store: it records only the keys written or deleted through it, reads
// fall through to the (live) parent, and Write flushes the recorded keys.
type MemStore struct {
	pairs  []kvPair
	parent *MemStore
}

var _ storetypes.KVStore = (*MemStore)(nil)

func (s *MemStore) find(key []byte) (int, bool) {
	// linear scan keeps the number of symbolic comparisons proportional to the
	// store size (stores in harnesses hold a handful of keys)
	for i := range s.pairs {
		c := bytes.Compare(s.pairs[i].k, key)
		if c == 0 {
			return i, true
		}
		if c > 0 {
			return i, false
		}
	}
	return len(s.pairs), false
}

func cp(b []byte) []byte {
	if b == nil {
		return nil
	}
	out := make([]byte, len(b))
	copy(out, b)
	return out
}

func (s *MemStore) Get(key []byte) []byte {
	if len(key) == 0 {
		panic("key is nil or empty")
	}
	if i, ok := s.find(key); ok {
		if s.pairs[i].del {
			return nil
		}
		return cp(s.pairs[i].v)
	}
	if s.parent != nil {
		return s.parent.Get(key)
	}
	return nil
}

func (s *MemStore) Has(key []byte) bool {
	if len(key) == 0 {
		panic("key is nil or empty")
	}
	if i, ok := s.find(key); ok {
		return !s.pairs[i].del
	}
	if s.parent != nil {
		return s.parent.Has(key)
	}
	return false
}

func (s *MemStore) put(key []byte, p kvPair) {
	i, ok := s.find(key)
	if ok {
		s.pairs[i] = p
		return
	}
	s.pairs = append(s.pairs, kvPair{})
	copy(s.pairs[i+1:], s.pairs[i:])
	s.pairs[i] = p
}

func (s *MemStore) Set(key, value []byte) {
	if len(key) == 0 {
		panic("key is nil or empty")
	}
	if value == nil {
		panic("value is nil")
	}
	s.put(key, kvPair{k: cp(key), v: cp(value)})
}

func (s *MemStore) Delete(key []byte) {
	if len(key) == 0 {
		panic("key is nil or empty")
	}
	if s.parent != nil {
		s.put(key, kvPair{k: cp(key), del: true})
		return
	}
	if i, ok := s.find(key); ok {
		s.pairs = append(s.pairs[:i:i], s.pairs[i+1:]...)
	}
}

func (s *MemStore) GetStoreType() storetypes.StoreType { return storetypes.StoreTypeMemory }
func (s *MemStore) CacheWrap() storetypes.CacheWrap {
	panic("models.MemStore: CacheWrap not supported")
}
func (s *MemStore) CacheWrapWithTrace(w io.Writer, tc storetypes.TraceContext) storetypes.CacheWrap {
	panic("models.MemStore: CacheWrapWithTrace not supported")
}

// items returns the visible key/value pairs in [start,end), ascending.
func (s *MemStore) items(start, end []byte) []kvPair {
	inRange := func(k []byte) bool {
		if start != nil && bytes.Compare(k, start) < 0 {
			return false
		}
		if end != nil && bytes.Compare(k, end) >= 0 {
			return false
		}
		return true
	}
	var own []kvPair
	for _, p := range s.pairs {
		if inRange(p.k) {
			own = append(own, p)
		}
	}
	if s.parent == nil {
		out := make([]kvPair, 0, len(own))
		for _, p := range own {
			out = append(out, kvPair{k: cp(p.k), v: cp(p.v)})
		}
		return out
	}
	base := s.parent.items(start, end)
	// merge: own entries override / hide parent entries
	var out []kvPair
	i, j := 0, 0
	for i < len(base) || j < len(own) {
		switch {
		case j >= len(own):
			out = append(out, base[i])
			i++
		case i >= len(base):
			if !own[j].del {
				out = append(out, kvPair{k: cp(own[j].k), v: cp(own[j].v)})
			}
			j++
		default:
			c := bytes.Compare(base[i].k, own[j].k)
			if c < 0 {
				out = append(out, base[i])
				i++
			} else if c > 0 {
				if !own[j].del {
					out = append(out, kvPair{k: cp(own[j].k), v: cp(own[j].v)})
				}
				j++
			} else {
				if !own[j].del {
					out = append(out, kvPair{k: cp(own[j].k), v: cp(own[j].v)})
				}
				i++
				j++
			}
		}
	}
	return out
}

func (s *MemStore) snapshot(start, end []byte, reverse bool) *memIterator {
	it := &memIterator{start: start, end: end, items: s.items(start, end)}
	if reverse {
		for i, j := 0, len(it.items)-1; i < j; i, j = i+1, j-1 {
			it.items[i], it.items[j] = it.items[j], it.items[i]
		}
	}
	return it
}

func (s *MemStore) Iterator(start, end []byte) storetypes.Iterator {
	return s.snapshot(start, end, false)
}

func (s *MemStore) ReverseIterator(start, end []byte) storetypes.Iterator {
	return s.snapshot(start, end, true)
}

// flush applies the recorded writes of a cache layer to its parent.
func (s *MemStore) flush() {
	for _, p := range s.pairs {
		if p.del {
			s.parent.Delete(p.k)
		} else {
			s.parent.Set(p.k, p.v)
		}
	}
	s.pairs = nil
}

// Len returns the number of visible keys (harness oracles).
func (s *MemStore) Len() int { return len(s.items(nil, nil)) }

// Clone returns a flattened deep copy (no parent).
func (s *MemStore) Clone() *MemStore {
	return &MemStore{pairs: s.items(nil, nil)}
}

// Equal reports whether two stores show the same keys and values.
func (s *MemStore) Equal(o *MemStore) bool {
	a, b := s.items(nil, nil), o.items(nil, nil)
	if len(a) != len(b) {
		return false
	}
	for i := range a {
		if !bytes.Equal(a[i].k, b[i].k) || !bytes.Equal(a[i].v, b[i].v) {
			return false
		}
	}
	return true
}

// memIterator iterates over a snapshot taken at creation.
type memIterator struct {
	items      []kvPair
	pos        int
	start, end []byte
}

func (it *memIterator) Domain() ([]byte, []byte) { return it.start, it.end }
func (it *memIterator) Valid() bool              { return it.pos < len(it.items) }
func (it *memIterator) Next() {
	if !it.Valid() {
		panic("iterator is invalid")
	}
	it.pos++
}
func (it *memIterator) Key() []byte {
	if !it.Valid() {
		panic("iterator is invalid")
	}
	return it.items[it.pos].k
}
func (it *memIterator) Value() []byte {
	if !it.Valid() {
		panic("iterator is invalid")
	}
	return it.items[it.pos].v
}
func (it *memIterator) Error() error { return nil }
func (it *memIterator) Close() error { return nil }

// MultiStore maps store-key names to MemStores. CacheMultiStore layers a
// cache store over every store of the parent; Write flushes the keys written
// through the cache (isolation until Write — the contract the SDK documents
// for cache-wrapped stores).
type MultiStore struct {
	names  []string
	stores []*MemStore
	parent *MultiStore
}

var (
	_ storetypes.MultiStore      = (*MultiStore)(nil)
	_ storetypes.CacheMultiStore = (*MultiStore)(nil)
)

func NewMultiStore() *MultiStore { return &MultiStore{} }

func (m *MultiStore) store(name string) *MemStore {
	for i, n := range m.names {
		if n == name {
			return m.stores[i]
		}
	}
	s := &MemStore{}
	if m.parent != nil {
		s.parent = m.parent.store(name)
	}
	m.names = append(m.names, name)
	m.stores = append(m.stores, s)
	return s
}

// Store returns the MemStore registered under name (created on first use).
func (m *MultiStore) Store(name string) *MemStore { return m.store(name) }

func (m *MultiStore) GetStoreType() storetypes.StoreType { return storetypes.StoreTypeMulti }
func (m *MultiStore) CacheWrap() storetypes.CacheWrap {
	return m.CacheMultiStore().(storetypes.CacheWrap)
}
func (m *MultiStore) CacheWrapWithTrace(w io.Writer, tc storetypes.TraceContext) storetypes.CacheWrap {
	return m.CacheWrap()
}

func (m *MultiStore) CacheMultiStore() storetypes.CacheMultiStore {
	c := &MultiStore{parent: m}
	for i, n := range m.names {
		c.names = append(c.names, n)
		c.stores = append(c.stores, &MemStore{parent: m.stores[i]})
	}
	return c
}

func (m *MultiStore) CacheMultiStoreWithVersion(version int64) (storetypes.CacheMultiStore, error) {
	panic("models.MultiStore: versions not supported")
}

func (m *MultiStore) GetStore(key storetypes.StoreKey) storetypes.Store {
	return m.store(key.Name())
}

func (m *MultiStore) GetKVStore(key storetypes.StoreKey) storetypes.KVStore {
	return m.store(key.Name())
}

func (m *MultiStore) TracingEnabled() bool                                            { return false }
func (m *MultiStore) SetTracer(w io.Writer) storetypes.MultiStore                     { return m }
func (m *MultiStore) SetTracingContext(storetypes.TraceContext) storetypes.MultiStore { return m }
func (m *MultiStore) LatestVersion() int64                                            { return 0 }

// Write copies every store of this cache layer into its parent.
func (m *MultiStore) Write() {
	if m.parent == nil {
		panic("models.MultiStore: Write on a root store")
	}
	for i := range m.names {
		m.stores[i].flush()
	}
}

// Clone deep-copies the visible contents of the multistore into a root store
// (harness oracles: "state unchanged").
func (m *MultiStore) Clone() *MultiStore {
	c := &MultiStore{}
	for i, n := range m.names {
		c.names = append(c.names, n)
		c.stores = append(c.stores, m.stores[i].Clone())
	}
	return c
}

// Equal compares two multistores store by store (missing store = empty store).
func (m *MultiStore) Equal(o *MultiStore) bool {
	for i, n := range m.names {
		if !m.stores[i].Equal(o.store(n)) {
			return false
		}
	}
	for i, n := range o.names {
		if !o.stores[i].Equal(m.store(n)) {
			return false
		}
	}
	return true
}

// NewContext builds an sdk.Context over a fresh MultiStore.
func NewContext(height int64) (sdk.Context, *MultiStore) {
	ms := NewMultiStore()
	ctx := sdk.NewContext(ms, cmtproto.Header{Height: height, ChainID: "verif-chain", Time: time.Unix(1_700_000_000, 0)}, false, log.NewNopLogger())
	return ctx, ms
}
