package models

import (
	"github.com/cosmos/cosmos-sdk/codec"
	codectypes "github.com/cosmos/cosmos-sdk/codec/types"
)

// Codec is intercepted by the engine (returns the intrinsic ProtoCodec).
func Codec(reg ...func(codectypes.InterfaceRegistry)) codec.Codec {
	return &codec.ProtoCodec{}
}
