package models

import (
	"context"
	"errors"
	"time"

	sdkmath "cosmossdk.io/math"
	storetypes "cosmossdk.io/store/types"
	codectypes "github.com/cosmos/cosmos-sdk/codec/types"
	"github.com/cosmos/cosmos-sdk/crypto/keys/ed25519"
	sdk "github.com/cosmos/cosmos-sdk/types"
	slashingtypes "github.com/cosmos/cosmos-sdk/x/slashing/types"
	stakingtypes "github.com/cosmos/cosmos-sdk/x/staking/types"

	"github.com/palomachain/paloma/v2/zzverif/sym"
)

// Staking is a fake x/staking keeper: a fixed list of validators with status,
// jailed flag, tokens and last-block power, plus a recorded list of Jail/Slash
// calls. Fallible calls consult a symbolic fault flag when Faults is set.
type StakingVal struct {
	Addr    sdk.ValAddress
	Status  stakingtypes.BondStatus
	Jailed  bool
	Tokens  sdkmath.Int
	Power   int64 // last validator power
	Missed  int64 // missed blocks counter (slashing signing info)
	ConsKey []byte
}

type Staking struct {
	Vals       []*StakingVal
	TotalPower sdkmath.Int
	Faults     bool
	JailCalls  []string
	SlashCalls []string
}

func NewStaking() *Staking { return &Staking{TotalPower: sdkmath.ZeroInt()} }

func (s *Staking) Add(addr sdk.ValAddress, status stakingtypes.BondStatus, jailed bool, tokens sdkmath.Int, power int64) *StakingVal {
	v := &StakingVal{Addr: addr, Status: status, Jailed: jailed, Tokens: tokens, Power: power}
	s.Vals = append(s.Vals, v)
	return v
}

func (s *Staking) find(addr sdk.ValAddress) *StakingVal {
	for _, v := range s.Vals {
		if v.Addr.Equals(addr) {
			return v
		}
	}
	return nil
}

func (s *Staking) Find(addr sdk.ValAddress) *StakingVal { return s.find(addr) }

func (s *Staking) fault(label string) bool { return s.Faults && sym.Fault(label) }

// ConsPubKey returns the validator's (fixed, derived) consensus public key.
func (v *StakingVal) ConsPubKey() *ed25519.PubKey {
	key := make([]byte, 32)
	copy(key, v.Addr)
	return &ed25519.PubKey{Key: key}
}

// ConsAddr returns the consensus address derived from ConsPubKey.
func (v *StakingVal) ConsAddr() sdk.ConsAddress { return sdk.ConsAddress(v.ConsPubKey().Address()) }

func (s *Staking) toSDK(v *StakingVal) stakingtypes.Validator {
	pkAny, err := codectypes.NewAnyWithValue(v.ConsPubKey())
	if err != nil {
		panic(err)
	}
	return stakingtypes.Validator{
		ConsensusPubkey:   pkAny,
		OperatorAddress:   v.Addr.String(),
		Jailed:            v.Jailed,
		Status:            v.Status,
		Tokens:            v.Tokens,
		DelegatorShares:   sdkmath.LegacyZeroDec(),
		MinSelfDelegation: sdkmath.ZeroInt(),
	}
}

func (s *Staking) GetValidator(ctx context.Context, addr sdk.ValAddress) (stakingtypes.Validator, error) {
	if s.fault("staking.GetValidator") {
		return stakingtypes.Validator{}, ErrInjected
	}
	v := s.find(addr)
	if v == nil {
		return stakingtypes.Validator{}, stakingtypes.ErrNoValidatorFound
	}
	return s.toSDK(v), nil
}

func (s *Staking) Validator(ctx context.Context, addr sdk.ValAddress) (stakingtypes.ValidatorI, error) {
	v := s.find(addr)
	if v == nil {
		return nil, stakingtypes.ErrNoValidatorFound
	}
	return s.toSDK(v), nil
}

func (s *Staking) ValidatorByConsAddr(ctx context.Context, cons sdk.ConsAddress) (stakingtypes.ValidatorI, error) {
	for _, v := range s.Vals {
		if v.ConsAddr().Equals(cons) {
			return s.toSDK(v), nil
		}
	}
	return nil, stakingtypes.ErrNoValidatorFound
}

func (s *Staking) GetLastValidatorPower(ctx context.Context, operator sdk.ValAddress) (int64, error) {
	if s.fault("staking.GetLastValidatorPower") {
		return 0, ErrInjected
	}
	v := s.find(operator)
	if v == nil {
		return 0, nil
	}
	return v.Power, nil
}

func (s *Staking) GetLastTotalPower(ctx context.Context) (sdkmath.Int, error) {
	if s.fault("staking.GetLastTotalPower") {
		return sdkmath.ZeroInt(), ErrInjected
	}
	return s.TotalPower, nil
}

func (s *Staking) iterate(fn func(index int64, validator stakingtypes.ValidatorI) (stop bool), bondedOnly bool) error {
	i := int64(0)
	for _, v := range s.Vals {
		if bondedOnly && v.Status != stakingtypes.Bonded {
			continue
		}
		if fn(i, s.toSDK(v)) {
			break
		}
		i++
	}
	return nil
}

func (s *Staking) IterateValidators(ctx context.Context, fn func(index int64, validator stakingtypes.ValidatorI) (stop bool)) error {
	return s.iterate(fn, false)
}

func (s *Staking) IterateBondedValidatorsByPower(ctx context.Context, fn func(index int64, validator stakingtypes.ValidatorI) (stop bool)) error {
	return s.iterate(fn, true)
}

func (s *Staking) IterateLastValidators(ctx context.Context, fn func(index int64, validator stakingtypes.ValidatorI) (stop bool)) error {
	return s.iterate(fn, true)
}

func (s *Staking) GetBondedValidatorsByPower(ctx context.Context) ([]stakingtypes.Validator, error) {
	var out []stakingtypes.Validator
	for _, v := range s.Vals {
		if v.Status == stakingtypes.Bonded {
			out = append(out, s.toSDK(v))
		}
	}
	return out, nil
}

func (s *Staking) ValidatorQueueIterator(ctx context.Context, endTime time.Time, endHeight int64) (storetypes.Iterator, error) {
	return nil, errors.New("models.Staking: ValidatorQueueIterator not modelled")
}

func (s *Staking) GetParams(ctx context.Context) (stakingtypes.Params, error) {
	return stakingtypes.Params{BondDenom: "ugrain", MaxValidators: 100}, nil
}

func (s *Staking) Slash(ctx context.Context, consAddr sdk.ConsAddress, infractionHeight, power int64, slashFactor sdkmath.LegacyDec) (sdkmath.Int, error) {
	s.SlashCalls = append(s.SlashCalls, string(consAddr))
	return sdkmath.ZeroInt(), nil
}

func (s *Staking) Jail(ctx context.Context, consAddr sdk.ConsAddress) error {
	if s.fault("staking.Jail") {
		return ErrInjected
	}
	s.JailCalls = append(s.JailCalls, string(consAddr))
	for _, v := range s.Vals {
		if v.ConsAddr().Equals(consAddr) {
			v.Jailed = true
		}
	}
	return nil
}

// Slashing is a fake x/slashing keeper recording jail requests and applying
// them to the staking fake (Jail sets the jailed flag, as the real module does
// through the staking keeper).
type Slashing struct {
	Staking    *Staking
	Faults     bool
	JailCalls  []string
	UntilCalls []time.Time
}

func (s *Slashing) Jail(ctx context.Context, cons sdk.ConsAddress) error {
	if s.Faults && sym.Fault("slashing.Jail") {
		return ErrInjected
	}
	s.JailCalls = append(s.JailCalls, string(cons))
	for _, v := range s.Staking.Vals {
		if v.ConsAddr().Equals(cons) {
			v.Jailed = true
		}
	}
	return nil
}

func (s *Slashing) JailUntil(ctx context.Context, cons sdk.ConsAddress, t time.Time) error {
	if s.Faults && sym.Fault("slashing.JailUntil") {
		return ErrInjected
	}
	s.UntilCalls = append(s.UntilCalls, t)
	return nil
}

func (s *Staking) GetValidatorByConsAddr(ctx context.Context, cons sdk.ConsAddress) (stakingtypes.Validator, error) {
	for _, v := range s.Vals {
		if v.ConsAddr().Equals(cons) {
			return s.toSDK(v), nil
		}
	}
	return stakingtypes.Validator{}, stakingtypes.ErrNoValidatorFound
}

// SignedBlocksWindow / IterateValidatorSigningInfos: x/slashing queries used by metrix.
func (s *Slashing) SignedBlocksWindow(ctx context.Context) (int64, error) { return 100, nil }

func (s *Slashing) IterateValidatorSigningInfos(ctx context.Context, fn func(sdk.ConsAddress, slashingtypes.ValidatorSigningInfo) (stop bool)) error {
	for _, v := range s.Staking.Vals {
		if fn(v.ConsAddr(), slashingtypes.ValidatorSigningInfo{Address: v.ConsAddr().String(), MissedBlocksCounter: v.Missed}) {
			break
		}
	}
	return nil
}
