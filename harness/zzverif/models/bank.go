package models

import (
	"bytes"
	"context"
	"errors"
	authtypes "github.com/cosmos/cosmos-sdk/x/auth/types"
	"math/big"

	sdkmath "cosmossdk.io/math"
	storetypes "cosmossdk.io/store/types"
	sdk "github.com/cosmos/cosmos-sdk/types"
	banktypes "github.com/cosmos/cosmos-sdk/x/bank/types"

	"github.com/palomachain/paloma/v2/zzverif/sym"
)

// Bank is a fake x/bank keeper honouring the documented contract: a send fails
// on insufficient funds and otherwise moves exactly the amount; mint/burn move
// the supply. All balances live in the context's multistore (store
// "verif-bank"), so cached contexts isolate and revert bank effects exactly as
// they do for the real bank module. With Faults set, every fallible call first
// consults a fresh symbolic fault flag and, when raised, fails without effect.
type Bank struct {
	root   *MultiStore
	meta   map[string]banktypes.Metadata
	Faults bool
	Calls  []string
}

var ErrInjected = errors.New("injected collaborator failure")

var bankKey = storetypes.NewKVStoreKey("verif-bank")

// denom metadata flags live in their own store so balance snapshots ignore them
var bankMetaKey = storetypes.NewKVStoreKey("verif-bank-meta")

func NewBank(root *MultiStore) *Bank {
	return &Bank{root: root, meta: map[string]banktypes.Metadata{}}
}

func accKey(addr sdk.AccAddress, denom string) []byte {
	return []byte("a/" + string(addr) + "/" + denom)
}
func modKey(name, denom string) []byte { return []byte("m/" + name + "/" + denom) }
func supKey(denom string) []byte       { return []byte("s/" + denom) }
func metaKey(denom string) []byte      { return []byte("d/" + denom) }

func (b *Bank) st(ctx context.Context) storetypes.KVStore {
	if ctx == nil {
		return b.root.Store(bankKey.Name())
	}
	return sdk.UnwrapSDKContext(ctx).MultiStore().GetKVStore(bankKey)
}

func (b *Bank) mst(ctx context.Context) storetypes.KVStore {
	if ctx == nil {
		return b.root.Store(bankMetaKey.Name())
	}
	return sdk.UnwrapSDKContext(ctx).MultiStore().GetKVStore(bankMetaKey)
}

func getInt(st storetypes.KVStore, k []byte) sdkmath.Int {
	bz := st.Get(k)
	if bz == nil {
		return sdkmath.ZeroInt()
	}
	return sdkmath.NewIntFromBigInt(new(big.Int).SetBytes(bz))
}

func setInt(st storetypes.KVStore, k []byte, v sdkmath.Int) {
	st.Set(k, v.BigInt().FillBytes(make([]byte, 40)))
}

func (b *Bank) fault(label string) bool {
	b.Calls = append(b.Calls, label)
	return b.Faults && sym.Fault(label)
}

// Pre-state builders and oracle accessors (committed state of the root store).
func (b *Bank) SetBalance(addr sdk.AccAddress, denom string, v sdkmath.Int) {
	setInt(b.st(nil), accKey(addr, denom), v)
}
func (b *Bank) SetModuleBalance(name, denom string, v sdkmath.Int) {
	setInt(b.st(nil), modKey(name, denom), v)
}
func (b *Bank) SetSupply(denom string, v sdkmath.Int) { setInt(b.st(nil), supKey(denom), v) }
func (b *Bank) Balance(addr sdk.AccAddress, denom string) sdkmath.Int {
	return getInt(b.st(nil), accKey(addr, denom))
}
func (b *Bank) ModuleBalance(name, denom string) sdkmath.Int {
	return getInt(b.st(nil), modKey(name, denom))
}
func (b *Bank) Supply(denom string) sdkmath.Int { return getInt(b.st(nil), supKey(denom)) }
func (b *Bank) SetMeta(denom string) {
	b.meta[denom] = banktypes.Metadata{Base: denom}
	b.mst(nil).Set(metaKey(denom), []byte{1})
}

func (b *Bank) move(ctx context.Context, from, to func(denom string) []byte, amt sdk.Coins) error {
	st := b.st(ctx)
	// validate first so a failing send has no partial effect (bank sends are atomic)
	for _, c := range amt {
		if c.Amount.IsNil() || c.Amount.IsNegative() {
			return errors.New("invalid coins")
		}
		if getInt(st, from(c.Denom)).LT(c.Amount) {
			return errors.New("insufficient funds")
		}
	}
	for _, c := range amt {
		setInt(st, from(c.Denom), getInt(st, from(c.Denom)).Sub(c.Amount))
		setInt(st, to(c.Denom), getInt(st, to(c.Denom)).Add(c.Amount))
	}
	return nil
}

func (b *Bank) GetSupply(ctx context.Context, denom string) sdk.Coin {
	return sdk.Coin{Denom: denom, Amount: getInt(b.st(ctx), supKey(denom))}
}

func (b *Bank) SendCoinsFromModuleToAccount(ctx context.Context, senderModule string, recipientAddr sdk.AccAddress, amt sdk.Coins) error {
	if b.fault("bank.SendCoinsFromModuleToAccount") {
		return ErrInjected
	}
	return b.move(ctx, func(d string) []byte { return modKey(senderModule, d) }, func(d string) []byte { return accKey(recipientAddr, d) }, amt)
}

func (b *Bank) SendCoinsFromAccountToModule(ctx context.Context, senderAddr sdk.AccAddress, recipientModule string, amt sdk.Coins) error {
	if b.fault("bank.SendCoinsFromAccountToModule") {
		return ErrInjected
	}
	return b.move(ctx, func(d string) []byte { return accKey(senderAddr, d) }, func(d string) []byte { return modKey(recipientModule, d) }, amt)
}

func (b *Bank) SendCoinsFromModuleToModule(ctx context.Context, senderModule, recipientModule string, amt sdk.Coins) error {
	if b.fault("bank.SendCoinsFromModuleToModule") {
		return ErrInjected
	}
	return b.move(ctx, func(d string) []byte { return modKey(senderModule, d) }, func(d string) []byte { return modKey(recipientModule, d) }, amt)
}

func (b *Bank) SendCoins(ctx context.Context, from, to sdk.AccAddress, amt sdk.Coins) error {
	if b.fault("bank.SendCoins") {
		return ErrInjected
	}
	return b.move(ctx, func(d string) []byte { return accKey(from, d) }, func(d string) []byte { return accKey(to, d) }, amt)
}

func (b *Bank) MintCoins(ctx context.Context, name string, amt sdk.Coins) error {
	if b.fault("bank.MintCoins") {
		return ErrInjected
	}
	st := b.st(ctx)
	for _, c := range amt {
		if c.Amount.IsNil() || c.Amount.IsNegative() {
			return errors.New("invalid coins")
		}
	}
	for _, c := range amt {
		setInt(st, modKey(name, c.Denom), getInt(st, modKey(name, c.Denom)).Add(c.Amount))
		setInt(st, supKey(c.Denom), getInt(st, supKey(c.Denom)).Add(c.Amount))
	}
	return nil
}

func (b *Bank) BurnCoins(ctx context.Context, name string, amt sdk.Coins) error {
	if b.fault("bank.BurnCoins") {
		return ErrInjected
	}
	st := b.st(ctx)
	for _, c := range amt {
		if c.Amount.IsNil() || c.Amount.IsNegative() {
			return errors.New("invalid coins")
		}
		if getInt(st, modKey(name, c.Denom)).LT(c.Amount) {
			return errors.New("insufficient funds")
		}
	}
	for _, c := range amt {
		setInt(st, modKey(name, c.Denom), getInt(st, modKey(name, c.Denom)).Sub(c.Amount))
		setInt(st, supKey(c.Denom), getInt(st, supKey(c.Denom)).Sub(c.Amount))
	}
	return nil
}

func (b *Bank) GetAllBalances(ctx context.Context, addr sdk.AccAddress) sdk.Coins {
	panic("models.Bank: GetAllBalances not modelled")
}

func (b *Bank) GetDenomMetaData(ctx context.Context, denom string) (banktypes.Metadata, bool) {
	if !b.mst(ctx).Has(metaKey(denom)) {
		return banktypes.Metadata{}, false
	}
	m, ok := b.meta[denom]
	if !ok {
		m = banktypes.Metadata{Base: denom}
	}
	return m, true
}

func (b *Bank) SetDenomMetaData(ctx context.Context, m banktypes.Metadata) {
	b.meta[m.Base] = m
	b.mst(ctx).Set(metaKey(m.Base), []byte{1})
}

func (b *Bank) HasSupply(ctx context.Context, denom string) bool {
	return b.st(ctx).Has(supKey(denom))
}

// KnownModules are the module accounts whose address-based balance queries are
// answered from the module balance (the real bank keeps one balance per address).
var KnownModules = []string{"skyway", "distribution", "treasury", "tokenfactory", "paloma", "gov"}

func moduleOf(addr sdk.AccAddress) (string, bool) {
	for _, m := range KnownModules {
		if addr.Equals(authtypes.NewModuleAddress(m)) {
			return m, true
		}
	}
	return "", false
}

func (b *Bank) GetBalance(ctx context.Context, addr sdk.AccAddress, denom string) sdk.Coin {
	if m, ok := moduleOf(addr); ok {
		return sdk.Coin{Denom: denom, Amount: getInt(b.st(ctx), modKey(m, denom))}
	}
	return sdk.Coin{Denom: denom, Amount: getInt(b.st(ctx), accKey(addr, denom))}
}

func (b *Bank) IsSendEnabledCoins(ctx context.Context, coins ...sdk.Coin) error { return nil }

func (b *Bank) HasBalance(ctx context.Context, addr sdk.AccAddress, amt sdk.Coin) bool {
	return getInt(b.st(ctx), accKey(addr, amt.Denom)).GTE(amt.Amount)
}

func (b *Bank) SpendableCoins(ctx context.Context, addr sdk.AccAddress) sdk.Coins {
	panic("models.Bank: SpendableCoins not modelled")
}

// BankSnapshot is a copy of the committed bank store.
type BankSnapshot struct{ st *MemStore }

func (b *Bank) Snapshot() BankSnapshot { return BankSnapshot{st: b.root.Store(bankKey.Name()).Clone()} }

// Unchanged reports whether the committed bank state equals the snapshot.
// (An absent entry and an explicit zero are different keys; both sides are
// compared through the listed accessors by callers that need that nuance.)
func (b *Bank) Unchanged(s BankSnapshot) bool {
	cur := b.root.Store(bankKey.Name())
	ok := true
	// compare as maps with default zero
	for _, p := range cur.items(nil, nil) {
		old := s.st.Get(p.k)
		if old == nil {
			old = make([]byte, len(p.v))
		}
		ok = sym.And(ok, bytes.Equal(old, p.v))
	}
	for _, p := range s.st.items(nil, nil) {
		if !cur.Has(p.k) {
			ok = sym.And(ok, bytes.Equal(p.v, make([]byte, len(p.v))))
		}
	}
	return ok
}

// Restore resets the committed bank state to a snapshot.
func (b *Bank) Restore(s BankSnapshot) {
	b.root.Store(bankKey.Name()).pairs = s.st.Clone().pairs
}
