package models

import (
	"context"
	"errors"

	sdkmath "cosmossdk.io/math"
	sdk "github.com/cosmos/cosmos-sdk/types"
	banktypes "github.com/cosmos/cosmos-sdk/x/bank/types"

	"github.com/palomachain/paloma/v2/zzverif/sym"
)

// Bank is a fake x/bank keeper honouring the documented contract: a send fails
// on insufficient funds and otherwise moves exactly the amount; mint/burn move
// the supply. With Faults set, every fallible call first consults a fresh
// symbolic fault flag and, when it is raised, fails without any effect.
type Bank struct {
	bal    map[string]sdkmath.Int
	supply map[string]sdkmath.Int
	meta   map[string]banktypes.Metadata
	Faults bool
	Calls  []string
}

var ErrInjected = errors.New("injected collaborator failure")

func NewBank() *Bank {
	return &Bank{bal: map[string]sdkmath.Int{}, supply: map[string]sdkmath.Int{}, meta: map[string]banktypes.Metadata{}}
}

func accKey(addr sdk.AccAddress, denom string) string { return "a/" + string(addr) + "/" + denom }
func modKey(name, denom string) string              { return "m/" + name + "/" + denom }

func (b *Bank) get(k string) sdkmath.Int {
	if v, ok := b.bal[k]; ok {
		return v
	}
	return sdkmath.ZeroInt()
}

func (b *Bank) fault(label string) bool {
	b.Calls = append(b.Calls, label)
	return b.Faults && sym.Fault(label)
}

// SetBalance / SetModuleBalance / SetSupply build the pre-state.
func (b *Bank) SetBalance(addr sdk.AccAddress, denom string, v sdkmath.Int) { b.bal[accKey(addr, denom)] = v }
func (b *Bank) SetModuleBalance(name, denom string, v sdkmath.Int)         { b.bal[modKey(name, denom)] = v }
func (b *Bank) SetSupply(denom string, v sdkmath.Int)                      { b.supply[denom] = v }
func (b *Bank) Balance(addr sdk.AccAddress, denom string) sdkmath.Int      { return b.get(accKey(addr, denom)) }
func (b *Bank) ModuleBalance(name, denom string) sdkmath.Int               { return b.get(modKey(name, denom)) }
func (b *Bank) Supply(denom string) sdkmath.Int {
	if v, ok := b.supply[denom]; ok {
		return v
	}
	return sdkmath.ZeroInt()
}

func (b *Bank) move(from, to func(denom string) string, amt sdk.Coins) error {
	// validate first so a failing send has no partial effect (bank sends are atomic)
	for _, c := range amt {
		if c.Amount.IsNegative() {
			return errors.New("invalid coins")
		}
		if b.get(from(c.Denom)).LT(c.Amount) {
			return errors.New("insufficient funds")
		}
	}
	for _, c := range amt {
		b.bal[from(c.Denom)] = b.get(from(c.Denom)).Sub(c.Amount)
		b.bal[to(c.Denom)] = b.get(to(c.Denom)).Add(c.Amount)
	}
	return nil
}

func (b *Bank) GetSupply(ctx context.Context, denom string) sdk.Coin {
	return sdk.Coin{Denom: denom, Amount: b.Supply(denom)}
}

func (b *Bank) SendCoinsFromModuleToAccount(ctx context.Context, senderModule string, recipientAddr sdk.AccAddress, amt sdk.Coins) error {
	if b.fault("bank.SendCoinsFromModuleToAccount") {
		return ErrInjected
	}
	return b.move(func(d string) string { return modKey(senderModule, d) }, func(d string) string { return accKey(recipientAddr, d) }, amt)
}

func (b *Bank) SendCoinsFromAccountToModule(ctx context.Context, senderAddr sdk.AccAddress, recipientModule string, amt sdk.Coins) error {
	if b.fault("bank.SendCoinsFromAccountToModule") {
		return ErrInjected
	}
	return b.move(func(d string) string { return accKey(senderAddr, d) }, func(d string) string { return modKey(recipientModule, d) }, amt)
}

func (b *Bank) SendCoinsFromModuleToModule(ctx context.Context, senderModule, recipientModule string, amt sdk.Coins) error {
	if b.fault("bank.SendCoinsFromModuleToModule") {
		return ErrInjected
	}
	return b.move(func(d string) string { return modKey(senderModule, d) }, func(d string) string { return modKey(recipientModule, d) }, amt)
}

func (b *Bank) SendCoins(ctx context.Context, from, to sdk.AccAddress, amt sdk.Coins) error {
	if b.fault("bank.SendCoins") {
		return ErrInjected
	}
	return b.move(func(d string) string { return accKey(from, d) }, func(d string) string { return accKey(to, d) }, amt)
}

func (b *Bank) MintCoins(ctx context.Context, name string, amt sdk.Coins) error {
	if b.fault("bank.MintCoins") {
		return ErrInjected
	}
	for _, c := range amt {
		if c.Amount.IsNegative() {
			return errors.New("invalid coins")
		}
	}
	for _, c := range amt {
		b.bal[modKey(name, c.Denom)] = b.get(modKey(name, c.Denom)).Add(c.Amount)
		b.supply[c.Denom] = b.Supply(c.Denom).Add(c.Amount)
	}
	return nil
}

func (b *Bank) BurnCoins(ctx context.Context, name string, amt sdk.Coins) error {
	if b.fault("bank.BurnCoins") {
		return ErrInjected
	}
	for _, c := range amt {
		if c.Amount.IsNegative() {
			return errors.New("invalid coins")
		}
		if b.get(modKey(name, c.Denom)).LT(c.Amount) {
			return errors.New("insufficient funds")
		}
	}
	for _, c := range amt {
		b.bal[modKey(name, c.Denom)] = b.get(modKey(name, c.Denom)).Sub(c.Amount)
		b.supply[c.Denom] = b.Supply(c.Denom).Sub(c.Amount)
	}
	return nil
}

func (b *Bank) GetAllBalances(ctx context.Context, addr sdk.AccAddress) sdk.Coins {
	panic("models.Bank: GetAllBalances not modelled")
}

func (b *Bank) GetDenomMetaData(ctx context.Context, denom string) (banktypes.Metadata, bool) {
	m, ok := b.meta[denom]
	return m, ok
}

func (b *Bank) SetDenomMetaData(ctx context.Context, m banktypes.Metadata) { b.meta[m.Base] = m }

func (b *Bank) HasSupply(ctx context.Context, denom string) bool {
	_, ok := b.supply[denom]
	return ok
}

func (b *Bank) GetBalance(ctx context.Context, addr sdk.AccAddress, denom string) sdk.Coin {
	return sdk.Coin{Denom: denom, Amount: b.Balance(addr, denom)}
}

func (b *Bank) IsSendEnabledCoins(ctx context.Context, coins ...sdk.Coin) error { return nil }

// Snapshot copies balances and supply (math.Int values are immutable).
type BankSnapshot struct {
	bal, supply map[string]sdkmath.Int
}

func (b *Bank) Snapshot() BankSnapshot {
	s := BankSnapshot{bal: map[string]sdkmath.Int{}, supply: map[string]sdkmath.Int{}}
	for k, v := range b.bal {
		s.bal[k] = v
	}
	for k, v := range b.supply {
		s.supply[k] = v
	}
	return s
}

// Unchanged reports whether balances and supply equal the snapshot.
func (b *Bank) Unchanged(s BankSnapshot) bool {
	ok := true
	for k, v := range b.bal {
		old, found := s.bal[k]
		if !found {
			old = sdkmath.ZeroInt()
		}
		ok = sym.And(ok, v.Equal(old))
	}
	for k, v := range s.bal {
		if _, found := b.bal[k]; !found {
			ok = sym.And(ok, v.IsZero())
		}
	}
	for k, v := range b.supply {
		old, found := s.supply[k]
		if !found {
			old = sdkmath.ZeroInt()
		}
		ok = sym.And(ok, v.Equal(old))
	}
	return ok
}

func (b *Bank) HasBalance(ctx context.Context, addr sdk.AccAddress, amt sdk.Coin) bool {
	return b.Balance(addr, amt.Denom).GTE(amt.Amount)
}

func (b *Bank) SpendableCoins(ctx context.Context, addr sdk.AccAddress) sdk.Coins {
	panic("models.Bank: SpendableCoins not modelled")
}

// SetMeta registers bank metadata for a denom (pre-state).
func (b *Bank) SetMeta(denom string) { b.meta[denom] = banktypes.Metadata{Base: denom} }

// Restore resets balances and supply to a snapshot (a reverted transaction).
func (b *Bank) Restore(s BankSnapshot) {
	b.bal = map[string]sdkmath.Int{}
	b.supply = map[string]sdkmath.Int{}
	for k, v := range s.bal {
		b.bal[k] = v
	}
	for k, v := range s.supply {
		b.supply[k] = v
	}
}
