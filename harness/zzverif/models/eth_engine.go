package models

// SignDigest is intercepted by the engine.
func SignDigest(i int, digest []byte) []byte { panic("models.SignDigest: engine intrinsic") }
