package models

import (
	"encoding/hex"

	"github.com/ethereum/go-ethereum/crypto"
)

func init() {
	for i, k := range EthKeysHex {
		b, _ := hex.DecodeString(k)
		key, err := crypto.ToECDSA(b)
		if err != nil {
			panic(err)
		}
		if crypto.PubkeyToAddress(key.PublicKey).Hex() != EthAddrs[i] {
			panic("models: EthAddrs out of sync with EthKeysHex")
		}
	}
}

// SignDigest returns validator i's signature (r||s||v, 65 bytes) over a 32-byte
// digest. Natively this is a real secp256k1 signature; in the engine it is a
// fresh symbolic signature sigma with ecrecover(digest, sigma) = EthAddrs[i].
func SignDigest(i int, digest []byte) []byte {
	b, _ := hex.DecodeString(EthKeysHex[i])
	key, _ := crypto.ToECDSA(b)
	sig, err := crypto.Sign(digest, key)
	if err != nil {
		panic(err)
	}
	return sig
}
