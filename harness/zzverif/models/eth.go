package models

import (
	"math/big"

	ethtypes "github.com/ethereum/go-ethereum/core/types"
)

// Fixed external-chain (secp256k1) identities for the harness validators.
// EthAddrs[i] is the address of the key EthKeysHex[i] (checked natively).
var EthKeysHex = []string{
	"d79685c3f721bae101f0c75fc1e68da5f4958c2f911d84b81e811970ecc628c4",
	"74b54a3610ec064c7101791888709bca957045e4af48cb74b68c08f13ddac446",
	"304129df6bdf36034bccbea506dd5d8dd0ceda83c88869f21ef7b0d2fead1150",
	"37a59d9ea6b37ae4d5b27dec6c32e16875de31c52eaf8252e1cd278745fd2a7a",
	"09829b1c410382f777961f1accdb9f18fab5e3f3be6407afd4963a1b57185d47",
	"94f12e08d44a637c4a255871d54f4563c9daaa6e0c5bf0d0d689334fea359842",
}

var EthAddrs = []string{
	"0x708658D98346cAf7714aCad4CdCD6541bbA0C27F",
	"0x07A6b95457d3115346A512b7458D6C43dBB7B39B",
	"0x507f2C23277B725D3A63b52c958f55A500A3397A",
	"0x23A7289eC2E06c8AD1fFFBe88718644fF6CB94a0",
	"0xc9E69270D0CEDA79379eBF46432D19B26bCD4b12",
	"0x7999aa37a5F49A0dd8Bc557E46285EaB08877119",
}

// EthTx builds a remote-chain transaction carrying the given call data; the
// nonce distinguishes otherwise identical transactions (different hash).
func EthTx(nonce uint64, data []byte) *ethtypes.Transaction {
	return ethtypes.NewTx(&ethtypes.LegacyTx{Nonce: nonce, Data: data, Gas: 21000, GasPrice: big.NewInt(1), Value: big.NewInt(0)})
}

// EthReceipt builds a receipt with the given status for a legacy transaction.
func EthReceipt(status uint64) *ethtypes.Receipt {
	return &ethtypes.Receipt{Type: ethtypes.LegacyTxType, Status: status, CumulativeGasUsed: 21000, Logs: []*ethtypes.Log{}}
}
