package models

import (
	"context"

	"cosmossdk.io/core/address"
	storetypes "cosmossdk.io/store/types"
	"cosmossdk.io/x/feegrant"
	"github.com/cosmos/cosmos-sdk/codec"
	addresscodec "github.com/cosmos/cosmos-sdk/codec/address"
	sdk "github.com/cosmos/cosmos-sdk/types"
	authtypes "github.com/cosmos/cosmos-sdk/x/auth/types"
)

// Accounts is a fake x/auth account keeper whose accounts live in the context's
// multistore (store "verif-acc"), encoded with the codec as interface values.
type Accounts struct {
	root    *MultiStore
	cdc     codec.BinaryCodec
	nextNum uint64
}

var accStoreKey = storetypes.NewKVStoreKey("verif-acc")

func NewAccounts(root *MultiStore, cdc codec.BinaryCodec) *Accounts {
	return &Accounts{root: root, cdc: cdc}
}

func (a *Accounts) st(ctx context.Context) storetypes.KVStore {
	if ctx == nil {
		return a.root.Store(accStoreKey.Name())
	}
	return sdk.UnwrapSDKContext(ctx).MultiStore().GetKVStore(accStoreKey)
}

func (a *Accounts) AddressCodec() address.Codec { return addresscodec.NewBech32Codec("paloma") }

func (a *Accounts) HasAccount(ctx context.Context, addr sdk.AccAddress) bool {
	return a.st(ctx).Has(addr)
}

func (a *Accounts) GetAccount(ctx context.Context, addr sdk.AccAddress) sdk.AccountI {
	bz := a.st(ctx).Get(addr)
	if bz == nil {
		return nil
	}
	var acc sdk.AccountI
	if err := a.cdc.UnmarshalInterface(bz, &acc); err != nil {
		panic(err)
	}
	return acc
}

func (a *Accounts) NewAccount(ctx context.Context, acc sdk.AccountI) sdk.AccountI {
	a.nextNum++
	if err := acc.SetAccountNumber(a.nextNum); err != nil {
		panic(err)
	}
	return acc
}

func (a *Accounts) SetAccount(ctx context.Context, acc sdk.AccountI) {
	bz, err := a.cdc.MarshalInterface(acc)
	if err != nil {
		panic(err)
	}
	a.st(ctx).Set(acc.GetAddress(), bz)
}

func (a *Accounts) NewAccountWithAddress(ctx context.Context, addr sdk.AccAddress) sdk.AccountI {
	return a.NewAccount(ctx, authtypes.NewBaseAccountWithAddress(addr))
}

// Committed-state accessors for oracles.
func (a *Accounts) Has(addr sdk.AccAddress) bool         { return a.HasAccount(nil, addr) }
func (a *Accounts) Get(addr sdk.AccAddress) sdk.AccountI { return a.GetAccount(nil, addr) }

// Feegrant is a fake x/feegrant keeper: grants are flags in store "verif-feegrant".
type Feegrant struct {
	root *MultiStore
}

var feegrantKey = storetypes.NewKVStoreKey("verif-feegrant")

func NewFeegrant(root *MultiStore) *Feegrant { return &Feegrant{root: root} }

func (f *Feegrant) st(ctx context.Context) storetypes.KVStore {
	if ctx == nil {
		return f.root.Store(feegrantKey.Name())
	}
	return sdk.UnwrapSDKContext(ctx).MultiStore().GetKVStore(feegrantKey)
}

func grantKey(granter, grantee sdk.AccAddress) []byte {
	return []byte(string(granter) + "|" + string(grantee))
}

func (f *Feegrant) GrantAllowance(ctx context.Context, granter, grantee sdk.AccAddress, allowance feegrant.FeeAllowanceI) error {
	f.st(ctx).Set(grantKey(granter, grantee), []byte{1})
	return nil
}

// SetGrant builds the pre-state.
func (f *Feegrant) SetGrant(granter, grantee sdk.AccAddress) {
	f.st(nil).Set(grantKey(granter, grantee), []byte{1})
}

func (f *Feegrant) HasGrant(granter, grantee sdk.AccAddress) bool {
	return f.st(nil).Has(grantKey(granter, grantee))
}

// AllowancesByGranter lists the grantees of a granter among the given candidates
// (the ante decorator only looks at Grantee fields).
func (f *Feegrant) AllowancesByGranter(ctx context.Context, req *feegrant.QueryAllowancesByGranterRequest) (*feegrant.QueryAllowancesByGranterResponse, error) {
	granter, err := sdk.AccAddressFromBech32(req.Granter)
	if err != nil {
		return nil, err
	}
	res := &feegrant.QueryAllowancesByGranterResponse{}
	it := f.st(ctx).Iterator(nil, nil)
	defer it.Close()
	prefix := string(granter) + "|"
	for ; it.Valid(); it.Next() {
		k := string(it.Key())
		if len(k) > len(prefix) && k[:len(prefix)] == prefix {
			res.Allowances = append(res.Allowances, &feegrant.Grant{Granter: req.Granter, Grantee: sdk.AccAddress(k[len(prefix):]).String()})
		}
	}
	return res, nil
}
