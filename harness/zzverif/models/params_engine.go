package models

import (
	"github.com/cosmos/cosmos-sdk/codec"
	paramtypes "github.com/cosmos/cosmos-sdk/x/params/types"
)

// Subspace is intercepted by the engine.
func Subspace(cdc codec.BinaryCodec, name string) paramtypes.Subspace { return paramtypes.Subspace{} }
