package models

import (
	storetypes "cosmossdk.io/store/types"
	"github.com/cosmos/cosmos-sdk/codec"
	paramtypes "github.com/cosmos/cosmos-sdk/x/params/types"
)

// Subspace returns an x/params subspace. Natively it is the real one bound to
// store keys served by the harness MultiStore; in the engine the Subspace
// methods are intrinsics (a param set is kept as a snapshot per subspace name).
func Subspace(cdc codec.BinaryCodec, name string) paramtypes.Subspace {
	amino := codec.NewLegacyAmino()
	return paramtypes.NewSubspace(cdc, amino, storetypes.NewKVStoreKey("params"), storetypes.NewTransientStoreKey("transient_params"), name)
}
