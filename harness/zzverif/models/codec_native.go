package models

import (
	"github.com/cosmos/cosmos-sdk/codec"
	codectypes "github.com/cosmos/cosmos-sdk/codec/types"
	cryptocodec "github.com/cosmos/cosmos-sdk/crypto/codec"

	sdk "github.com/cosmos/cosmos-sdk/types"
)

func init() {
	config := sdk.GetConfig()
	config.SetBech32PrefixForAccount("paloma", "palomapub")
	config.SetBech32PrefixForValidator("palomavaloper", "palomavaloperpub")
	config.SetBech32PrefixForConsensusNode("palomavalcons", "palomavalconspub")
}

// Codec returns the binary codec. Natively this is the real ProtoCodec with the
// interfaces registered by reg; inside the engine the codec is an intrinsic
// (marshalled values are opaque blobs that round-trip faithfully).
func Codec(reg ...func(codectypes.InterfaceRegistry)) codec.Codec {
	r := codectypes.NewInterfaceRegistry()
	cryptocodec.RegisterInterfaces(r)
	for _, f := range reg {
		f(r)
	}
	return codec.NewProtoCodec(r)
}
