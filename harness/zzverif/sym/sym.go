// Package sym is the nondeterminism / assertion API used by verification
// harnesses. Inside the gosym engine every function here is intercepted (the
// bodies below are never executed); compiled natively, the bodies replay a
// solver model read from the JSON file named by $VERIF_REPLAY.
package sym

import (
	"encoding/json"
	"fmt"
	"math/big"
	"os"
	"strconv"
	"time"
)

type AssumeFailed struct{}

var (
	loaded   bool
	replay   map[string]string
	counters = map[string]int{}
	Failures []string
	Reached  []string
	Missing  []string
	// Trace is the ordered list of assertion and reachability labels met (conformance runs)
	Trace []string
)

func load() {
	if loaded {
		return
	}
	loaded = true
	replay = map[string]string{}
	if p := os.Getenv("VERIF_REPLAY"); p != "" {
		b, err := os.ReadFile(p)
		if err != nil {
			panic(err)
		}
		var doc struct {
			Model map[string]string `json:"model"`
		}
		if err := json.Unmarshal(b, &doc); err != nil {
			panic(err)
		}
		replay = doc.Model
	}
}

// Reset clears replay counters (between test cases in one process).
func Reset() {
	counters = map[string]int{}
	Failures, Reached, Missing, Trace = nil, nil, nil, nil
	loaded = false
}

func next(name string) (string, bool) {
	load()
	n := counters[name]
	counters[name] = n + 1
	key := fmt.Sprintf("%s#%d", name, n)
	v, ok := replay[key]
	if !ok {
		Missing = append(Missing, key)
	}
	return v, ok
}

func Bool(name string) bool {
	v, _ := next(name)
	return v == "true"
}

func Fault(label string) bool {
	v, _ := next("fault:" + label)
	return v == "true"
}

func bigFromString(v string) *big.Int {
	b, ok := new(big.Int).SetString(v, 10)
	if !ok {
		panic("sym: bad integer in replay: " + v)
	}
	return b
}

func bigOf(name string) *big.Int {
	v, ok := next(name)
	if !ok {
		return new(big.Int)
	}
	b, ok := new(big.Int).SetString(v, 10)
	if !ok {
		panic("sym: bad integer in replay for " + name + ": " + v)
	}
	return b
}

func Uint64(name string) uint64 { return bigOf(name).Uint64() }
func Int64(name string) int64   { return bigOf(name).Int64() }
func Uint32(name string) uint32 { return uint32(bigOf(name).Uint64()) }
func Byte(name string) byte     { return byte(bigOf(name).Uint64()) }

func IntRange(name string, lo, hi int64) int64 {
	v, ok := next(name)
	if !ok {
		return lo
	}
	n, _ := strconv.ParseInt(v, 10, 64)
	return n
}

func Uint64Range(name string, lo, hi uint64) uint64 {
	v, ok := next(name)
	if !ok {
		return lo
	}
	n, _ := strconv.ParseUint(v, 10, 64)
	return n
}

// Choice returns a value in [0,k); in the engine the call forks so the result is concrete.
func Choice(name string, k int) int {
	v, ok := next(name)
	if !ok {
		return 0
	}
	n, _ := strconv.Atoi(v)
	return n
}

// BigInt returns a non-negative integer below 2^bits.
func BigInt(name string, bits int) *big.Int { return bigOf(name) }

// BigIntSigned returns an integer with |x| < 2^bits.
func BigIntSigned(name string, bits int) *big.Int { return bigOf(name) }

// Bytes returns n arbitrary bytes.
func Bytes(name string, n int) []byte {
	out := make([]byte, n)
	for i := range out {
		out[i] = byte(bigOf(fmt.Sprintf("%s[%d]", name, i)).Uint64())
	}
	return out
}

func Assume(c bool) {
	if !c {
		panic(AssumeFailed{})
	}
}

func Assert(c bool, label string) {
	Trace = append(Trace, "A:"+label)
	if !c {
		Failures = append(Failures, label)
		fmt.Println("SYM-ASSERT-FAILED", label)
	}
}

func Reach(label string) {
	Reached = append(Reached, label)
	Trace = append(Trace, "R:"+label)
}

func Concretize(x int64) int64    { return x }
func ConcretizeU(x uint64) uint64 { return x }
func IsSymbolic() bool            { return false }
func MapOrder(on bool)            {}
func SetUnwind(n int)             {}
func Note(s string)               {}

// Setenv / Unsetenv set the process environment of the node being simulated.
// Setenv / Unsetenv change the process environment as a freshly started node
// would see it: the time package reads TZ only once per process, so the local
// zone is re-derived here the way time.initLocal does at start-up.
func Setenv(name, value string) {
	os.Setenv(name, value)
	if name == "TZ" {
		time.Local = time.UTC
		if loc, err := time.LoadLocation(value); err == nil && value != "" {
			time.Local = loc
		}
	}
}

func Unsetenv(name string) {
	os.Unsetenv(name)
	if name == "TZ" {
		time.Local = time.UTC // the sandbox's /etc/localtime
	}
}
func Dump(name string, v any) {}

func IteU64(c bool, a, b uint64) uint64 {
	if c {
		return a
	}
	return b
}

func IteI64(c bool, a, b int64) int64 {
	if c {
		return a
	}
	return b
}

func And(a, b bool) bool     { return a && b }
func Or(a, b bool) bool      { return a || b }
func Not(a bool) bool        { return !a }
func Implies(a, b bool) bool { return !a || b }
func Iff(a, b bool) bool     { return a == b }

// Tier returns the exploration tier ("quick" or "thorough").
func Tier() string {
	if t := os.Getenv("VERIF_TIER"); t != "" {
		return t
	}
	return "quick"
}

// Str returns an arbitrary string (SMT string variable in the engine).
func Str(name string) string {
	v, _ := next(name)
	return v
}
