//go:build verifclock

package sym

import (
	"runtime"
	"strings"
	"time"
)

// Built only for replays of counterexamples that depend on the wall clock: the
// replay overlays the standard library's time package with a hook (time.NowHook)
// and this file feeds it the solver's instants. Readings are keyed by the function
// that reads the clock (wallclock@<site>#k), so clock reads the engine never models
// (loggers, telemetry) fall through to the real clock.
func init() {
	time.NowHook = func() (time.Time, bool) {
		site := clockSite()
		if site == "" {
			return time.Time{}, false
		}
		load()
		name := "wallclock@" + site
		key := name + "#" + itoa(counters[name])
		v, ok := replay[key]
		if !ok {
			return time.Time{}, false
		}
		counters[name]++
		return time.Unix(0, bigFromString(v).Int64()), true
	}
}

func itoa(n int) string {
	if n == 0 {
		return "0"
	}
	s := ""
	for n > 0 {
		s = string(rune('0'+n%10)) + s
		n /= 10
	}
	return s
}

func clockSite() string {
	pcs := make([]uintptr, 16)
	n := runtime.Callers(2, pcs)
	frames := runtime.CallersFrames(pcs[:n])
	for {
		f, more := frames.Next()
		fn := f.Function
		if fn != "" && !strings.HasPrefix(fn, "time.") && !strings.Contains(fn, "zzverif/sym.") {
			return normFuncName(fn)
		}
		if !more {
			return ""
		}
	}
}

func normFuncName(s string) string {
	// closures: pkg.Func.func1 / pkg.(*T).M.func2.1 -> parent
	if i := strings.Index(s, ".func"); i >= 0 {
		s = s[:i]
	}
	if i := strings.Index(s, "["); i >= 0 { // generics
		s = s[:i]
	}
	s = strings.NewReplacer("(", "", ")", "", "*", "").Replace(s)
	if i := strings.LastIndex(s, "/"); i >= 0 {
		s = s[i+1:]
	}
	return s
}
