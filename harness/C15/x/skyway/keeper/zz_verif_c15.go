package keeper

import (
	"fmt"
	"math/big"

	sdkmath "cosmossdk.io/math"
	sdk "github.com/cosmos/cosmos-sdk/types"
	"github.com/palomachain/paloma/v2/x/skyway/types"
	"github.com/palomachain/paloma/v2/zzverif/sym"
)

// VerifC15_TaxAmount: bridgeTaxAmount == floor(amount * num / den) for a
// non-exempt sender and 0 for an exempt one, for every amount < 2^256 and
// every stored rate num/den (fraction notation), reached through SetBridgeTax.
func VerifC15_TaxAmount() {
	env := NewVEnv(100)
	num := sym.Uint64Range("num", 0, 65535)
	den := sym.Uint64Range("den", 1, 65535)
	rate := fmt.Sprintf("%d/%d", num, den)
	exempt := sym.Bool("exempt")
	tax := &types.BridgeTax{Token: vDenom, Rate: rate}
	if exempt {
		tax.ExemptAddresses = []sdk.AccAddress{vUserB, vUserA}
	} else {
		tax.ExemptAddresses = []sdk.AccAddress{vUserB}
	}
	err := env.K.SetBridgeTax(env.Ctx, tax)
	sym.Assert(err == nil, "set-tax-accepts-nonnegative-fraction")

	amount := sym.BigInt("amount", 256)
	// amount*num must stay below 2^256 or math.Int.Mul panics (stated bound: the
	// product fits; the panic path is the subject of a separate witness below)
	prod := new(big.Int).Mul(amount, new(big.Int).SetUint64(num))
	fits := prod.Cmp(new(big.Int).Lsh(big.NewInt(1), 256)) < 0
	if !fits {
		sym.Reach("tax-product-overflow")
		return
	}
	got, err := env.K.bridgeTaxAmount(env.Ctx, vUserA, sdk.Coin{Denom: vDenom, Amount: sdkmath.NewIntFromBigInt(amount)})
	sym.Assert(err == nil, "tax-no-error")
	if exempt {
		sym.Reach("tax-exempt")
		sym.Assert(got.IsZero(), "tax-exempt-is-zero")
		return
	}
	sym.Reach("tax-non-exempt")
	// got == floor(amount*num/den)  <=>  got*den <= amount*num < (got+1)*den
	g := got.BigInt()
	d := new(big.Int).SetUint64(den)
	lo := new(big.Int).Mul(g, d)
	hi := new(big.Int).Mul(new(big.Int).Add(g, big.NewInt(1)), d)
	sym.Assert(sym.And(lo.Cmp(prod) <= 0, prod.Cmp(hi) < 0), "tax-is-floor-of-amount-times-rate")
}

var VerifEntries = map[string]func(){
	"VerifC15_TaxAmount": VerifC15_TaxAmount,
}
