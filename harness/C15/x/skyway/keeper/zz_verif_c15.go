package keeper

import (
	"fmt"
	"math/big"

	sdkmath "cosmossdk.io/math"
	sdk "github.com/cosmos/cosmos-sdk/types"
	"github.com/palomachain/paloma/v2/x/skyway/types"
	valsettypes "github.com/palomachain/paloma/v2/x/valset/types"
	"github.com/palomachain/paloma/v2/zzverif/sym"
)

// VerifC15_TaxAmount: bridgeTaxAmount == floor(amount * num / den) for a
// non-exempt sender and 0 for an exempt one, for every amount < 2^256 and
// every stored rate num/den (fraction notation), reached through SetBridgeTax.
func VerifC15_TaxAmount() {
	env := NewVEnv(100)
	// rates in lowest terms (big.Rat reduces what it parses; the engine's Rat model does not):
	// a prime (or unit) denominator and a numerator that is not a multiple of it
	dens := []uint64{1, 2, 3, 5, 7, 100003, 65521}
	den := dens[sym.Choice("den", len(dens))]
	num := sym.Uint64Range("num", 0, 65535)
	if den != 1 {
		sym.Assume(num%den != 0)
	}
	rate := fmt.Sprintf("%d/%d", num, den)
	exempt := sym.Bool("exempt")
	tax := &types.BridgeTax{Token: vDenom, Rate: rate}
	if exempt {
		tax.ExemptAddresses = []sdk.AccAddress{vUserB, vUserA}
	} else {
		tax.ExemptAddresses = []sdk.AccAddress{vUserB}
	}
	err := env.K.SetBridgeTax(env.Ctx, tax)
	sym.Assert(err == nil, "set-tax-accepts-nonnegative-fraction")

	amount := sym.BigInt("amount", 256)
	// amount*num must stay below 2^256 or math.Int.Mul panics (stated bound: the
	// product fits; the panic path is the subject of a separate witness below)
	prod := new(big.Int).Mul(amount, new(big.Int).SetUint64(num))
	fits := prod.Cmp(new(big.Int).Lsh(big.NewInt(1), 256)) < 0
	if !fits {
		sym.Reach("tax-product-overflow")
		return
	}
	got, err := env.K.bridgeTaxAmount(env.Ctx, vUserA, sdk.Coin{Denom: vDenom, Amount: sdkmath.NewIntFromBigInt(amount)})
	sym.Assert(err == nil, "tax-no-error")
	if exempt {
		sym.Reach("tax-exempt")
		sym.Assert(got.IsZero(), "tax-exempt-is-zero")
		return
	}
	sym.Reach("tax-non-exempt")
	// got == floor(amount*num/den)  <=>  got*den <= amount*num < (got+1)*den
	g := got.BigInt()
	d := new(big.Int).SetUint64(den)
	lo := new(big.Int).Mul(g, d)
	hi := new(big.Int).Mul(new(big.Int).Add(g, big.NewInt(1)), d)
	sym.Assert(sym.And(lo.Cmp(prod) <= 0, prod.Cmp(hi) < 0), "tax-is-floor-of-amount-times-rate")
}

// VerifC15_Limits: transfer limits. A history of sends through the real msg
// server (each delivered atomically: state is committed only when the handler
// succeeds), at heights spread around the window boundary, by a limited and an
// exempt sender, arbitrary amounts and limit. Ghost bookkeeping replays the
// documented rule: a window opens with the first accepted transfer after the
// previous one ran out, the accepted total inside a window never exceeds the
// limit, a rejected transfer consumes nothing.
func VerifC15_Limits() {
	env := NewVEnv(1000)
	erc20, _ := types.NewEthAddress(vErc20)
	if err := env.K.setDenomToERC20(env.Ctx, vChain, vDenom, *erc20); err != nil {
		panic(err)
	}
	big70 := sdkmath.NewIntFromBigInt(new(big.Int).Lsh(big.NewInt(1), 70))
	env.Bank.SetBalance(vUserA, vDenom, big70)
	env.Bank.SetBalance(vUserB, vDenom, big70)
	env.Bank.SetSupply(vDenom, big70.MulRaw(2))
	limit := sdkmath.NewIntFromUint64(sym.Uint64("limit"))
	period := []types.LimitPeriod{types.LimitPeriod_DAILY, types.LimitPeriod_NONE}[sym.Choice("period", 2)]
	configured := sym.Bool("limit-configured")
	if configured {
		if err := env.K.SetBridgeTransferLimit(env.Ctx, &types.BridgeTransferLimit{Token: vDenom, Limit: limit, LimitPeriod: period, ExemptAddresses: []sdk.AccAddress{vUserB}}); err != nil {
			panic(err)
		}
	}
	W := (&types.BridgeTransferLimit{LimitPeriod: types.LimitPeriod_DAILY}).BlockLimit()
	srv := NewMsgServerImpl(env.K)
	L := 2
	if sym.Tier() == "thorough" {
		L = 3
	}
	height := int64(1000)
	windowOpen, windowStart, windowTotal := false, int64(0), sdkmath.ZeroInt()
	deltas := []int64{0, 1, W - 1, W, W + 1}
	for step := 0; step < L; step++ {
		height += deltas[sym.Choice("blocks-later", len(deltas))]
		sender := vUserA
		exempt := sym.Bool("sender-exempt")
		if exempt {
			sender = vUserB
		}
		amt := sdkmath.NewIntFromUint64(sym.Uint64("amount"))
		sym.Assume(amt.IsPositive())
		cctx, commit := env.Ctx.WithBlockHeight(height).CacheContext()
		balBefore := env.Bank.Balance(sender, vDenom)
		_, err := srv.SendToRemote(cctx, &types.MsgSendToRemote{EthDest: "0x9999999999999999999999999999999999999999", Amount: sdk.Coin{Denom: vDenom, Amount: amt}, ChainReferenceId: vChain,
			Metadata: valsettypes.MsgMetadata{Creator: sender.String(), Signers: []string{sender.String()}}})
		limited := configured && period != types.LimitPeriod_NONE && !exempt
		if err == nil {
			commit()
			sym.Reach("transfer-accepted")
			if limited {
				if !windowOpen || height-windowStart >= W {
					windowOpen, windowStart, windowTotal = true, height, sdkmath.ZeroInt()
				}
				windowTotal = windowTotal.Add(amt)
				sym.Assert(windowTotal.LTE(limit), "accepted-transfers-in-a-window-stay-within-the-limit")
			}
		} else {
			sym.Reach("transfer-rejected")
			sym.Assert(limited, "unlimited-senders-and-tokens-are-never-refused")
			if limited {
				// refused only when it would not fit
				t := windowTotal
				if !windowOpen || height-windowStart >= W {
					t = sdkmath.ZeroInt()
				}
				sym.Assert(t.Add(amt).GT(limit), "transfer-that-fits-the-window-is-accepted")
			}
			sym.Assert(env.Bank.Balance(sender, vDenom).Equal(balBefore), "rejected-transfer-moves-no-coins")
		}
		// the stored usage is the ghost window (a rejected transfer consumed nothing)
		u, uerr := env.K.BridgeTransferUsage(env.Ctx, vDenom)
		if windowOpen {
			sym.Assert(uerr == nil && u != nil && u.Total.Equal(windowTotal) && u.StartBlockHeight == windowStart, "recorded-usage-is-the-accepted-total-of-the-current-window")
		} else {
			sym.Assert(u == nil || u.Total.IsNil(), "no-usage-recorded-before-the-first-limited-transfer")
		}
	}
}

var _ = vEntry("VerifC15_TaxAmount", VerifC15_TaxAmount)
var _ = vEntry("VerifC15_Limits", VerifC15_Limits)
