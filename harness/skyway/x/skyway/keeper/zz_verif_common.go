package keeper

import (
	"context"
	"errors"
	authtypes "github.com/cosmos/cosmos-sdk/x/auth/types"

	storetypes "cosmossdk.io/store/types"
	"github.com/cosmos/cosmos-sdk/codec/address"
	codectypes "github.com/cosmos/cosmos-sdk/codec/types"
	sdk "github.com/cosmos/cosmos-sdk/types"
	gethcommon "github.com/ethereum/go-ethereum/common"
	xchain "github.com/palomachain/paloma/v2/internal/x-chain"
	evmtypes "github.com/palomachain/paloma/v2/x/evm/types"
	"github.com/palomachain/paloma/v2/x/skyway/types"
	"github.com/palomachain/paloma/v2/zzverif/models"
	"github.com/palomachain/paloma/v2/zzverif/sym"
)

// Shared wiring for skyway keeper harnesses: the real skyway Keeper over the
// plain-Go MemStore/MultiStore, the fake bank, and in-package fakes of the EVM
// keeper (fault-injecting).

const (
	vChain  = "test-chain"
	vDenom  = "ugrain"
	vErc20  = "0x1111111111111111111111111111111111111111"
	vErc20B = "0x2222222222222222222222222222222222222222"
)

var (
	vUserA = sdk.AccAddress("user-a--------------")
	vUserB = sdk.AccAddress("user-b--------------")
	vUserC = sdk.AccAddress("user-c--------------")
	vVals  = []sdk.ValAddress{
		sdk.ValAddress("validator-0000000001"),
		sdk.ValAddress("validator-0000000002"),
		sdk.ValAddress("validator-0000000003"),
		sdk.ValAddress("validator-0000000004"),
	}
	vEthAddrs = models.EthAddrs
)

type VEVM struct {
	Faults bool
	// NoKey: validators (by index) without an account registered for the chain
	NoKey  map[int]bool
	Chains []string
}

var errVInjected = errors.New("injected evm keeper failure")

func (e *VEVM) fault(label string) bool { return e.Faults && sym.Fault(label) }

func (e *VEVM) GetChainInfo(ctx context.Context, id string) (*evmtypes.ChainInfo, error) {
	if e.fault("evm.GetChainInfo") {
		return nil, errVInjected
	}
	return &evmtypes.ChainInfo{ChainReferenceID: id, ChainID: 1, SmartContractUniqueID: []byte("compass-1"), SmartContractAddr: "0x3333333333333333333333333333333333333333"}, nil
}

func (e *VEVM) PickValidatorForMessage(ctx context.Context, chainReferenceID string, req *xchain.JobRequirements) (string, string, error) {
	if e.fault("evm.PickValidatorForMessage") {
		return "", "", errVInjected
	}
	return vVals[0].String(), vEthAddrs[0], nil
}

func (e *VEVM) GetEthAddressByValidator(ctx context.Context, validator sdk.ValAddress, chainReferenceId string) (*types.EthAddress, bool, error) {
	if e.fault("evm.GetEthAddressByValidator") {
		return nil, false, errVInjected
	}
	// the validator may simply have no account on that chain: "not found" without an error
	if e.fault("evm.GetEthAddressByValidator:not-found") {
		return nil, false, nil
	}
	for i, v := range vVals {
		if v.Equals(validator) {
			if e.NoKey[i] {
				return nil, false, nil
			}
			a, err := types.NewEthAddress(vEthAddrs[i])
			return a, err == nil, err
		}
	}
	return nil, false, nil
}

func (e *VEVM) GetValidatorAddressByEthAddress(ctx context.Context, ethAddr types.EthAddress, chainReferenceId string) (sdk.ValAddress, bool, error) {
	for i, a := range vEthAddrs {
		if ethAddr.GetAddress() == gethcommon.HexToAddress(a) && !e.NoKey[i] {
			return vVals[i], true, nil
		}
	}
	return nil, false, nil
}

func (e *VEVM) HasAnySmartContractDeployment(ctx context.Context, chainReferenceID string) bool {
	return false
}
func (e *VEVM) GetActiveChainNames(ctx context.Context) []string {
	if e.Chains != nil {
		return e.Chains
	}
	return []string{vChain}
}

type VEnv struct {
	K       Keeper
	Ctx     sdk.Context
	MS      *models.MultiStore
	Bank    *models.Bank
	EVM     *VEVM
	Staking *models.Staking
	Handler *VHandler
}

// VHandler records the claims whose effect was applied (attestation handler fake).
type VHandler struct {
	Applied []types.EthereumClaim
	Fail    bool
}

func (h *VHandler) Handle(ctx context.Context, att types.Attestation, claim types.EthereumClaim) error {
	if h.Fail && sym.Fault("handler.Handle") {
		return errVInjected
	}
	h.Applied = append(h.Applied, claim)
	return nil
}

// VAccounts is the account keeper the deposit handler needs (module addresses only).
type VAccounts struct{}

func (VAccounts) GetSequence(ctx context.Context, addr sdk.AccAddress) (uint64, error) { return 0, nil }
func (VAccounts) NewAccountWithAddress(ctx context.Context, addr sdk.AccAddress) sdk.AccountI {
	return authtypes.NewBaseAccountWithAddress(addr)
}
func (VAccounts) GetModuleAddress(moduleName string) sdk.AccAddress {
	return authtypes.NewModuleAddress(moduleName)
}
func (VAccounts) GetModuleAccount(ctx context.Context, moduleName string) sdk.ModuleAccountI {
	return authtypes.NewEmptyModuleAccount(moduleName)
}
func (VAccounts) GetAccount(ctx context.Context, addr sdk.AccAddress) sdk.AccountI {
	return authtypes.NewBaseAccountWithAddress(addr)
}

// UseRealHandler installs the keeper's own attestation handler.
func (e *VEnv) UseRealHandler() {
	e.K.accountKeeper = VAccounts{}
	e.K.AttestationHandler = AttestationHandler{keeper: &e.K}
}

// OverrideNonce exposes the governance / chain-activation nonce reset.
func (e *VEnv) OverrideNonce(chain string, nonce uint64) error {
	return e.K.overrideNonce(e.Ctx, chain, nonce)
}

func (e *VEnv) SetLatestCompassID(chain, id string) { e.K.setLatestCompassID(e.Ctx, chain, id) }

func vRegister(r codectypes.InterfaceRegistry) { types.RegisterInterfaces(r) }

// NewVEnv wires the real skyway keeper at the given block height.
func NewVEnv(height int64) *VEnv {
	ctx, ms := models.NewContext(height)
	bank := models.NewBank(ms)
	evm := &VEVM{}
	staking := models.NewStaking()
	handler := &VHandler{}
	k := Keeper{
		cdc:                models.Codec(vRegister),
		bankKeeper:         bank,
		EVMKeeper:          evm,
		StakingKeeper:      staking,
		storeGetter:        NewSkywayStoreGetter(storetypes.NewKVStoreKey(types.StoreKey)),
		authority:          "authority",
		AddressCodec:       address.NewBech32Codec("palomavaloper"),
		AttestationHandler: handler,
	}
	env := &VEnv{K: k, Ctx: ctx, MS: ms, Bank: bank, EVM: evm, Staking: staking, Handler: handler}
	return env
}

// VerifEntries lists the harness entry points of this package (native replay looks them up by
// name); every harness file adds its own with vEntry so that several can be overlaid together.
var VerifEntries = map[string]func(){}

func vEntry(name string, f func()) bool {
	VerifEntries[name] = f
	return true
}
