package types

import (
	"bytes"

	sdkmath "cosmossdk.io/math"
	"github.com/ethereum/go-ethereum/common"
	"github.com/palomachain/paloma/v2/zzverif/sym"
)

// C11 — votes are pooled only for claims identical in every effect-bearing
// field. For each claim type and each effect-bearing field f (the list is the
// one in the property statement), two claims that agree everywhere except in f
// must get different attestation keys (chain store prefix + nonce + claim
// hash), for ALL pairs of distinct values of f.

func c11Key(chain string, c EthereumClaim) []byte {
	h, err := c.ClaimHash()
	if err != nil {
		panic(err)
	}
	// Keeper.GetStore(ctx, chainReferenceID) = prefix store over []byte(chain)
	return append([]byte(chain), GetAttestationKey(c.GetSkywayNonce(), h)...)
}

func c11Addr(name string) string {
	return common.BytesToAddress(sym.Bytes(name, 20)).Hex()
}

func c11Check(k1, k2 []byte, label string) {
	sym.Reach("reach-" + label)
	sym.Assert(!bytes.Equal(k1, k2), label)
}

const (
	c11Token  = "0x1111111111111111111111111111111111111111"
	c11Sender = "0x4444444444444444444444444444444444444444"
)

func c11Deposit() (a, b MsgSendToPalomaClaim) {
	a = MsgSendToPalomaClaim{
		EventNonce: 7, EthBlockHeight: 100, TokenContract: c11Token, Amount: sdkmath.NewInt(1000),
		EthereumSender: c11Sender, PalomaReceiver: "paloma1receiver", Orchestrator: "paloma1orch",
		ChainReferenceId: "test-chain", SkywayNonce: 7, CompassId: "compass-1",
	}
	return a, a
}

// VerifC11_Deposit: MsgSendToPalomaClaim
func VerifC11_Deposit() {
	a, b := c11Deposit()
	switch sym.Choice("field", 8) {
	case 7: // free-form text fields (the receiver is deliberately not validated): spellings that a
		// path-style joiner or trimmer would fold together are still different claims
		pairs := [][2]string{{"paloma1receiver", "paloma1receiver/."}, {"paloma1receiver", "paloma1receiver/"}, {"paloma1receiver", "./paloma1receiver"},
			{"paloma1receiver", "x/../paloma1receiver"}, {"paloma1receiver", " paloma1receiver"}, {"paloma1receiver", "PALOMA1RECEIVER"}, {"", "."}}
		pr := pairs[sym.Choice("spelling", len(pairs))]
		if sym.Bool("in-compass-id") {
			a.CompassId, b.CompassId = pr[0], pr[1]
		} else {
			a.PalomaReceiver, b.PalomaReceiver = pr[0], pr[1]
		}
		c11Check(c11Key("test-chain", &a), c11Key("test-chain", &b), "deposit-key-distinguishes-spellings-of-text-fields")
	case 0:
		a.SkywayNonce, b.SkywayNonce = sym.Uint64("x"), sym.Uint64("y")
		sym.Assume(a.SkywayNonce != b.SkywayNonce)
		c11Check(c11Key("test-chain", &a), c11Key("test-chain", &b), "deposit-key-depends-on-nonce")
	case 1:
		a.EthBlockHeight, b.EthBlockHeight = sym.Uint64("x"), sym.Uint64("y")
		sym.Assume(a.EthBlockHeight != b.EthBlockHeight)
		c11Check(c11Key("test-chain", &a), c11Key("test-chain", &b), "deposit-key-depends-on-eth-height")
	case 2:
		a.TokenContract, b.TokenContract = c11Addr("x"), c11Addr("y")
		sym.Assume(a.TokenContract != b.TokenContract)
		c11Check(c11Key("test-chain", &a), c11Key("test-chain", &b), "deposit-key-depends-on-token")
	case 3:
		x, y := sym.BigInt("x", 256), sym.BigInt("y", 256)
		sym.Assume(x.Cmp(y) != 0)
		a.Amount, b.Amount = sdkmath.NewIntFromBigInt(x), sdkmath.NewIntFromBigInt(y)
		c11Check(c11Key("test-chain", &a), c11Key("test-chain", &b), "deposit-key-depends-on-amount")
	case 4:
		a.EthereumSender, b.EthereumSender = c11Addr("x"), c11Addr("y")
		sym.Assume(a.EthereumSender != b.EthereumSender)
		c11Check(c11Key("test-chain", &a), c11Key("test-chain", &b), "deposit-key-depends-on-sender")
	case 5:
		a.PalomaReceiver, b.PalomaReceiver = sym.Str("x"), sym.Str("y")
		sym.Assume(a.PalomaReceiver != b.PalomaReceiver)
		c11Check(c11Key("test-chain", &a), c11Key("test-chain", &b), "deposit-key-depends-on-receiver")
	case 6:
		a.CompassId, b.CompassId = sym.Str("x"), sym.Str("y")
		sym.Assume(a.CompassId != b.CompassId)
		c11Check(c11Key("test-chain", &a), c11Key("test-chain", &b), "deposit-key-depends-on-compass-id")
	}
}

// VerifC11_Batch: MsgBatchSendToRemoteClaim
func VerifC11_Batch() {
	a := MsgBatchSendToRemoteClaim{EventNonce: 7, EthBlockHeight: 100, BatchNonce: 3, TokenContract: c11Token,
		ChainReferenceId: "test-chain", Orchestrator: "paloma1orch", SkywayNonce: 7, CompassId: "compass-1"}
	b := a
	switch sym.Choice("field", 5) {
	case 0:
		a.SkywayNonce, b.SkywayNonce = sym.Uint64("x"), sym.Uint64("y")
		sym.Assume(a.SkywayNonce != b.SkywayNonce)
		c11Check(c11Key("test-chain", &a), c11Key("test-chain", &b), "batch-key-depends-on-nonce")
	case 1:
		a.EthBlockHeight, b.EthBlockHeight = sym.Uint64("x"), sym.Uint64("y")
		sym.Assume(a.EthBlockHeight != b.EthBlockHeight)
		c11Check(c11Key("test-chain", &a), c11Key("test-chain", &b), "batch-key-depends-on-eth-height")
	case 2:
		a.BatchNonce, b.BatchNonce = sym.Uint64("x"), sym.Uint64("y")
		sym.Assume(a.BatchNonce != b.BatchNonce)
		c11Check(c11Key("test-chain", &a), c11Key("test-chain", &b), "batch-key-depends-on-batch-nonce")
	case 3:
		a.TokenContract, b.TokenContract = c11Addr("x"), c11Addr("y")
		sym.Assume(a.TokenContract != b.TokenContract)
		c11Check(c11Key("test-chain", &a), c11Key("test-chain", &b), "batch-key-depends-on-token")
	case 4:
		a.CompassId, b.CompassId = sym.Str("x"), sym.Str("y")
		sym.Assume(a.CompassId != b.CompassId)
		c11Check(c11Key("test-chain", &a), c11Key("test-chain", &b), "batch-key-depends-on-compass-id")
	}
}

// VerifC11_Sale: MsgLightNodeSaleClaim
func VerifC11_Sale() {
	a := MsgLightNodeSaleClaim{EventNonce: 7, EthBlockHeight: 100, Orchestrator: "paloma1orch", ChainReferenceId: "test-chain",
		SkywayNonce: 7, ClientAddress: "paloma1client", Amount: sdkmath.NewInt(5), SmartContractAddress: c11Token, CompassId: "compass-1"}
	b := a
	switch sym.Choice("field", 7) {
	case 6: // the same contract spelled differently (the sale handler compares the configured contract byte for byte)
		a.SmartContractAddress, b.SmartContractAddress = "0xAbCdEf1111111111111111111111111111111111", "0xabcdef1111111111111111111111111111111111"
		c11Check(c11Key("test-chain", &a), c11Key("test-chain", &b), "sale-key-depends-on-contract-spelling")
	case 0:
		a.SkywayNonce, b.SkywayNonce = sym.Uint64("x"), sym.Uint64("y")
		sym.Assume(a.SkywayNonce != b.SkywayNonce)
		c11Check(c11Key("test-chain", &a), c11Key("test-chain", &b), "sale-key-depends-on-nonce")
	case 1:
		a.EthBlockHeight, b.EthBlockHeight = sym.Uint64("x"), sym.Uint64("y")
		sym.Assume(a.EthBlockHeight != b.EthBlockHeight)
		c11Check(c11Key("test-chain", &a), c11Key("test-chain", &b), "sale-key-depends-on-eth-height")
	case 2:
		a.ClientAddress, b.ClientAddress = sym.Str("x"), sym.Str("y")
		sym.Assume(a.ClientAddress != b.ClientAddress)
		c11Check(c11Key("test-chain", &a), c11Key("test-chain", &b), "sale-key-depends-on-buyer")
	case 3:
		x, y := sym.BigInt("x", 256), sym.BigInt("y", 256)
		sym.Assume(x.Cmp(y) != 0)
		a.Amount, b.Amount = sdkmath.NewIntFromBigInt(x), sdkmath.NewIntFromBigInt(y)
		c11Check(c11Key("test-chain", &a), c11Key("test-chain", &b), "sale-key-depends-on-amount")
	case 4:
		a.SmartContractAddress, b.SmartContractAddress = c11Addr("x"), c11Addr("y")
		sym.Assume(a.SmartContractAddress != b.SmartContractAddress)
		c11Check(c11Key("test-chain", &a), c11Key("test-chain", &b), "sale-key-depends-on-originating-contract")
	case 5:
		a.CompassId, b.CompassId = sym.Str("x"), sym.Str("y")
		sym.Assume(a.CompassId != b.CompassId)
		c11Check(c11Key("test-chain", &a), c11Key("test-chain", &b), "sale-key-depends-on-compass-id")
	}
}

// VerifC11_Chain: the same claim observed on two different chains (alphabet of
// chain ids, none a prefix of another) is kept under different keys.
func VerifC11_Chain() {
	chains := []string{"eth-main", "bnb-main", "base-main"}
	a, _ := c11Deposit()
	i, j := sym.Choice("c1", 3), sym.Choice("c2", 3)
	sym.Assume(i != j)
	c11Check(c11Key(chains[i], &a), c11Key(chains[j], &a), "key-depends-on-chain")
}

// c11Text returns an arbitrary text of n bytes; noSlash restricts it to texts an
// honest observation can contain in an address-like field (no '/').
func c11Text(name string, n int, noSlash bool) string {
	b := sym.Bytes(name, n)
	if noSlash {
		for _, c := range b {
			sym.Assume(c != '/')
		}
	}
	return string(b)
}

// VerifC11_SaleJoint: joint injectivity of the sale claim key. Claim a is what the
// honest validators observed (buyer address, contract and deployment id are
// identifiers without '/'); claim b is ANYTHING a validator may submit under the
// same nonce — texts of other lengths, with or without '/', another amount.
// If b differs from a in any effect-bearing field the two must not share a key,
// however the differences are spread over adjacent fields.
func VerifC11_SaleJoint() {
	amounts := []int64{0, 1, 10, 5, 15}
	a := MsgLightNodeSaleClaim{EventNonce: 7, EthBlockHeight: 100, Orchestrator: "paloma1orch", ChainReferenceId: "test-chain", SkywayNonce: 7}
	b := a
	a.ClientAddress = c11Text("a-client", 1+sym.Choice("a-client-len", 2), true)
	a.Amount = sdkmath.NewInt(amounts[sym.Choice("a-amount", 3)])
	a.SmartContractAddress = c11Text("a-contract", 1, true)
	a.CompassId = c11Text("a-compass", 1, true)
	b.ClientAddress = c11Text("b-client", sym.Choice("b-client-len", 4), false)
	b.Amount = sdkmath.NewInt(amounts[sym.Choice("b-amount", len(amounts))])
	b.SmartContractAddress = c11Text("b-contract", sym.Choice("b-contract-len", 4), false)
	b.CompassId = c11Text("b-compass", sym.Choice("b-compass-len", 3), false)
	differ := sym.Or(sym.Or(a.ClientAddress != b.ClientAddress, !a.Amount.Equal(b.Amount)), sym.Or(a.SmartContractAddress != b.SmartContractAddress, a.CompassId != b.CompassId))
	sym.Assume(differ)
	c11Check(c11Key("test-chain", &a), c11Key("test-chain", &b), "sale-claims-differing-anywhere-have-different-keys")
}

// VerifC11_DepositJoint: the same for the deposit claim. Sender and token are
// validated Ethereum addresses (ValidateBasic), the receiver is deliberately
// free text chosen by the depositor on the remote chain — it may contain '/' —
// and both claims carry the deployment id the tally filters on.
func VerifC11_DepositJoint() {
	amounts := []int64{0, 1, 10, 5, 15}
	a, b := c11Deposit()
	a.PalomaReceiver = c11Text("a-receiver", sym.Choice("a-receiver-len", 4), false)
	b.PalomaReceiver = c11Text("b-receiver", sym.Choice("b-receiver-len", 4), false)
	a.Amount = sdkmath.NewInt(amounts[sym.Choice("a-amount", 3)])
	b.Amount = sdkmath.NewInt(amounts[sym.Choice("b-amount", len(amounts))])
	a.EthereumSender, b.EthereumSender = c11Addr("a-sender"), c11Addr("b-sender")
	a.TokenContract, b.TokenContract = c11Addr("a-token"), c11Addr("b-token")
	sym.Assume(a.ValidateClaimFields() == nil && b.ValidateClaimFields() == nil)
	differ := sym.Or(sym.Or(a.PalomaReceiver != b.PalomaReceiver, !a.Amount.Equal(b.Amount)), sym.Or(a.EthereumSender != b.EthereumSender, a.TokenContract != b.TokenContract))
	sym.Assume(differ)
	c11Check(c11Key("test-chain", &a), c11Key("test-chain", &b), "deposit-claims-differing-anywhere-have-different-keys")
}

// ValidateClaimFields is the stateless address validation of ValidateBasic (the
// metadata part is not about the claim).
func (msg *MsgSendToPalomaClaim) ValidateClaimFields() error {
	if err := ValidateEthAddress(msg.EthereumSender); err != nil {
		return err
	}
	return ValidateEthAddress(msg.TokenContract)
}

var VerifEntries = map[string]func(){
	"VerifC11_SaleJoint":    VerifC11_SaleJoint,
	"VerifC11_DepositJoint": VerifC11_DepositJoint,
	"VerifC11_Deposit":      VerifC11_Deposit,
	"VerifC11_Batch":        VerifC11_Batch,
	"VerifC11_Sale":         VerifC11_Sale,
	"VerifC11_Chain":        VerifC11_Chain,
}
