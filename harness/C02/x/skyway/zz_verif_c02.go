package skyway

import (
	sdkmath "cosmossdk.io/math"
	sdk "github.com/cosmos/cosmos-sdk/types"
	stakingtypes "github.com/cosmos/cosmos-sdk/x/staking/types"
	"github.com/palomachain/paloma/v2/x/skyway/keeper"
	"github.com/palomachain/paloma/v2/x/skyway/types"
	valsettypes "github.com/palomachain/paloma/v2/x/valset/types"
	"github.com/palomachain/paloma/v2/zzverif/sym"
)

// C02 — oracle safety. A bounded history of votes (through the real msg
// server), end-of-block tallies (the real attestationTally), governance nonce
// overrides and the periodic validator-nonce catch-up runs from genesis. Ghost
// state records who really voted for which claim; at every tally the effects
// the (recording) attestation handler saw are checked against it.

const c02Chain = "test-chain"

var c02Vals = []sdk.ValAddress{
	sdk.ValAddress("validator-0000000001"),
	sdk.ValAddress("validator-0000000002"),
	sdk.ValAddress("validator-0000000003"),
	sdk.ValAddress("validator-0000000004"),
}

// claim variant: differs in Amount (effect-bearing), so the claim hash differs.
func c02Claim(v int, nonce uint64, variant int) *types.MsgSendToPalomaClaim {
	orch := sdk.AccAddress(c02Vals[v]).String()
	return &types.MsgSendToPalomaClaim{
		EventNonce:       nonce + 100, // the contract's event counter is independent of the bridge nonce
		EthBlockHeight:   10,
		TokenContract:    "0x1111111111111111111111111111111111111111",
		Amount:           sdkmath.NewInt(int64(100 + variant)),
		EthereumSender:   "0x4444444444444444444444444444444444444444",
		PalomaReceiver:   sdk.AccAddress("user-a--------------").String(),
		Orchestrator:     orch,
		ChainReferenceId: c02Chain,
		SkywayNonce:      nonce,
		CompassId:        "compass-1",
		Metadata:         valsettypes.MsgMetadata{Creator: orch, Signers: []string{orch}},
	}
}

type c02Ghost struct {
	// voted[nonce][variant][v]: validator v has voted for that claim since the last reset
	voted [4][2][4]bool
}

func c02Steps() (V, L int) {
	if sym.Tier() == "thorough" {
		return 3, 5
	}
	return 3, 4
}

// VerifC02_History explores all histories of length L.
func VerifC02_History() {
	V, L := c02Steps()
	env := keeper.NewVEnv(100)
	env.SetLatestCompassID(c02Chain, "compass-1")
	powers := make([]int64, V)
	total := int64(0)
	for i := 0; i < V; i++ {
		powers[i] = sym.IntRange("power", 0, 1<<40)
		env.Staking.Add(c02Vals[i], stakingtypes.Bonded, false, sdkmath.NewInt(powers[i]), powers[i])
		total += powers[i]
	}
	// other bonded validators that never vote
	total += sym.IntRange("other-power", 0, 1<<40)
	env.Staking.TotalPower = sdkmath.NewInt(total)
	sym.Assume(total > 0)
	srv := keeper.NewMsgServerImpl(env.K)

	var g c02Ghost
	applied := 0              // how many effects have been checked so far
	lastObserved := uint64(0) // ghost cursor
	sinceReset := map[uint64]int{}

	for step := 0; step < L; step++ {
		// the first operation is a vote (anything else is a no-op on the empty
		// oracle) and the last one a tally (effects are only observable there)
		op := 0
		if step == L-1 {
			op = 1
		} else if step > 0 {
			op = sym.Choice("op", 5)
		}
		switch op {
		case 0: // vote
			v := sym.Choice("voter", V)
			nonce := uint64(1 + sym.Choice("nonce", 2))
			variant := sym.Choice("variant", 2)
			cctx, commit := env.Ctx.CacheContext()
			_, err := srv.SendToPalomaClaim(cctx, c02Claim(v, nonce, variant))
			if err == nil {
				commit()
				sym.Reach("vote-accepted")
				g.voted[nonce][variant][v] = true
			} else {
				sym.Reach("vote-rejected")
			}
		case 1: // end-of-block tally
			err := attestationTally(env.Ctx, env.K, c02Chain)
			_ = err
			sym.Reach("tally")
			for ; applied < len(env.Handler.Applied); applied++ {
				sym.Reach("effect-applied")
				c := env.Handler.Applied[applied].(*types.MsgSendToPalomaClaim)
				n := c.SkywayNonce
				variant := int(c.Amount.Int64() - 100)
				// distinct voters of exactly this claim
				sum := int64(0)
				for v := 0; v < V; v++ {
					if g.voted[n][variant][v] {
						sum += powers[v]
					}
				}
				sym.Assert(sum*100 > 66*total, "effect-needs-more-than-66-percent-of-distinct-voters")
				sym.Assert(n == lastObserved+1, "effects-in-consecutive-nonce-order")
				sinceReset[n]++
				sym.Assert(sinceReset[n] == 1, "one-claim-per-nonce-between-resets")
				lastObserved = n
			}
			got, _ := env.K.GetLastObservedSkywayNonce(env.Ctx, c02Chain)
			sym.Assert(got == lastObserved, "cursor-matches-applied-effects")
		case 2: // governance / chain activation reset
			n := uint64(sym.Choice("reset-to", 2))
			if err := env.OverrideNonce(c02Chain, n); err == nil {
				sym.Reach("nonce-reset")
				lastObserved = n
				sinceReset = map[uint64]int{}
				// a reset starts a new voting epoch: earlier votes may legitimately be re-cast,
				// but they must not be counted twice — the ghost forgets nothing it has seen
			}
		case 3: // periodic catch-up
			_ = env.K.UpdateValidatorNoncesToLatest(env.Ctx, c02Chain)
			sym.Reach("catch-up")
		case 4: // a validator's bonded power changes between vote and tally
			v := sym.Choice("restaked", V)
			np := sym.IntRange("new-power", 0, 1<<40)
			total += np - powers[v]
			powers[v] = np
			sv := env.Staking.Find(c02Vals[v])
			sv.Power, sv.Tokens = np, sdkmath.NewInt(np)
			env.Staking.TotalPower = sdkmath.NewInt(total)
			sym.Assume(total > 0)
			sym.Reach("power-changed")
		}
	}
}

// VerifC02_Handover: the bridge contract on the remote chain is replaced (compass
// hand-over: new deployment id, nonces start again at 1) while claims of the old
// deployment are still on record — possibly with a full quorum that could never
// be applied because an earlier nonce was contested. After the hand-over only
// claims of the current deployment may take effect, each with more than 66 % of
// the power behind it, in consecutive nonce order from 1.
func VerifC02_Handover() {
	const V = 3
	env := keeper.NewVEnv(100)
	env.SetLatestCompassID(c02Chain, "compass-1")
	for i := 0; i < V; i++ {
		env.Staking.Add(c02Vals[i], stakingtypes.Bonded, false, sdkmath.NewInt(10), 10)
	}
	env.Staking.TotalPower = sdkmath.NewInt(10 * V)
	srv := keeper.NewMsgServerImpl(env.K)
	current := "compass-1"
	// voted[deployment][nonce][variant][validator]
	voted := map[string]*[3][2][V]bool{"compass-1": {}, "compass-2": {}}
	vote := func(v int, nonce uint64, variant int, compass string) {
		c := c02Claim(v, nonce, variant)
		c.CompassId = compass
		cctx, commit := env.Ctx.CacheContext()
		if _, err := srv.SendToPalomaClaim(cctx, c); err == nil {
			commit()
			sym.Reach("vote-accepted")
			voted[compass][nonce][variant][v] = true
		} else {
			sym.Reach("vote-rejected")
		}
	}
	applied, lastObserved := 0, uint64(0)
	tally := func() {
		_ = attestationTally(env.Ctx, env.K, c02Chain)
		for ; applied < len(env.Handler.Applied); applied++ {
			sym.Reach("effect-applied")
			c := env.Handler.Applied[applied].(*types.MsgSendToPalomaClaim)
			sym.Assert(c.CompassId == current, "effects-only-from-the-current-bridge-deployment")
			n, variant := c.SkywayNonce, int(c.Amount.Int64()-100)
			cnt := 0
			if w, ok := voted[c.CompassId]; ok && n < 3 {
				for v := 0; v < V; v++ {
					if w[n][variant][v] {
						cnt++
					}
				}
			}
			sym.Assert(cnt*100 > 66*V, "effect-needs-more-than-66-percent-of-distinct-voters")
			sym.Assert(n == lastObserved+1, "effects-in-consecutive-nonce-order-per-deployment")
			lastObserved = n
		}
		got, _ := env.K.GetLastObservedSkywayNonce(env.Ctx, c02Chain)
		sym.Assert(got == lastObserved, "cursor-matches-applied-effects")
	}
	// old deployment: nonce 1 may be contested, nonce 2 may gather any number of votes
	if sym.Bool("v0-votes-nonce-1-variant-a") {
		vote(0, 1, 0, "compass-1")
	}
	if sym.Bool("v1-votes-nonce-1-variant-b") {
		vote(1, 1, 1, "compass-1")
	}
	for v := 0; v < V; v++ {
		if sym.Bool("votes-nonce-2") {
			vote(v, 2, 0, "compass-1")
		}
	}
	tally()
	if sym.Bool("hand-over") {
		// what the EVMActivatedChain subscriber of the keeper does
		env.SetLatestCompassID(c02Chain, "compass-2")
		if err := env.OverrideNonce(c02Chain, 0); err != nil {
			panic(err)
		}
		current, lastObserved = "compass-2", 0
		sym.Reach("handed-over")
	}
	for v := 0; v < V; v++ {
		if sym.Bool("votes-next") {
			vote(v, lastObserved+1, 0, current)
		}
	}
	tally()
}

var VerifEntries = map[string]func(){
	"VerifC02_Handover": VerifC02_Handover,
	"VerifC02_History":  VerifC02_History,
}
