package mempool

import (
	"math"

	cryptotypes "github.com/cosmos/cosmos-sdk/crypto/types"
	sdk "github.com/cosmos/cosmos-sdk/types"
	signingtypes "github.com/cosmos/cosmos-sdk/types/tx/signing"
	consensustypes "github.com/palomachain/paloma/v2/x/consensus/types"
	evmtypes "github.com/palomachain/paloma/v2/x/evm/types"
	schedulertypes "github.com/palomachain/paloma/v2/x/scheduler/types"
	skywaytypes "github.com/palomachain/paloma/v2/x/skyway/types"
	valsettypes "github.com/palomachain/paloma/v2/x/valset/types"
	"github.com/palomachain/paloma/v2/zzverif/models"
	"github.com/palomachain/paloma/v2/zzverif/sym"
	protov2 "google.golang.org/protobuf/proto"
)

// C19 — the application mempool yields every pending tx exactly once, never a
// removed one, each sender's txs in increasing sequence order, a sender whose
// next tx has strictly higher priority first; CountTx equals the number of
// pending txs. Arbitrary histories of insert / remove / select over a small
// universe of (sender, sequence) pairs with arbitrary int64 priorities.

type c19PubKey struct{ addr []byte }

func (k c19PubKey) Reset()                               {}
func (k c19PubKey) String() string                       { return "c19key" }
func (k c19PubKey) ProtoMessage()                        {}
func (k c19PubKey) Address() cryptotypes.Address         { return k.addr }
func (k c19PubKey) Bytes() []byte                        { return k.addr }
func (k c19PubKey) VerifySignature(msg, sig []byte) bool { return true }
func (k c19PubKey) Equals(o cryptotypes.PubKey) bool     { return string(o.Bytes()) == string(k.addr) }
func (k c19PubKey) Type() string                         { return "c19" }

type c19Tx struct {
	sender int
	nonce  uint64
	msgs   []sdk.Msg
}

var c19Senders = [][]byte{[]byte("sender-a------------"), []byte("sender-b------------"), []byte("sender-c------------")}

func (t *c19Tx) GetMsgs() []sdk.Msg                    { return t.msgs }
func (t *c19Tx) GetMsgsV2() ([]protov2.Message, error) { return nil, nil }
func (t *c19Tx) GetSigners() ([][]byte, error)         { return [][]byte{c19Senders[t.sender]}, nil }
func (t *c19Tx) GetPubKeys() ([]cryptotypes.PubKey, error) {
	return []cryptotypes.PubKey{c19PubKey{c19Senders[t.sender]}}, nil
}
func (t *c19Tx) GetSignaturesV2() ([]signingtypes.SignatureV2, error) {
	return []signingtypes.SignatureV2{{PubKey: c19PubKey{c19Senders[t.sender]}, Sequence: t.nonce}}, nil
}

type c19Pending struct {
	tx   *c19Tx
	prio int64
}

type c19Ghost struct {
	pending []c19Pending
}

func (g *c19Ghost) find(sender int, nonce uint64) int {
	for i, p := range g.pending {
		if p.tx.sender == sender && p.tx.nonce == nonce {
			return i
		}
	}
	return -1
}

func c19Select(mp *PriorityNonceMempool[int64], g *c19Ghost, ctx sdk.Context) {
	n := len(g.pending)
	yielded := make([]bool, n)
	count := 0
	for it := mp.Select(ctx, nil); it != nil; it = it.Next() {
		count++
		if count > n {
			sym.Assert(false, "select-yields-no-more-than-the-pending-transactions")
			return
		}
		tx, ok := it.Tx().(*c19Tx)
		sym.Assert(ok && tx != nil, "select-yields-a-transaction")
		if !ok || tx == nil {
			return
		}
		idx := g.find(tx.sender, tx.nonce)
		sym.Assert(idx >= 0 && g.pending[idx].tx == tx, "select-yields-only-pending-transactions")
		if idx < 0 {
			return
		}
		sym.Assert(!yielded[idx], "select-yields-each-transaction-at-most-once")
		// sequence order within the sender: no unyielded pending tx of this sender has a lower sequence
		for j, p := range g.pending {
			if !yielded[j] && j != idx && p.tx.sender == tx.sender {
				sym.Assert(p.tx.nonce > tx.nonce, "sender-transactions-in-increasing-sequence-order")
			}
		}
		// priority between senders: nobody else's NEXT transaction has strictly higher priority
		for s := range c19Senders {
			if s == tx.sender {
				continue
			}
			next := -1
			for j, p := range g.pending {
				if !yielded[j] && p.tx.sender == s && (next < 0 || p.tx.nonce < g.pending[next].tx.nonce) {
					next = j
				}
			}
			if next >= 0 {
				sym.Assert(g.pending[next].prio <= g.pending[idx].prio, "higher-priority-sender-goes-first")
			}
		}
		yielded[idx] = true
	}
	sym.Assert(count == n, "select-yields-every-pending-transaction")
	sym.Reach("select-completed")
}

func c19History(L, nSenders, nNonces int) {
	ctx, _ := models.NewContext(10)
	mp := DefaultPriorityMempool()
	g := &c19Ghost{}
	for step := 0; step < L; step++ {
		op := sym.Choice("op", 3)
		switch op {
		case 0: // insert a tx whose (sender, sequence) is not pending
			s := sym.Choice("sender", nSenders)
			n := uint64(sym.Choice("sequence", nNonces))
			sym.Assume(g.find(s, n) < 0)
			prio := sym.Int64("priority")
			// fee-derived priorities are non-negative in practice; math.MinInt64 is the
			// pool's own sentinel (TxPriority.MinValue) and is excluded
			sym.Assume(prio < math.MaxInt64-3 && prio > math.MinInt64)
			tx := &c19Tx{sender: s, nonce: n, msgs: []sdk.Msg{&skywaytypes.MsgSendToRemote{}}}
			err := mp.Insert(ctx.WithPriority(prio), tx)
			sym.Assert(err == nil, "insert-succeeds")
			g.pending = append(g.pending, c19Pending{tx: tx, prio: prio})
			sym.Reach("inserted")
		case 1: // remove a pending tx
			if len(g.pending) == 0 {
				continue
			}
			i := sym.Choice("victim", len(g.pending))
			err := mp.Remove(g.pending[i].tx)
			sym.Assert(err == nil, "remove-of-a-pending-transaction-succeeds")
			g.pending = append(g.pending[:i:i], g.pending[i+1:]...)
			sym.Reach("removed")
		case 2:
			c19Select(mp, g, ctx)
		}
		sym.Assert(mp.CountTx() == len(g.pending), "count-equals-number-of-pending-transactions")
	}
}

func VerifC19_History() {
	if sym.Tier() == "thorough" {
		c19History(5, 2, 2)
		return
	}
	c19History(4, 2, 2)
}

// VerifC19_Classes: priority classes of single-message transactions.
func VerifC19_Classes() {
	ctx, _ := models.NewContext(10)
	p := NewDefaultTxPriority()
	msgs := []sdk.Msg{
		&consensustypes.MsgAddEvidence{}, &schedulertypes.MsgExecuteJob{}, &evmtypes.MsgRemoveSmartContractDeploymentRequest{}, &valsettypes.MsgKeepAlive{}, &skywaytypes.MsgSendToRemote{},
	}
	ordinary := sym.Int64("ordinary-priority")
	sym.Assume(ordinary < math.MaxInt64-3) // fee based priorities stay below the reserved classes
	c := ctx.WithPriority(ordinary)
	var got [5]int64
	for i, m := range msgs {
		got[i] = p.GetTxPriority(c, &c19Tx{msgs: []sdk.Msg{m}})
	}
	for i := 0; i < 4; i++ {
		sym.Assert(p.Compare(got[i], got[i+1]) > 0, "classes-rank-consensus-scheduler-evm-valset-others")
	}
	sym.Assert(got[4] == ordinary, "ordinary-transactions-keep-their-fee-priority")
	// a transaction with several messages is not lifted into a class
	multi := p.GetTxPriority(c, &c19Tx{msgs: []sdk.Msg{msgs[0], msgs[0]}})
	sym.Assert(multi == ordinary, "multi-message-transactions-keep-their-fee-priority")
	sym.Reach("classes-compared")
}

var VerifEntries = map[string]func(){
	"VerifC19_History": VerifC19_History,
	"VerifC19_Classes": VerifC19_Classes,
}
