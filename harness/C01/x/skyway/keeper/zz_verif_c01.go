package keeper

import (
	"context"
	"cosmossdk.io/collections"
	storetypes "cosmossdk.io/store/types"
	"github.com/cosmos/cosmos-sdk/codec"
	"github.com/cosmos/cosmos-sdk/runtime"
	distrtypes "github.com/cosmos/cosmos-sdk/x/distribution/types"
	"math/big"

	sdkmath "cosmossdk.io/math"
	sdk "github.com/cosmos/cosmos-sdk/types"
	"github.com/palomachain/paloma/v2/x/skyway/types"
	"github.com/palomachain/paloma/v2/zzverif/sym"
)

// C01 — escrow conservation and all-or-nothing transfer lifecycle.
//
// The pre-state is built with the keeper's own operations (so it is reachable
// by construction): p sends of arbitrary amounts by A or B under an arbitrary
// tax rate, optionally one batch build. Then ONE step under test runs with a
// fault injectable at every collaborator call, and the oracle compares the
// post-state against ghost bookkeeping.

type c01Ghost struct {
	amount, tax []sdkmath.Int // per transfer id-1
	sender      []sdk.AccAddress
	n           int
}

func (g *c01Ghost) total() sdkmath.Int {
	t := sdkmath.ZeroInt()
	for i := 0; i < g.n; i++ {
		t = t.Add(g.amount[i]).Add(g.tax[i])
	}
	return t
}

var c01Erc20 = func() types.EthAddress {
	a, err := types.NewEthAddress(vErc20)
	if err != nil {
		panic(err)
	}
	return *a
}()

var c01Receiver = func() types.EthAddress {
	a, err := types.NewEthAddress("0x9999999999999999999999999999999999999999")
	if err != nil {
		panic(err)
	}
	return *a
}()

// c01Setup registers the token, a symbolic tax rate, balances, and performs p sends.
func c01Setup(p int) (*VEnv, *c01Ghost) {
	env := NewVEnv(100)
	if err := env.K.setDenomToERC20(env.Ctx, vChain, vDenom, c01Erc20); err != nil {
		panic(err)
	}
	num := sym.Uint64Range("taxnum", 0, 1000)
	den := sym.Uint64Range("taxden", 1, 1000)
	if err := env.K.SetBridgeTax(env.Ctx, &types.BridgeTax{Token: vDenom, Rate: sdkmath.NewIntFromUint64(num).String() + "/" + sdkmath.NewIntFromUint64(den).String()}); err != nil {
		panic(err)
	}
	balA := sdkmath.NewIntFromBigInt(sym.BigInt("balA", 200))
	balB := sdkmath.NewIntFromBigInt(sym.BigInt("balB", 200))
	env.Bank.SetBalance(vUserA, vDenom, balA)
	env.Bank.SetBalance(vUserB, vDenom, balB)
	env.Bank.SetSupply(vDenom, balA.Add(balB))
	g := &c01Ghost{}
	for i := 0; i < p; i++ {
		sender := vUserA
		if sym.Bool("senderIsB") {
			sender = vUserB
		}
		amt := sdkmath.NewIntFromBigInt(sym.BigInt("amount", 128))
		id, err := env.K.AddToOutgoingPool(env.Ctx, sender, c01Receiver, sdk.Coin{Denom: vDenom, Amount: amt}, vChain)
		sym.Assume(err == nil)                             // only accepted sends build the pre-state
		sym.Assert(id == uint64(i+2), "send-ids-increase") // autoIncrementID starts at 1 and returns 2 first
		tax := new(big.Int).Quo(new(big.Int).Mul(amt.BigInt(), new(big.Int).SetUint64(num)), new(big.Int).SetUint64(den))
		g.amount = append(g.amount, amt)
		g.tax = append(g.tax, sdkmath.NewIntFromBigInt(tax))
		g.sender = append(g.sender, sender)
		g.n++
	}
	return env, g
}

// c01Holdings sums amount+tax over pool and open batches as the keeper reports them.
func c01Holdings(env *VEnv) (pool, batched sdkmath.Int, nPool, nBatched int) {
	pool, batched = sdkmath.ZeroInt(), sdkmath.ZeroInt()
	txs, err := env.K.GetUnbatchedTransactions(env.Ctx)
	if err != nil {
		panic(err)
	}
	for _, tx := range txs {
		pool = pool.Add(tx.Erc20Token.Amount).Add(tx.BridgeTaxAmount)
		nPool++
	}
	bs, err := env.K.GetOutgoingTxBatches(env.Ctx)
	if err != nil {
		panic(err)
	}
	for _, b := range bs {
		for _, tx := range b.Transactions {
			batched = batched.Add(tx.Erc20Token.Amount).Add(tx.BridgeTaxAmount)
			nBatched++
		}
	}
	return
}

func c01CheckInvariant(env *VEnv, label string) {
	pool, batched, _, _ := c01Holdings(env)
	escrow := env.Bank.ModuleBalance(types.ModuleName, vDenom)
	sym.Assert(escrow.Equal(pool.Add(batched)), label)
}

func c01MaxSends() int {
	if sym.Tier() == "thorough" {
		return 3
	}
	return 2
}

// VerifC01_Send: after 1..P accepted sends the escrow equals Σ(amount+tax), each
// sender paid exactly amount+tax per transfer, supply unchanged.
func VerifC01_Send() {
	p := 1 + sym.Choice("p", c01MaxSends())
	env, g := c01Setup(p)
	sym.Reach("sends-accepted")
	c01CheckInvariant(env, "escrow-equals-pending-after-sends")
	escrow := env.Bank.ModuleBalance(types.ModuleName, vDenom)
	sym.Assert(escrow.Equal(g.total()), "escrow-equals-ghost-amount-plus-tax")
	_, _, nPool, nBatched := c01Holdings(env)
	sym.Assert(nPool == p && nBatched == 0, "every-send-in-pool-once")
}

// VerifC01_Cancel: cancelling a pooled transfer refunds exactly amount+tax to its
// sender and to nobody else; a cancel that fails changes nothing (the handler
// runs in a cached context committed only on success — baseapp semantics).
func VerifC01_Cancel() {
	p := 1 + sym.Choice("p", c01MaxSends())
	env, g := c01Setup(p)
	env.Bank.Faults, env.EVM.Faults = true, true
	id := 2 + sym.Choice("cancel-id", p+1) // ids 2..p+1 exist; p+2 does not
	who := vUserA
	if sym.Bool("cancellerIsB") {
		who = vUserB
	}
	beforeBank := env.Bank.Snapshot()
	beforeMS := env.MS.Clone()
	balBefore := env.Bank.Balance(who, vDenom)

	cctx, commit := env.Ctx.CacheContext()
	err := env.K.RemoveFromOutgoingPoolAndRefund(cctx, uint64(id), who)
	if err == nil {
		commit()
	}
	if err != nil {
		sym.Reach("cancel-rejected")
		// bank effects are not covered by the store cache; a failing bank call has no effect (atomic) so
		// the only way to lose funds is a bank call that succeeded before a later failure
		sym.Assert(env.MS.Equal(beforeMS), "failed-cancel-leaves-store-unchanged")
		if !env.Bank.Unchanged(beforeBank) {
			// refund went out but the operation reported failure: in a real tx the whole
			// tx (bank included) is reverted by baseapp; record the witness only
			sym.Reach("cancel-failed-after-refund")
		}
		return
	}
	sym.Reach("cancel-accepted")
	idx := id - 2
	sym.Assert(idx < p, "cancel-only-existing")
	sym.Assert(who.Equals(g.sender[idx]), "cancel-only-by-sender")
	want := balBefore.Add(g.amount[idx]).Add(g.tax[idx])
	sym.Assert(env.Bank.Balance(who, vDenom).Equal(want), "cancel-refunds-amount-plus-tax")
	c01CheckInvariant(env, "escrow-equals-pending-after-cancel")
	_, _, nPool, _ := c01Holdings(env)
	sym.Assert(nPool == p-1, "cancel-removes-exactly-one")
}

// VerifC01_Build: a batch build moves transfers pool→batch; if it reports
// failure (any collaborator may fail) pool, batches and balances are unchanged.
func VerifC01_Build() {
	p := 1 + sym.Choice("p", c01MaxSends())
	env, _ := c01Setup(p)
	env.EVM.Faults = true
	beforeBank := env.Bank.Snapshot()
	beforeMS := env.MS.Clone()
	_, _, nPool0, _ := c01Holdings(env)

	batch, err := env.K.BuildOutgoingTXBatch(env.Ctx, vChain, c01Erc20, OutgoingTxBatchSize)
	sym.Assert(env.Bank.Unchanged(beforeBank), "build-moves-no-coins")
	if err != nil {
		sym.Reach("build-failed")
		_, _, nPool1, nB1 := c01Holdings(env)
		sym.Assert(nPool1 == nPool0 && nB1 == 0, "failed-build-leaves-pool-and-batches-unchanged")
		sym.Assert(env.MS.Equal(beforeMS), "failed-build-leaves-store-unchanged")
		c01CheckInvariant(env, "escrow-equals-pending-after-failed-build")
		return
	}
	sym.Reach("build-succeeded")
	sym.Assert(batch != nil, "build-returns-batch")
	_, _, nPool1, nB1 := c01Holdings(env)
	sym.Assert(nPool1 == 0 && nB1 == nPool0, "build-moves-all-pool-to-batch")
	c01CheckInvariant(env, "escrow-equals-pending-after-build")
}

// VerifC01_BatchLife: build a batch (no faults), then one of {timeout cancel,
// executed attestation effect} with faults; conservation and all-or-nothing.
func VerifC01_BatchLife() {
	p := 1 + sym.Choice("p", c01MaxSends())
	env, g := c01Setup(p)
	batch, err := env.K.BuildOutgoingTXBatch(env.Ctx, vChain, c01Erc20, OutgoingTxBatchSize)
	if err != nil || batch == nil {
		panic("setup: build failed")
	}
	env.Bank.Faults, env.EVM.Faults = true, true
	beforeBank := env.Bank.Snapshot()
	beforeMS := env.MS.Clone()
	supply0 := env.Bank.Supply(vDenom)
	switch sym.Choice("step", 2) {
	case 0: // cancel (timeout sweep uses this)
		err := env.K.CancelOutgoingTXBatch(env.Ctx, c01Erc20, batch.BatchNonce)
		sym.Assert(env.Bank.Unchanged(beforeBank), "batch-cancel-moves-no-coins")
		if err != nil {
			sym.Reach("batch-cancel-failed")
			sym.Assert(env.MS.Equal(beforeMS), "failed-batch-cancel-leaves-store-unchanged")
		} else {
			sym.Reach("batch-cancel-ok")
			_, _, nPool, nB := c01Holdings(env)
			sym.Assert(nPool == p && nB == 0, "batch-cancel-returns-all-to-pool")
		}
		c01CheckInvariant(env, "escrow-equals-pending-after-batch-cancel")
	case 1: // executed
		claim := types.MsgBatchSendToRemoteClaim{EventNonce: 1, EthBlockHeight: 1, BatchNonce: batch.BatchNonce, ChainReferenceId: vChain, TokenContract: vErc20}
		err := env.K.OutgoingTxBatchExecuted(env.Ctx, c01Erc20, claim)
		if err != nil {
			sym.Reach("executed-failed")
			sym.Assert(env.MS.Equal(beforeMS), "failed-execute-leaves-store-unchanged")
			sym.Assert(env.Bank.Unchanged(beforeBank), "failed-execute-leaves-balances-unchanged")
		} else {
			sym.Reach("executed-ok")
			_, _, nPool, nB := c01Holdings(env)
			sym.Assert(nPool == 0 && nB == 0, "executed-batch-is-gone")
			sym.Assert(env.Bank.Supply(vDenom).Equal(supply0.Sub(g.total())), "executed-burns-amount-plus-tax")
		}
		c01CheckInvariant(env, "escrow-equals-pending-after-execute")
	}
}

// VerifC01_Deposit: an attested inbound deposit (the real attestation handler,
// run as the tally runs it: on a cached context committed only on success)
// raises the token's supply by exactly the deposited amount, credits the
// receiver with it, and leaves the escrow of pending outbound transfers alone.
// c01Recorder wraps the keeper's own attestation handler and remembers whether it
// reported failure (processAttestation only logs it).
type c01Recorder struct {
	inner  AttestationHandler
	failed *bool
}

func (r c01Recorder) Handle(ctx context.Context, att types.Attestation, claim types.EthereumClaim) error {
	err := r.inner.Handle(ctx, att, claim)
	if err != nil {
		*r.failed = true
	}
	return err
}

func (r c01Recorder) ValidateMembers() {}

// VerifC01_Deposit: an attested inbound deposit, applied the way the oracle applies
// it (Keeper.processAttestation), to a valid receiver or to free text that is no
// address (then the community pool gets it), with a failure injected at any bank
// call on the way. All or nothing: either the supply rises by exactly the amount
// and exactly one of {receiver, community pool} is credited with it, or nothing
// changed at all; the escrow of pending outbound transfers is never touched.
func VerifC01_Deposit() {
	p := sym.Choice("p", c01MaxSends()+1)
	env, _ := c01Setup(p)
	env.UseRealHandler()
	failed := false
	env.K.AttestationHandler = c01Recorder{inner: AttestationHandler{keeper: &env.K}, failed: &failed}
	// the community pool record of x/distribution (the real collections item)
	sb := collections.NewSchemaBuilder(runtime.NewKVStoreService(storetypes.NewKVStoreKey(distrtypes.StoreKey)))
	env.K.DistKeeper.FeePool = collections.NewItem(sb, distrtypes.FeePoolKey, "fee_pool", codec.CollValue[distrtypes.FeePool](env.K.cdc))
	if err := env.K.DistKeeper.FeePool.Set(env.Ctx, distrtypes.InitialFeePool()); err != nil {
		panic(err)
	}
	env.Bank.Faults = true
	supply0 := env.Bank.Supply(vDenom)
	rcv0 := env.Bank.Balance(vUserC, vDenom)
	pool0 := env.Bank.ModuleBalance(distrtypes.ModuleName, vDenom)
	escrow0 := env.Bank.ModuleBalance(types.ModuleName, vDenom)
	amt := sdkmath.NewIntFromBigInt(sym.BigInt("deposit", 200))
	token := vErc20
	if sym.Bool("unknown-token") {
		token = vErc20B
	}
	receiver := vUserC.String()
	validReceiver := !sym.Bool("receiver-is-no-address")
	if !validReceiver {
		receiver = "not an address"
	}
	claim := &types.MsgSendToPalomaClaim{EventNonce: 1, SkywayNonce: 1, EthBlockHeight: 10, TokenContract: token, Amount: amt,
		EthereumSender: "0x4444444444444444444444444444444444444444", PalomaReceiver: receiver, Orchestrator: vUserA.String(), ChainReferenceId: vChain, CompassId: "compass-1"}
	if err := env.K.processAttestation(env.Ctx, &types.Attestation{}, claim); err != nil {
		panic(err)
	}
	supply1 := env.Bank.Supply(vDenom)
	rcv1 := env.Bank.Balance(vUserC, vDenom)
	pool1 := env.Bank.ModuleBalance(distrtypes.ModuleName, vDenom)
	fp, err := env.K.DistKeeper.FeePool.Get(env.Ctx)
	if err != nil {
		panic(err)
	}
	recorded := fp.CommunityPool.AmountOf(vDenom).TruncateInt()
	toReceiver := sym.And(rcv1.Equal(rcv0.Add(amt)), sym.And(pool1.Equal(pool0), recorded.IsZero()))
	toPool := sym.And(rcv1.Equal(rcv0), sym.And(pool1.Equal(pool0.Add(amt)), recorded.Equal(amt)))
	untouched := sym.And(supply1.Equal(supply0), sym.And(rcv1.Equal(rcv0), sym.And(pool1.Equal(pool0), recorded.IsZero())))
	sym.Assert(env.Bank.ModuleBalance(types.ModuleName, vDenom).Equal(escrow0), "deposit-leaves-the-escrow-of-pending-transfers-alone")
	if failed {
		sym.Reach("deposit-refused")
		sym.Assert(untouched, "failed-deposit-changes-nothing")
	} else {
		sym.Reach("deposit-applied")
		sym.Assert(token == vErc20, "deposit-only-for-registered-tokens")
		sym.Assert(supply1.Equal(supply0.Add(amt)), "deposit-raises-supply-by-exactly-the-amount")
		if amt.IsPositive() {
			sym.Assert(sym.Or(toReceiver, toPool), "deposit-credits-receiver-or-community-pool-with-exactly-the-amount")
			if toPool {
				sym.Reach("deposit-to-community-pool")
			} else {
				sym.Assert(validReceiver, "only-a-valid-receiver-is-credited")
			}
		}
	}
	c01CheckInvariant(env, "escrow-equals-pending-after-deposit")
}

var _ = vEntry("VerifC01_Deposit", VerifC01_Deposit)
var _ = vEntry("VerifC01_Send", VerifC01_Send)
var _ = vEntry("VerifC01_Cancel", VerifC01_Cancel)
var _ = vEntry("VerifC01_Build", VerifC01_Build)
var _ = vEntry("VerifC01_BatchLife", VerifC01_BatchLife)
