package keeper

import (
	"context"

	sdkmath "cosmossdk.io/math"
	storetypes "cosmossdk.io/store/types"
	codectypes "github.com/cosmos/cosmos-sdk/codec/types"
	sdk "github.com/cosmos/cosmos-sdk/types"
	banktypes "github.com/cosmos/cosmos-sdk/x/bank/types"
	"github.com/palomachain/paloma/v2/x/tokenfactory/types"
	valsettypes "github.com/palomachain/paloma/v2/x/valset/types"
	"github.com/palomachain/paloma/v2/zzverif/models"
	"github.com/palomachain/paloma/v2/zzverif/sym"
)

// C16 — only a factory token's admin controls it; supply = mints - burns;
// creation only inside factory/<creator>/; native denoms untouched.
// All histories of L messages through the real msg server over a real keeper,
// the fake bank, principals {A,B}, with ghost bookkeeping.

type c16Pool struct{}

func (c16Pool) FundCommunityPool(ctx context.Context, amount sdk.Coins, sender sdk.AccAddress) error {
	return nil
}

var (
	c16A = sdk.AccAddress("user-a--------------")
	c16B = sdk.AccAddress("user-b--------------")
)

const c16Native = "ugrain"

func c16Meta(who sdk.AccAddress) valsettypes.MsgMetadata {
	return valsettypes.MsgMetadata{Creator: who.String(), Signers: []string{who.String()}}
}

func c16Steps() int {
	if sym.Tier() == "thorough" {
		return 3
	}
	return 2
}

// VerifC16_History: histories from the empty factory (thorough tier: 3 messages).
func VerifC16_History() { c16Run(false, c16Steps()) }

// VerifC16_FromCreated: histories starting after A created factory/A/sub1.
func VerifC16_FromCreated() { c16Run(true, c16Steps()) }

func c16Run(precreate bool, L int) {
	ctx, ms := models.NewContext(10)
	bank := models.NewBank(ms)
	cdc := models.Codec(func(r codectypes.InterfaceRegistry) { types.RegisterInterfaces(r) })
	k := NewKeeper(storetypes.NewKVStoreKey(types.StoreKey), models.Subspace(cdc, types.ModuleName), nil, bank, c16Pool{}, "authority")
	k.SetParams(ctx, types.Params{})
	srv := NewMsgServerImpl(k)

	who := []sdk.AccAddress{c16A, c16B}
	// native denom with supply, held by A
	nativeSupply := sdkmath.NewInt(1000)
	bank.SetMeta(c16Native)
	bank.SetSupply(c16Native, nativeSupply)
	bank.SetBalance(c16A, c16Native, nativeSupply)

	// candidate denominations: what each principal could create, a native one, a malformed one
	dA := "factory/" + c16A.String() + "/sub1"
	dB := "factory/" + c16B.String() + "/sub1"
	denoms := []string{dA, dB, c16Native, "factory/not-an-address/sub1"}

	// ghost state
	exists := map[string]bool{}
	admin := map[string]string{}
	ghost := map[string]sdkmath.Int{dA: sdkmath.ZeroInt(), dB: sdkmath.ZeroInt()}

	if precreate {
		res, err := srv.CreateDenom(ctx, &types.MsgCreateDenom{Subdenom: "sub1", Metadata: c16Meta(c16A)})
		if err != nil || res.NewTokenDenom != dA {
			panic("setup: create failed")
		}
		exists[dA] = true
		admin[dA] = c16A.String()
	}
	for step := 0; step < L; step++ {
		p := sym.Choice("principal", 2)
		me := who[p]
		switch sym.Choice("op", 5) {
		case 0: // create
			subs := []string{"sub1", c16Native}
			if L < 3 { // (2-message histories: also a sub-denomination that tries to climb out of the namespace)
				subs = append(subs, "../x")
			}
			sub := subs[sym.Choice("sub", len(subs))]
			cctx, commit := ctx.CacheContext()
			snap := bank.Snapshot()
			res, err := srv.CreateDenom(cctx, &types.MsgCreateDenom{Subdenom: sub, Metadata: c16Meta(me)})
			if err == nil {
				commit()
				sym.Reach("create-ok")
				want := "factory/" + me.String() + "/" + sub
				sym.Assert(res.NewTokenDenom == want, "created-denom-in-creators-namespace")
				sym.Assert(!exists[res.NewTokenDenom], "existing-denom-never-created-again")
				sym.Assert(sub != c16Native, "native-subdenom-refused")
				exists[res.NewTokenDenom] = true
				admin[res.NewTokenDenom] = me.String()
				if _, ok := ghost[res.NewTokenDenom]; !ok {
					ghost[res.NewTokenDenom] = sdkmath.ZeroInt()
				}
			} else {
				sym.Reach("create-rejected")
			}
			sym.Assert(bank.Unchanged(snap), "create-moves-no-coins")
		case 1, 2: // mint / burn
			isMint := sym.Bool("mint")
			d := denoms[sym.Choice("denom", len(denoms))]
			amt := sdkmath.NewIntFromBigInt(sym.BigInt("amount", 128))
			coin := sdk.Coin{Denom: d, Amount: amt}
			balBefore := bank.Balance(me, d)
			otherBefore := bank.Balance(who[1-p], d)
			supBefore := bank.Supply(d)
			natBefore := bank.Supply(c16Native)
			cctx, commit := ctx.CacheContext()
			snap := bank.Snapshot()
			var err error
			// the transaction may be signed by a fee grantee of the creator (the ante
			// decorator accepts that); the creator remains the acting principal
			meta := c16Meta(me)
			if L < 3 && sym.Bool("signed-by-grantee") { // (2-message histories only; the 3-message tier is at its size limit)
				meta.Signers = []string{who[1-p].String()}
			}
			if isMint {
				_, err = srv.Mint(cctx, &types.MsgMint{Amount: coin, Metadata: meta})
			} else {
				_, err = srv.Burn(cctx, &types.MsgBurn{Amount: coin, Metadata: meta})
			}
			if err != nil {
				sym.Reach("mintburn-rejected")
				// bank effects of a failed message are reverted with the tx; a failing bank call itself has no effect
				if !bank.Unchanged(snap) {
					sym.Reach("mintburn-failed-midway")
				}
				bank.Restore(snap)
				continue
			}
			commit()
			sym.Reach("mintburn-ok")
			sym.Assert(exists[d], "only-factory-created-denoms-minted-or-burned")
			sym.Assert(admin[d] == me.String(), "mint-burn-only-by-current-admin")
			sym.Assert(bank.Balance(who[1-p], d).Equal(otherBefore), "mint-burn-touches-only-admin-balance")
			if isMint {
				sym.Assert(bank.Balance(me, d).Equal(balBefore.Add(amt)), "mint-credits-exactly-amount")
				sym.Assert(bank.Supply(d).Equal(supBefore.Add(amt)), "mint-raises-supply-by-amount")
				ghost[d] = ghost[d].Add(amt)
			} else {
				sym.Assert(bank.Balance(me, d).Equal(balBefore.Sub(amt)), "burn-debits-exactly-amount")
				sym.Assert(bank.Supply(d).Equal(supBefore.Sub(amt)), "burn-lowers-supply-by-amount")
				ghost[d] = ghost[d].Sub(amt)
			}
			sym.Assert(bank.Supply(d).Equal(ghost[d]), "supply-equals-mints-minus-burns")
			sym.Assert(bank.Supply(c16Native).Equal(natBefore), "native-supply-untouched")
			sym.Assert(bank.ModuleBalance(types.ModuleName, d).IsZero(), "module-account-keeps-nothing")
		case 3: // change admin
			d := denoms[sym.Choice("denom", len(denoms))]
			// hand over to A or B, or renounce control altogether (empty admin)
			na := []string{c16A.String(), c16B.String(), ""}[sym.Choice("new-admin", 3)]
			cctx, commit := ctx.CacheContext()
			_, err := srv.ChangeAdmin(cctx, &types.MsgChangeAdmin{Denom: d, NewAdmin: na, Metadata: c16Meta(me)})
			if err == nil {
				commit()
				sym.Reach("change-admin-ok")
				sym.Assert(exists[d], "admin-change-only-on-factory-denoms")
				sym.Assert(admin[d] == me.String(), "admin-change-only-by-current-admin")
				admin[d] = na
			} else {
				sym.Reach("change-admin-rejected")
			}
		case 4: // set metadata
			d := denoms[sym.Choice("denom", 3)] // well-formed candidates
			md := banktypes.Metadata{Base: d, Display: d, Name: "n", Symbol: "S", DenomUnits: []*banktypes.DenomUnit{{Denom: d, Exponent: 0}}}
			cctx, commit := ctx.CacheContext()
			_, err := srv.SetDenomMetadata(cctx, &types.MsgSetDenomMetadata{DenomMetadata: md, Metadata: c16Meta(me)})
			if err == nil {
				commit()
				sym.Reach("set-metadata-ok")
				sym.Assert(exists[d], "metadata-only-on-factory-denoms")
				sym.Assert(admin[d] == me.String(), "metadata-only-by-current-admin")
			} else {
				sym.Reach("set-metadata-rejected")
			}
		}
	}
}

var VerifEntries = map[string]func(){
	"VerifC16_History":     VerifC16_History,
	"VerifC16_FromCreated": VerifC16_FromCreated,
}
