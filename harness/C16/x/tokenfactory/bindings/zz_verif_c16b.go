package bindings

import (
	"context"

	"cosmossdk.io/log"
	sdkmath "cosmossdk.io/math"
	storetypes "cosmossdk.io/store/types"
	codectypes "github.com/cosmos/cosmos-sdk/codec/types"
	"github.com/cosmos/cosmos-sdk/runtime"
	sdk "github.com/cosmos/cosmos-sdk/types"
	authtypes "github.com/cosmos/cosmos-sdk/x/auth/types"
	bankkeeper "github.com/cosmos/cosmos-sdk/x/bank/keeper"
	banktypes "github.com/cosmos/cosmos-sdk/x/bank/types"
	bindingstypes "github.com/palomachain/paloma/v2/x/tokenfactory/bindings/types"
	tokenfactorykeeper "github.com/palomachain/paloma/v2/x/tokenfactory/keeper"
	tokenfactorytypes "github.com/palomachain/paloma/v2/x/tokenfactory/types"
	"github.com/palomachain/paloma/v2/zzverif/models"
	"github.com/palomachain/paloma/v2/zzverif/sym"
)

// C16 (CosmWasm bindings) — a contract reaches the token factory through
// customMessenger.DispatchMsg; the same ownership rules must hold there:
// only the admin of a factory denom mints, burns, re-assigns it or sets its
// bank metadata; no message touches a denom other than the one it names, and
// never a denom the calling contract does not administer (in particular a
// native denom).
//
// The bindings take the concrete SDK bank keeper, so this harness runs the
// real x/bank BaseKeeper (collections over the in-memory multistore) with a
// fake account keeper; the token factory keeper uses the same bank.

type c16bAccounts struct {
	*models.Accounts
	perms map[string][]string
}

func (a c16bAccounts) GetAllAccounts(ctx context.Context) []sdk.AccountI { return nil }
func (a c16bAccounts) IterateAccounts(ctx context.Context, process func(sdk.AccountI) bool) {
}
func (a c16bAccounts) ValidatePermissions(macc sdk.ModuleAccountI) error { return nil }
func (a c16bAccounts) GetModuleAddress(moduleName string) sdk.AccAddress {
	if _, ok := a.perms[moduleName]; !ok {
		return nil
	}
	return authtypes.NewModuleAddress(moduleName)
}

func (a c16bAccounts) GetModuleAddressAndPermissions(moduleName string) (sdk.AccAddress, []string) {
	p, ok := a.perms[moduleName]
	if !ok {
		return nil, nil
	}
	return authtypes.NewModuleAddress(moduleName), p
}

func (a c16bAccounts) GetModuleAccountAndPermissions(ctx context.Context, moduleName string) (sdk.ModuleAccountI, []string) {
	p, ok := a.perms[moduleName]
	if !ok {
		return nil, nil
	}
	addr := authtypes.NewModuleAddress(moduleName)
	if acc := a.Accounts.GetAccount(ctx, addr); acc != nil {
		if m, ok := acc.(sdk.ModuleAccountI); ok {
			return m, p
		}
	}
	m := authtypes.NewEmptyModuleAccount(moduleName, p...)
	a.Accounts.SetAccount(ctx, a.Accounts.NewAccount(ctx, m))
	return m, p
}

func (a c16bAccounts) GetModuleAccount(ctx context.Context, moduleName string) sdk.ModuleAccountI {
	m, _ := a.GetModuleAccountAndPermissions(ctx, moduleName)
	return m
}

func (a c16bAccounts) SetModuleAccount(ctx context.Context, macc sdk.ModuleAccountI) {
	a.Accounts.SetAccount(ctx, macc)
}

func (a c16bAccounts) GetModulePermissions() map[string]authtypes.PermissionsForAddress {
	out := map[string]authtypes.PermissionsForAddress{}
	for n, p := range a.perms {
		out[n] = authtypes.NewPermissionsForAddress(n, p)
	}
	return out
}

type c16bPool struct{}

func (c16bPool) FundCommunityPool(ctx context.Context, amount sdk.Coins, sender sdk.AccAddress) error {
	return nil
}

var (
	c16bA = sdk.AccAddress("contract-a----------")
	c16bB = sdk.AccAddress("contract-b----------")
)

const c16bNative = "ugrain"

// c16bObs is everything the property speaks about for one denomination.
type c16bObs struct {
	supply   sdkmath.Int
	meta     string
	hasMeta  bool
	admin    string
	hasAdmin bool
	balA     sdkmath.Int
	balB     sdkmath.Int
	balMod   sdkmath.Int
}

func c16bObserve(ctx sdk.Context, bank *bankkeeper.BaseKeeper, k *tokenfactorykeeper.Keeper, d string) c16bObs {
	o := c16bObs{
		supply: bank.GetSupply(ctx, d).Amount, balA: bank.GetBalance(ctx, c16bA, d).Amount, balB: bank.GetBalance(ctx, c16bB, d).Amount,
		balMod: bank.GetBalance(ctx, authtypes.NewModuleAddress(tokenfactorytypes.ModuleName), d).Amount,
	}
	md, ok := bank.GetDenomMetaData(ctx, d)
	o.hasMeta = ok
	if ok {
		o.meta = md.Base + "|" + md.Display + "|" + md.Description + "|" + md.Name + "|" + md.Symbol
		for _, u := range md.DenomUnits {
			o.meta += "|" + u.Denom
		}
	}
	// (a denom that was never created reads as an empty authority record)
	if am, err := k.GetAuthorityMetadata(ctx, d); err == nil && am.Admin != "" {
		o.admin = am.Admin
		o.hasAdmin = true
	}
	return o
}

func (o c16bObs) sameAs(p c16bObs) bool {
	return o.supply.Equal(p.supply) && o.meta == p.meta && o.hasMeta == p.hasMeta && o.admin == p.admin && o.hasAdmin == p.hasAdmin &&
		o.balA.Equal(p.balA) && o.balB.Equal(p.balB) && o.balMod.Equal(p.balMod)
}

func c16bSteps() int {
	if sym.Tier() == "thorough" {
		return 2
	}
	return 1
}

func VerifC16_Bindings() {
	ctx, ms := models.NewContext(10)
	cdc := models.Codec(func(r codectypes.InterfaceRegistry) {
		tokenfactorytypes.RegisterInterfaces(r)
		authtypes.RegisterInterfaces(r)
		banktypes.RegisterInterfaces(r)
	})
	accs := c16bAccounts{Accounts: models.NewAccounts(ms, cdc), perms: map[string][]string{
		tokenfactorytypes.ModuleName: {authtypes.Minter, authtypes.Burner},
		"mint":                       {authtypes.Minter},
	}}
	authority := authtypes.NewModuleAddress("gov").String()
	bank := bankkeeper.NewBaseKeeper(cdc, runtime.NewKVStoreService(storetypes.NewKVStoreKey(banktypes.StoreKey)), accs, map[string]bool{}, authority, log.NewNopLogger())
	if err := bank.SetParams(ctx, banktypes.DefaultParams()); err != nil {
		panic(err)
	}
	k := tokenfactorykeeper.NewKeeper(storetypes.NewKVStoreKey(tokenfactorytypes.StoreKey), models.Subspace(cdc, tokenfactorytypes.ModuleName), accs, bank, c16bPool{}, authority)
	k.SetParams(ctx, tokenfactorytypes.Params{})
	msgr := NewMessenger(&bank, &k)

	// a native denom with metadata and supply, held by A
	native := sdk.NewCoins(sdk.NewCoin(c16bNative, sdkmath.NewInt(1000)))
	if err := bank.MintCoins(ctx, "mint", native); err != nil {
		panic(err)
	}
	if err := bank.SendCoinsFromModuleToAccount(ctx, "mint", c16bA, native); err != nil {
		panic(err)
	}
	bank.SetDenomMetaData(ctx, banktypes.Metadata{Base: c16bNative, Display: c16bNative, Description: "native", DenomUnits: []*banktypes.DenomUnit{{Denom: c16bNative}}})

	who := []sdk.AccAddress{c16bA, c16bB}
	dA := "factory/" + c16bA.String() + "/sub1"
	dB := "factory/" + c16bB.String() + "/sub1"
	denoms := []string{dA, dB, c16bNative}
	ghost := map[string]sdkmath.Int{dA: sdkmath.ZeroInt(), dB: sdkmath.ZeroInt()}

	// A's denom exists from the start, B's may (so that few steps reach every rule)
	if _, _, _, err := msgr.DispatchMsg(ctx, c16bA, "", bindingstypes.Message{CreateDenom: &bindingstypes.CreateDenom{Subdenom: "sub1"}}); err != nil {
		panic(err)
	}
	// ... and has been minted: 5 to A, 3 to B
	for i, n := range []int64{5, 3} {
		if _, _, _, err := msgr.DispatchMsg(ctx, c16bA, "", bindingstypes.Message{MintTokens: &bindingstypes.MintTokens{Denom: dA, Amount: sdkmath.NewInt(n), MintToAddress: who[i].String()}}); err != nil {
			panic(err)
		}
		ghost[dA] = ghost[dA].Add(sdkmath.NewInt(n))
	}
	if sym.Bool("b-created-too") {
		if _, _, _, err := msgr.DispatchMsg(ctx, c16bB, "", bindingstypes.Message{CreateDenom: &bindingstypes.CreateDenom{Subdenom: "sub1"}}); err != nil {
			panic(err)
		}
	}

	for step := 0; step < c16bSteps(); step++ {
		p := sym.Choice("contract", 2)
		me := who[p]
		before := map[string]c16bObs{}
		for _, d := range denoms {
			before[d] = c16bObserve(ctx, &bank, &k, d)
		}
		var msg bindingstypes.Message
		target := ""               // the denom the message names
		delta := sdkmath.ZeroInt() // signed supply change requested
		mintTo := me
		op := sym.Choice("op", 5)
		switch op {
		case 0:
			created := "factory/" + me.String() + "/sub1"
			cd := &bindingstypes.CreateDenom{Subdenom: "sub1"}
			if sym.Bool("with-metadata") {
				base := []string{"", created, dA, dB, c16bNative}[sym.Choice("metadata-base", 5)]
				cd.Metadata = &bindingstypes.Metadata{Base: base, Display: base, Name: "n", Symbol: "S", Description: "by " + me.String(), DenomUnits: []bindingstypes.DenomUnit{{Denom: base}}}
				if base == "" {
					cd.Metadata.DenomUnits = []bindingstypes.DenomUnit{{Denom: created}}
					cd.Metadata.Display = created
				}
			}
			msg.CreateDenom = cd
			target = created
		case 1:
			target = denoms[sym.Choice("denom", 3)]
			amt := sdkmath.NewIntFromBigInt(sym.BigInt("amount", 64))
			mintTo = who[sym.Choice("mint-to", 2)]
			msg.MintTokens = &bindingstypes.MintTokens{Denom: target, Amount: amt, MintToAddress: mintTo.String()}
			delta = amt
		case 2:
			target = denoms[sym.Choice("denom", 3)]
			amt := sdkmath.NewIntFromBigInt(sym.BigInt("amount", 64))
			from := []string{"", me.String(), who[1-p].String()}[sym.Choice("burn-from", 3)]
			msg.BurnTokens = &bindingstypes.BurnTokens{Denom: target, Amount: amt, BurnFromAddress: from}
			delta = amt.Neg()
		case 3:
			target = denoms[sym.Choice("denom", 3)]
			msg.ChangeAdmin = &bindingstypes.ChangeAdmin{Denom: target, NewAdminAddress: who[sym.Choice("new-admin", 2)].String()}
		case 4:
			target = denoms[sym.Choice("denom", 3)]
			base := []string{"", dA, dB, c16bNative}[sym.Choice("metadata-base", 4)]
			shown := base
			if shown == "" {
				shown = target
			}
			msg.SetMetadata = &bindingstypes.SetMetadata{Denom: target, Metadata: bindingstypes.Metadata{Base: base, Display: shown, Name: "n", Symbol: "S", Description: "by " + me.String(), DenomUnits: []bindingstypes.DenomUnit{{Denom: shown}}}}
		}
		cctx, commit := ctx.CacheContext()
		_, _, _, err := msgr.DispatchMsg(cctx, me, "", msg)
		if err == nil {
			commit()
			sym.Reach([]string{"create-ok", "mint-ok", "burn-ok", "change-admin-ok", "set-metadata-ok"}[op])
		} else {
			sym.Reach([]string{"create-rejected", "mint-rejected", "burn-rejected", "change-admin-rejected", "set-metadata-rejected"}[op])
		}
		for _, d := range denoms {
			b := before[d]
			a := c16bObserve(ctx, &bank, &k, d)
			if err != nil {
				sym.Assert(a.sameAs(b), "rejected-contract-message-changes-nothing")
				continue
			}
			if d != target {
				sym.Assert(a.sameAs(b), "contract-message-touches-only-the-denom-it-names")
				continue
			}
			// d is the denom the accepted message names
			if op == 0 {
				sym.Assert(!b.hasAdmin, "existing-denom-never-created-again")
				sym.Assert(a.hasAdmin && a.admin == me.String(), "creator-contract-becomes-admin")
				sym.Assert(a.supply.Equal(b.supply) && a.balA.Equal(b.balA) && a.balB.Equal(b.balB), "create-moves-no-coins")
				continue
			}
			sym.Assert(d != c16bNative, "native-denom-never-touched-by-a-contract")
			sym.Assert(b.hasAdmin && b.admin == me.String(), "only-the-admin-contract-controls-a-factory-denom")
			if op != 3 {
				sym.Assert(a.admin == b.admin, "admin-changes-only-by-change-admin")
			}
			if op != 4 {
				sym.Assert(a.meta == b.meta, "metadata-changes-only-by-set-metadata")
			}
			sym.Assert(a.supply.Equal(b.supply.Add(delta)), "supply-moves-by-exactly-the-requested-amount")
			ghost[d] = ghost[d].Add(delta)
			sym.Assert(a.supply.Equal(ghost[d]), "supply-equals-mints-minus-burns")
			sym.Assert(a.balMod.IsZero(), "module-account-keeps-nothing")
			wantA, wantB := b.balA, b.balB
			if op == 1 {
				if mintTo.Equals(c16bA) {
					wantA = wantA.Add(delta)
				} else {
					wantB = wantB.Add(delta)
				}
			}
			if op == 2 {
				if p == 0 {
					wantA = wantA.Add(delta)
				} else {
					wantB = wantB.Add(delta)
				}
			}
			sym.Assert(a.balA.Equal(wantA) && a.balB.Equal(wantB), "mint-credits-the-named-recipient-burn-debits-the-contract-only")
		}
	}
}

var VerifEntries = map[string]func(){
	"VerifC16_Bindings": VerifC16_Bindings,
}
