package valset

import (
	"golang.org/x/mod/semver"
	"time"

	sdkmath "cosmossdk.io/math"
	sdk "github.com/cosmos/cosmos-sdk/types"
	stakingtypes "github.com/cosmos/cosmos-sdk/x/staking/types"
	"github.com/palomachain/paloma/v2/x/valset/keeper"
	"github.com/palomachain/paloma/v2/x/valset/types"
	"github.com/palomachain/paloma/v2/zzverif/sym"
)

// C12 — keep-alive jailing. Consecutive real end-blocks (AppModule.EndBlock)
// at symbolic heights over three validators, the first of which has fully
// symbolic address bytes, with keep-alives, unjail events and arbitrary expiry
// heights. Ghost state tracks who was unjailed at the previous block and when
// each validator really became unjailed.

const (
	c12TTL   = 2000
	c12Grace = 30
)

func c12Addr0() sdk.ValAddress {
	if sym.Tier() == "thorough" {
		a := []byte("validator-0000000001")
		b := sym.Bytes("addr", 3)
		a[3], a[10], a[19] = b[0], b[1], b[2]
		// validator addresses are distinct (the last byte is what tells the fixed ones apart)
		sym.Assume(!(b[0] == 'i' && b[1] == '0' && (b[2] == '2' || b[2] == '3' || b[2] == '4')))
		return sdk.ValAddress(a)
	}
	a := []byte("validator-0000000001")
	a[7] = sym.Byte("addr")
	return sdk.ValAddress(a)
}

func VerifC12_Liveness() {
	// heights come from an alphabet covering the residue classes the end-blocker
	// distinguishes (multiples of 10 and 50, their neighbours); expiry heights
	// stay fully symbolic
	heights := []int64{59, 60, 61, 99, 100, 2149, 2150}
	h := heights[sym.Choice("height", len(heights))]
	env := keeper.NewVEnv(h)
	am := AppModule{keeper: *env.K}
	if err := env.K.SetPigeonRequirements(env.Ctx, &types.PigeonRequirements{MinVersion: "v1.12.0"}); err != nil {
		panic(err)
	}
	vals := []sdk.ValAddress{c12Addr0(), keeper.VVals[1], keeper.VVals[2]}
	// stakes from a small alphabet (the 25% rule is exact on these)
	tok := []int64{1_000_000, 1_000_000, 8_000_000}
	// the staking module may yield the large validator before or after the small ones
	order := []int{0, 1, 2}
	if sym.Bool("large-validator-iterated-first") {
		order = []int{2, 0, 1}
	}
	v1Unbonding := sym.Bool("v1-unbonding")
	for _, i := range order {
		status := stakingtypes.Bonded
		if i == 1 && v1Unbonding {
			status = stakingtypes.Unbonding
		}
		env.Staking.Add(vals[i], status, false, sdkmath.NewInt(tok[i]), tok[i]/1_000_000)
	}
	// validator 0 and 1 may hold a keep-alive taken at an earlier height
	aliveUntil := map[int]int64{}
	for i := 0; i < 2; i++ {
		if sym.Bool("has-keepalive") {
			at := sym.IntRange("keepalive-height", 1, 1_000_000)
			sym.Assume(at <= h)
			if err := env.K.KeepValidatorAlive(env.Ctx.WithBlockHeight(at), vals[i], "v1.12.0"); err != nil {
				panic(err)
			}
			aliveUntil[i] = at + c12TTL
		}
	}
	// validator 2 (80% of the power) never sends keep-alives: protected by the 25% rule

	prevUnjailed := map[int]bool{}
	graceStart := map[int]int64{}
	L := 2
	if sym.Tier() == "thorough" {
		L = 3
	}
	// the first end-block is a warm-up at height h; the chain then runs on unchanged
	// for `gap` blocks (every block in between repeats the same end-block on the
	// same state), after which L consecutive end-blocks are examined
	gaps := []int64{1, 9, 10, 11, 31, 40, 2001}
	gap := gaps[sym.Choice("gap", len(gaps))]
	for step := 0; step <= L; step++ {
		cur := h
		if step > 0 {
			cur = h + gap + int64(step-1)
		}
		env.Ctx = env.Ctx.WithBlockHeight(cur)
		am.keeper = *env.K
		// events before the end of this block
		if step > 1 {
			switch sym.Choice("event", 3) {
			case 1: // a jailed validator gets unjailed
				for i := 0; i < 2; i++ {
					if sv := env.Staking.Find(vals[i]); sv.Jailed {
						sv.Jailed = false
						sym.Reach("unjailed")
						break
					}
				}
			case 2: // validator 0 sends a keep-alive with an old relayer
				err := env.K.KeepValidatorAlive(env.Ctx, vals[0], "v1.11.9")
				sym.Assert(err != nil, "outdated-relayer-keepalive-refused")
			}
		}
		jailedBefore := [3]bool{}
		for i := range vals {
			jailedBefore[i] = env.Staking.Find(vals[i]).Jailed
		}
		err := am.EndBlock(env.Ctx)
		sym.Assert(err == nil, "endblock-returns-no-error")
		sym.Reach("endblock")

		// ghost: grace periods start exactly when a validator newly appears in the unjailed set
		for i := range vals {
			unj := !jailedBefore[i]
			if unj && !prevUnjailed[i] {
				graceStart[i] = cur
			}
		}
		for i := range vals {
			if !jailedBefore[i] {
				got, ok := env.GraceStart(vals[i])
				sym.Assert(ok && int64(got) == graceStart[i], "grace-period-only-for-newly-unjailed")
			}
		}
		// liveness sweep expectations
		if cur > 50 && cur%10 == 0 {
			sym.Reach("sweep")
			for i := 0; i < 2; i++ {
				if jailedBefore[i] {
					continue
				}
				until, has := aliveUntil[i]
				alive := has && cur < until
				inGrace := cur-graceStart[i] <= c12Grace
				now := env.Staking.Find(vals[i]).Jailed
				if alive {
					sym.Assert(!now, "alive-validator-never-jailed")
				} else if !inGrace {
					sym.Reach("expired-outside-grace")
					// power 1 of 10 (or of 9/…): far below 25%, and never the last validator
					sym.Assert(now, "expired-validator-jailed-at-next-sweep")
				} else {
					sym.Assert(!now, "no-jailing-inside-grace-period")
				}
			}
			sym.Assert(!env.Staking.Find(vals[2]).Jailed, "over-25-percent-validator-protected")
		} else {
			for i := range vals {
				sym.Assert(env.Staking.Find(vals[i]).Jailed == jailedBefore[i], "no-jailing-outside-sweep-heights")
			}
		}
		for i := range vals {
			prevUnjailed[i] = !jailedBefore[i]
		}
	}
}

// VerifC12_Sentences: repeated jailings lengthen the sentence 1m,5m,15m,1h,24h
// and reset after good behaviour; the minimum relayer version never decreases.
func VerifC12_Sentences() {
	env := keeper.NewVEnv(100)
	for i, v := range keeper.VVals[:3] {
		_ = i
		env.Staking.Add(v, stakingtypes.Bonded, false, sdkmath.NewInt(1_000_000), 1)
	}
	env.Staking.Add(keeper.VVals[3], stakingtypes.Bonded, false, sdkmath.NewInt(3_000_000), 3)
	v := keeper.VVals[0]
	schedule := []int64{60, 300, 900, 3600, 86400}
	t0 := env.Ctx.BlockTime()
	now := t0
	prev := int64(0)
	n := 3
	if sym.Tier() == "thorough" {
		n = 6
	}
	for i := 0; i < n; i++ {
		gap := sym.IntRange("gap-seconds", 0, 200_000)
		now = now.Add(sdkDuration(gap))
		env.Ctx = env.Ctx.WithBlockTime(now)
		env.Staking.Find(v).Jailed = false
		err := env.K.Jail(env.Ctx, v, "test")
		sym.Assert(err == nil, "jail-succeeds")
		sym.Reach("jailed")
		until := env.Slashing.UntilCalls[len(env.Slashing.UntilCalls)-1]
		got := until.Unix() - now.Unix()
		// expected sentence
		want := schedule[0]
		if i > 0 {
			threshold := int64(1800)
			if prev+prev/20 > threshold {
				threshold = prev + prev/20
			}
			if gap < threshold {
				want = schedule[len(schedule)-1]
				for _, s := range schedule {
					if prev < s {
						want = s
						break
					}
				}
			}
		}
		sym.Assert(got == want, "sentence-follows-schedule")
		prev = got
	}
}

func VerifC12_MinVersion() {
	env := keeper.NewVEnv(100)
	// the first step may be missing: a chain whose genesis stored no requirement runs
	// with the built-in default minimum
	versions := []string{"v1.0.0", "v1.11.3", "v1.12.0", "v2.0.0", "v2.1.0"}
	effective := "v1.11.3" // the default while nothing is stored
	if sym.Bool("a-requirement-is-already-stored") {
		a := 1 + sym.Choice("first", 4)
		if err := env.K.SetPigeonRequirements(env.Ctx, &types.PigeonRequirements{MinVersion: versions[a]}); err != nil {
			panic(err)
		}
		effective = versions[a]
	} else {
		sym.Reach("default-minimum-in-force")
	}
	before, _ := env.K.PigeonRequirements(env.Ctx)
	sym.Assert(before.MinVersion == effective, "effective-minimum-is-the-stored-one-or-the-default")
	b := sym.Choice("second", 5)
	err := env.K.SetPigeonRequirements(env.Ctx, &types.PigeonRequirements{MinVersion: versions[b]})
	req, _ := env.K.PigeonRequirements(env.Ctx)
	sym.Reach("min-version")
	if semver.Compare(versions[b], effective) < 0 {
		sym.Assert(err != nil && req.MinVersion == effective, "minimum-version-never-decreases")
	} else {
		sym.Assert(req.MinVersion == versions[b], "minimum-version-raised")
	}
	// a relayer older than the minimum in force is refused
	env.Staking.Add(keeper.VVals[0], stakingtypes.Bonded, false, sdkmath.NewInt(1_000_000), 1)
	kerr := env.K.KeepValidatorAlive(env.Ctx, keeper.VVals[0], "v1.5.0")
	if semver.Compare("v1.5.0", req.MinVersion) < 0 {
		sym.Assert(kerr != nil, "outdated-relayer-is-refused")
	}
}

// VerifC12_Protection: the jailing protection applies to validators holding MORE
// than 25% of the bonded, unjailed power (and to the last active validator) and
// to nobody else — in particular not to a validator holding exactly a quarter.
func VerifC12_Protection() {
	env := keeper.NewVEnv(100)
	n := 4
	powers := make([]int64, n)
	total := int64(0)
	for i := 0; i < n; i++ {
		powers[i] = []int64{1, 2, 3}[sym.Choice("power", 3)]
		env.Staking.Add(keeper.VVals[i], stakingtypes.Bonded, false, sdkmath.NewInt(powers[i]*1_000_000), powers[i])
		total += powers[i]
	}
	t := sym.Choice("target", n)
	err := env.K.Jail(env.Ctx, keeper.VVals[t], "missed keep-alive")
	jailed := env.Staking.Find(keeper.VVals[t]).Jailed
	protected := 4*powers[t] > total
	if protected {
		sym.Reach("protected")
		sym.Assert(err != nil && !jailed, "validator-above-a-quarter-of-the-power-is-not-jailed")
	} else {
		sym.Reach("not-protected")
		sym.Assert(err == nil && jailed, "validator-at-or-below-a-quarter-of-the-power-is-jailed")
	}
	for i := 0; i < n; i++ {
		if i != t {
			sym.Assert(!env.Staking.Find(keeper.VVals[i]).Jailed, "jailing-one-validator-jails-nobody-else")
		}
	}
}

var VerifEntries = map[string]func(){
	"VerifC12_Protection": VerifC12_Protection,
	"VerifC12_Liveness":   VerifC12_Liveness,
	"VerifC12_Sentences":  VerifC12_Sentences,
	"VerifC12_MinVersion": VerifC12_MinVersion,
}

func sdkDuration(seconds int64) time.Duration { return time.Duration(seconds) * time.Second }
