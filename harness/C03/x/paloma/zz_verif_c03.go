package paloma

import (
	sdk "github.com/cosmos/cosmos-sdk/types"
	"github.com/palomachain/paloma/v2/x/paloma/types"
	valsettypes "github.com/palomachain/paloma/v2/x/valset/types"
	"github.com/palomachain/paloma/v2/zzverif/models"
	"github.com/palomachain/paloma/v2/zzverif/sym"
	protov2 "google.golang.org/protobuf/proto"
)

// C03 (layer 1) — the signature-authorisation ante decorator lets a message
// with metadata through only if one of its signers is metadata.creator or
// holds a fee grant FROM the creator.

var c03Principals = []sdk.AccAddress{
	sdk.AccAddress("user-a--------------"),
	sdk.AccAddress("user-b--------------"),
	sdk.AccAddress("user-c--------------"),
}

// c03Tx is a fee transaction (as every real transaction is): it may name a fee
// granter, whose allowance to the fee payer the SDK checks elsewhere and which
// says nothing about who may act in a creator's name.
type c03Tx struct {
	msgs    []sdk.Msg
	granter sdk.AccAddress
	payer   sdk.AccAddress
}

func (t c03Tx) GetMsgs() []sdk.Msg                    { return t.msgs }
func (t c03Tx) GetMsgsV2() ([]protov2.Message, error) { return nil, nil }
func (t c03Tx) GetGas() uint64                        { return 200000 }
func (t c03Tx) GetFee() sdk.Coins                     { return nil }
func (t c03Tx) FeePayer() []byte                      { return t.payer }
func (t c03Tx) FeeGranter() []byte                    { return t.granter }

func VerifC03_Ante() {
	ctx, ms := models.NewContext(10)
	fg := models.NewFeegrant(ms)
	// arbitrary grant table over the three principals
	var grant [3][3]bool
	for g := 0; g < 3; g++ {
		for e := 0; e < 3; e++ {
			if g != e && sym.Bool("grant") {
				grant[g][e] = true
				fg.SetGrant(c03Principals[g], c03Principals[e])
			}
		}
	}
	// a transaction of 1..2 messages, each with its own claimed creator and signer list
	nMsgs := 1 + sym.Choice("messages", 2)
	var msgs []sdk.Msg
	authorised := true
	for k := 0; k < nMsgs; k++ {
		creator := sym.Choice("creator", 3)
		nSigners := 1
		if nMsgs == 1 {
			nSigners = 1 + sym.Choice("signers", 2)
		}
		var signerStrs []string
		ok := false
		for i := 0; i < nSigners; i++ {
			s := sym.Choice("signer", 3)
			signerStrs = append(signerStrs, c03Principals[s].String())
			if s == creator || grant[creator][s] {
				ok = true
			}
		}
		if !ok {
			authorised = false
		}
		msgs = append(msgs, &types.MsgAddStatusUpdate{Status: "s", Metadata: valsettypes.MsgMetadata{Creator: c03Principals[creator].String(), Signers: signerStrs}})
	}
	passed := false
	d := NewVerifyAuthorisedSignatureDecorator(fg)
	tx := c03Tx{msgs: msgs, payer: c03Principals[1]}
	switch sym.Choice("fee-granter", 3) {
	case 1:
		tx.granter = c03Principals[0]
	case 2:
		tx.granter = c03Principals[2]
	}
	_, err := d.AnteHandle(ctx, tx, false, func(ctx sdk.Context, tx sdk.Tx, simulate bool) (sdk.Context, error) {
		passed = true
		return ctx, nil
	})
	if passed {
		sym.Reach("ante-passed")
		sym.Assert(err == nil, "pass-means-no-error")
		sym.Assert(authorised, "passes-only-with-creator-or-grantee-signature-on-every-message")
	} else {
		sym.Reach("ante-rejected")
		sym.Assert(!authorised, "authorised-signers-are-not-rejected")
	}
}

var VerifEntries = map[string]func(){
	"VerifC03_Ante": VerifC03_Ante,
}
