package keeper

import (
	"encoding/hex"

	sdkmath "cosmossdk.io/math"
	sdk "github.com/cosmos/cosmos-sdk/types"
	stakingtypes "github.com/cosmos/cosmos-sdk/x/staking/types"
	"github.com/ethereum/go-ethereum/crypto"
	"github.com/palomachain/paloma/v2/x/skyway/types"
	valsettypes "github.com/palomachain/paloma/v2/x/valset/types"
	"github.com/palomachain/paloma/v2/zzverif/models"
	"github.com/palomachain/paloma/v2/zzverif/sym"
)

// C03 (layer 2, skyway) — a transaction authorised by account A (metadata
// creator; the ante decorator ties the signers to it) must not record an
// oracle vote in the name of validator B named in the message body.

func c03Meta(v int) valsettypes.MsgMetadata {
	a := sdk.AccAddress(vVals[v]).String()
	return valsettypes.MsgMetadata{Creator: a, Signers: []string{a}}
}

func VerifC03_SkywayClaims() {
	env := NewVEnv(100)
	for _, v := range vVals[:3] {
		env.Staking.Add(v, stakingtypes.Bonded, false, sdkmath.NewInt(10), 10)
	}
	env.Staking.TotalPower = sdkmath.NewInt(30)
	srv := NewMsgServerImpl(env.K)
	creator := sym.Choice("creator", 2)
	named := sym.Choice("named-orchestrator", 2)
	orch := sdk.AccAddress(vVals[named]).String()
	nonceBefore := [2]uint64{}
	for i := 0; i < 2; i++ {
		nonceBefore[i], _ = env.K.GetLastSkywayNonceByValidator(env.Ctx, vVals[i], vChain)
	}
	var err error
	switch sym.Choice("claim-type", 3) {
	case 0:
		_, err = srv.SendToPalomaClaim(env.Ctx, &types.MsgSendToPalomaClaim{EventNonce: 1, SkywayNonce: 1, EthBlockHeight: 10, TokenContract: vErc20, Amount: sdkmath.NewInt(5),
			EthereumSender: "0x4444444444444444444444444444444444444444", PalomaReceiver: vUserA.String(), Orchestrator: orch, ChainReferenceId: vChain, CompassId: "compass-1", Metadata: c03Meta(creator)})
	case 1:
		_, err = srv.BatchSendToRemoteClaim(env.Ctx, &types.MsgBatchSendToRemoteClaim{EventNonce: 1, SkywayNonce: 1, EthBlockHeight: 10, BatchNonce: 1, TokenContract: vErc20,
			Orchestrator: orch, ChainReferenceId: vChain, CompassId: "compass-1", Metadata: c03Meta(creator)})
	case 2:
		_, err = srv.LightNodeSaleClaim(env.Ctx, &types.MsgLightNodeSaleClaim{EventNonce: 1, SkywayNonce: 1, EthBlockHeight: 10, ClientAddress: vUserA.String(), Amount: sdkmath.NewInt(5),
			SmartContractAddress: vErc20, Orchestrator: orch, ChainReferenceId: vChain, CompassId: "compass-1", Metadata: c03Meta(creator)})
	}
	if err != nil {
		sym.Reach("claim-rejected")
		return
	}
	sym.Reach("claim-accepted")
	// whose vote was recorded?
	for i := 0; i < 2; i++ {
		now, _ := env.K.GetLastSkywayNonceByValidator(env.Ctx, vVals[i], vChain)
		if i != creator {
			sym.Assert(now == nonceBefore[i], "claim-never-votes-in-the-name-of-another-validator")
		}
	}
}

// VerifC03_SkywayOwners: user-owned and validator-owned bridge state other
// than claims, and the governance-only handlers.
func VerifC03_SkywayOwners() {
	env := NewVEnv(100)
	for _, v := range vVals[:2] {
		env.Staking.Add(v, stakingtypes.Bonded, false, sdkmath.NewInt(10), 10)
	}
	env.Staking.TotalPower = sdkmath.NewInt(20)
	erc20, _ := types.NewEthAddress(vErc20)
	dest, _ := types.NewEthAddress("0x9999999999999999999999999999999999999999")
	if err := env.K.setDenomToERC20(env.Ctx, vChain, vDenom, *erc20); err != nil {
		panic(err)
	}
	env.Bank.SetBalance(vUserA, vDenom, sdkmath.NewInt(1000))
	env.Bank.SetBalance(vUserB, vDenom, sdkmath.NewInt(1000))
	env.Bank.SetSupply(vDenom, sdkmath.NewInt(2000))
	// one transfer in a batch (nonce 1), one more still pending in the pool, both owned by user A
	if _, err := env.K.AddToOutgoingPool(env.Ctx, vUserA, *dest, sdk.NewCoin(vDenom, sdkmath.NewInt(100)), vChain); err != nil {
		panic(err)
	}
	batch, err := env.K.BuildOutgoingTXBatch(env.Ctx, vChain, *erc20, OutgoingTxBatchSize)
	if err != nil || batch == nil {
		panic("setup: no batch")
	}
	pendingID, err := env.K.AddToOutgoingPool(env.Ctx, vUserA, *dest, sdk.NewCoin(vDenom, sdkmath.NewInt(50)), vChain)
	if err != nil {
		panic(err)
	}
	srv := NewMsgServerImpl(env.K)
	userMeta := func(a sdk.AccAddress) valsettypes.MsgMetadata {
		return valsettypes.MsgMetadata{Creator: a.String(), Signers: []string{a.String()}}
	}
	switch sym.Choice("message", 5) {
	case 0: // cancel somebody's pending transfer
		creator := vUserA
		if sym.Bool("creator-is-b") {
			creator = vUserB
		}
		balA := env.Bank.Balance(vUserA, vDenom)
		_, err := srv.CancelSendToRemote(env.Ctx, &types.MsgCancelSendToRemote{TransactionId: pendingID, Metadata: userMeta(creator)})
		if err == nil {
			sym.Reach("cancel-accepted")
			sym.Assert(creator.Equals(vUserA), "only-the-sender-cancels-a-pending-transfer")
		} else {
			sym.Reach("cancel-rejected")
			sym.Assert(env.Bank.Balance(vUserA, vDenom).Equal(balA), "rejected-cancel-moves-no-coins")
			un, _ := env.K.GetUnbatchedTransactions(env.Ctx)
			sym.Assert(len(un) == 1, "rejected-cancel-leaves-the-transfer-pending")
		}
	case 1: // gas estimate for the batch: recorded under the creator only
		creator := sym.Choice("creator", 2)
		signer := sym.Choice("eth-signer-named", 2)
		_, err := srv.EstimateBatchGas(env.Ctx, &types.MsgEstimateBatchGas{Nonce: batch.BatchNonce, TokenContract: vErc20, EthSigner: vEthAddrs[signer], Estimate: sym.Uint64("estimate"), Metadata: c03Meta(creator)})
		if err != nil {
			sym.Reach("estimate-rejected")
			return
		}
		sym.Reach("estimate-accepted")
		other, err := env.K.GetBatchGasEstimate(env.Ctx, batch.BatchNonce, *erc20, vVals[1-creator])
		sym.Assert(err == nil && other == nil, "batch-gas-estimate-recorded-under-the-creator-only")
	case 2: // batch confirmation: needs the named validator's own external-chain signature over the checkpoint
		creator := sym.Choice("creator", 2)
		named := sym.Choice("named-orchestrator", 2)
		ethNamed := sym.Choice("eth-signer-named", 2)
		ci, _ := env.EVM.GetChainInfo(env.Ctx, vChain)
		checkpoint, err := batch.GetCheckpoint(string(ci.SmartContractUniqueID))
		if err != nil {
			panic(err)
		}
		var sig []byte
		signedBy := -1
		switch sym.Choice("sig-kind", 3) {
		case 0:
			signedBy = sym.Choice("signed-by", 2)
			sig = models.SignDigest(signedBy, c03Digest(checkpoint))
		case 1: // a genuine signature of the named validator, but over something else
			sig = models.SignDigest(named, c03Digest(append([]byte{1}, checkpoint...)))
		case 2:
			sig = sym.Bytes("sig", 65)
		}
		_, err = srv.ConfirmBatch(env.Ctx, &types.MsgConfirmBatch{Nonce: batch.BatchNonce, TokenContract: vErc20, EthSigner: vEthAddrs[ethNamed],
			Orchestrator: sdk.AccAddress(vVals[named]).String(), Signature: hex.EncodeToString(sig), Metadata: c03Meta(creator)})
		if err != nil {
			sym.Reach("confirm-rejected")
			for i := 0; i < 2; i++ {
				c, _ := env.K.GetBatchConfirm(env.Ctx, batch.BatchNonce, *erc20, sdk.AccAddress(vVals[i]))
				sym.Assert(c == nil, "rejected-confirm-stores-nothing")
			}
			return
		}
		sym.Reach("confirm-accepted")
		sym.Assert(ethNamed == named, "confirm-names-the-validators-registered-key")
		if signedBy >= 0 {
			sym.Assert(signedBy == named, "confirm-carries-the-named-validators-own-signature")
		}
		stored, _ := env.K.GetBatchConfirm(env.Ctx, batch.BatchNonce, *erc20, sdk.AccAddress(vVals[named]))
		sym.Assert(stored != nil, "accepted-confirm-stored-under-the-named-validator")
		if stored != nil {
			sb, _ := hex.DecodeString(stored.Signature)
			a, err := types.EthAddressFromSignature(checkpoint, sb)
			sym.Assert(err == nil && a.GetAddress().Hex() == vEthAddrs[named], "stored-confirm-recovers-to-the-named-validators-key")
		}
		o, _ := env.K.GetBatchConfirm(env.Ctx, batch.BatchNonce, *erc20, sdk.AccAddress(vVals[1-named]))
		sym.Assert(o == nil, "confirm-of-another-validator-untouched")
	case 3: // parameter update: authority only
		auth := sym.Str("authority")
		before := env.MS.Clone()
		_, err := srv.UpdateParams(env.Ctx, &types.MsgUpdateParams{Authority: auth, Params: *types.DefaultParams()})
		if err == nil {
			sym.Reach("params-accepted")
			sym.Assert(auth == "authority", "only-the-authority-updates-params")
		} else {
			sym.Reach("params-rejected")
			sym.Assert(env.MS.Equal(before), "rejected-param-update-changes-nothing")
		}
	case 4: // nonce override proposal: authority only
		auth := sym.Str("authority")
		before, _ := env.K.GetLastObservedSkywayNonce(env.Ctx, vChain)
		msrv := srv.(*msgServer)
		_, err := msrv.OverrideNonceProposal(env.Ctx, &types.MsgNonceOverrideProposal{Metadata: valsettypes.MsgMetadata{Creator: auth, Signers: []string{auth}}, ChainReferenceId: vChain, Nonce: 77})
		if err == nil {
			sym.Reach("override-accepted")
			sym.Assert(auth == "authority", "only-the-authority-overrides-nonces")
		} else {
			sym.Reach("override-rejected")
			after, _ := env.K.GetLastObservedSkywayNonce(env.Ctx, vChain)
			sym.Assert(after == before, "rejected-override-changes-nothing")
		}
	}
}

func c03Digest(checkpoint []byte) []byte {
	return crypto.Keccak256(append([]byte("\x19Ethereum Signed Message:\n32"), checkpoint...))
}

var _ = vEntry("VerifC03_SkywayClaims", VerifC03_SkywayClaims)
var _ = vEntry("VerifC03_SkywayOwners", VerifC03_SkywayOwners)
