package keeper

import (
	storetypes "cosmossdk.io/store/types"
	"github.com/cosmos/cosmos-sdk/codec/address"
	sdk "github.com/cosmos/cosmos-sdk/types"
	distrkeeper "github.com/cosmos/cosmos-sdk/x/distribution/keeper"
	ibctransferkeeper "github.com/cosmos/ibc-go/v8/modules/apps/transfer/keeper"
	"github.com/palomachain/paloma/v2/util/eventbus"
	"github.com/palomachain/paloma/v2/x/skyway/types"
	"github.com/palomachain/paloma/v2/zzverif/models"
	"github.com/palomachain/paloma/v2/zzverif/sym"
)

// C08 (node restart) — a node that was restarted between two blocks must compute
// the same state as one that has been running since genesis. A process start is
// modelled as what app.go does: the module keepers are constructed anew
// (NewKeeper) over the existing stores and the process-global event bus starts
// empty; InitGenesis runs only once, when the chain starts.

// c08Process is one operating-system process of a node.
func c08Process(ms *models.MultiStore) Keeper {
	// a fresh process has no subscriptions
	eventbus.EVMActivatedChain().Unsubscribe("skyway-keeper")
	eventbus.SkywayBatchBuilt().Unsubscribe("skyway-keeper")
	return NewKeeper(models.Codec(vRegister), VAccounts{}, models.NewStaking(), models.NewBank(ms), nil, distrkeeper.Keeper{}, ibctransferkeeper.Keeper{},
		&VEVM{}, nil, nil, nil, NewSkywayStoreGetter(storetypes.NewKVStoreKey(types.StoreKey)), "authority", address.NewBech32Codec("palomavaloper"))
}

func c08Node(restartBeforeLastBlock bool, activity int) (*models.MultiStore, string, uint64) {
	ctx, ms := models.NewContext(1)
	k := c08Process(ms)
	InitGenesis(ctx, k, *types.DefaultGenesisState())
	// some history: the chain is activated with the first compass, the bridge makes progress
	eventbus.EVMActivatedChain().Publish(ctx, eventbus.EVMActivatedChainEvent{ChainReferenceID: vChain, SmartContractUniqueID: []byte("compass-v1")})
	if activity > 0 {
		if err := k.setLastObservedSkywayNonce(ctx, vChain, uint64(activity)); err != nil {
			panic(err)
		}
	}
	if restartBeforeLastBlock {
		k = c08Process(ms)
		sym.Reach("node-restarted")
	}
	// the block under test: the chain is activated with a new compass
	ctx = ctx.WithBlockHeight(2)
	eventbus.EVMActivatedChain().Publish(ctx, eventbus.EVMActivatedChainEvent{ChainReferenceID: vChain, SmartContractUniqueID: []byte("compass-v2")})
	nonce, err := k.GetLastObservedSkywayNonce(ctx, vChain)
	if err != nil {
		panic(err)
	}
	return ms, k.GetLatestCompassID(ctx, vChain), nonce
}

func VerifC08_Restart() {
	activity := sym.Choice("bridge-nonce-reached", 3) * 7
	msA, compassA, nonceA := c08Node(false, activity)
	msB, compassB, nonceB := c08Node(sym.Bool("second-node-restarted"), activity)
	sym.Reach("both-nodes-executed")
	sym.Assert(compassA == compassB && nonceA == nonceB, "same-results-on-every-node")
	sym.Assert(msA.Equal(msB), "same-state-on-every-node")
	_ = sdk.AccAddress{}
}

var _ = vEntry("VerifC08_Restart", VerifC08_Restart)
