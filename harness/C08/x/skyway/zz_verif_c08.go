package skyway

import (
	sdkmath "cosmossdk.io/math"
	sdk "github.com/cosmos/cosmos-sdk/types"
	stakingtypes "github.com/cosmos/cosmos-sdk/x/staking/types"
	"github.com/palomachain/paloma/v2/x/skyway/keeper"
	"github.com/palomachain/paloma/v2/x/skyway/types"
	valsettypes "github.com/palomachain/paloma/v2/x/valset/types"
	"github.com/palomachain/paloma/v2/zzverif/sym"
)

// C08 (bridge oracle tally) — pending attestations are gathered in a map keyed
// by nonce; the end-of-block tally must apply the same effects in the same
// order whatever the iteration order of that map.

const c08Chain = "test-chain"

var c08Vals = []sdk.ValAddress{
	sdk.ValAddress("validator-0000000001"),
	sdk.ValAddress("validator-0000000002"),
	sdk.ValAddress("validator-0000000003"),
}

func c08Claim(v int, nonce uint64, variant int) *types.MsgSendToPalomaClaim {
	orch := sdk.AccAddress(c08Vals[v]).String()
	return &types.MsgSendToPalomaClaim{EventNonce: nonce, EthBlockHeight: 10, TokenContract: "0x1111111111111111111111111111111111111111",
		Amount: sdkmath.NewInt(int64(100 + variant)), EthereumSender: "0x4444444444444444444444444444444444444444",
		PalomaReceiver: sdk.AccAddress("user-a--------------").String(), Orchestrator: orch, ChainReferenceId: c08Chain, SkywayNonce: nonce,
		CompassId: "compass-1", Metadata: valsettypes.MsgMetadata{Creator: orch, Signers: []string{orch}}}
}

type c08Vote struct {
	v       int
	nonce   uint64
	variant int
}

func c08Tally(permute bool, votes []c08Vote, nv int) (applied []string, env *keeper.VEnv) {
	env = keeper.NewVEnv(100)
	env.SetLatestCompassID(c08Chain, "compass-1")
	for _, v := range c08Vals[:nv] {
		env.Staking.Add(v, stakingtypes.Bonded, false, sdkmath.NewInt(10), 10)
	}
	env.Staking.TotalPower = sdkmath.NewInt(int64(10 * nv))
	srv := keeper.NewMsgServerImpl(env.K)
	for _, vt := range votes {
		cctx, commit := env.Ctx.CacheContext()
		if _, err := srv.SendToPalomaClaim(cctx, c08Claim(vt.v, vt.nonce, vt.variant)); err == nil {
			commit()
		}
	}
	sym.MapOrder(permute)
	_ = attestationTally(env.Ctx, env.K, c08Chain)
	sym.MapOrder(false)
	for _, c := range env.Handler.Applied {
		m := c.(*types.MsgSendToPalomaClaim)
		applied = append(applied, sdkmath.NewIntFromUint64(m.SkywayNonce).String()+"/"+m.Amount.String())
	}
	return applied, env
}

func VerifC08_Tally() {
	// n votes (validators in turn), each arbitrary in nonce and variant
	// quick: 2 validators (both needed for >66%), 4 votes, so that two consecutive nonces can be ready in one block
	n, nonces, nv := 4, 2, 2
	if sym.Tier() == "thorough" {
		n, nonces, nv = 6, 3, 3
	}
	var votes []c08Vote
	for i := 0; i < n; i++ {
		votes = append(votes, c08Vote{v: i % nv, nonce: uint64(1 + sym.Choice("nonce", nonces)), variant: sym.Choice("variant", 2)})
	}
	ref, e0 := c08Tally(false, votes, nv)
	got, e1 := c08Tally(true, votes, nv)
	if len(ref) > 1 {
		sym.Reach("two-effects-in-one-block")
	}
	sym.Reach("tallied")
	if len(ref) > 0 {
		sym.Reach("effects-applied")
	}
	same := len(ref) == len(got)
	for i := 0; same && i < len(ref); i++ {
		same = ref[i] == got[i]
	}
	sym.Assert(same, "same-effects-in-the-same-order-on-every-node")
	sym.Assert(e0.MS.Equal(e1.MS), "same-oracle-state-on-every-node")
}

var VerifEntries = map[string]func(){
	"VerifC08_Tally": VerifC08_Tally,
}
