package keeper

import (
	"fmt"

	storetypes "cosmossdk.io/store/types"
	"github.com/cosmos/cosmos-sdk/codec/address"
	codectypes "github.com/cosmos/cosmos-sdk/codec/types"
	"github.com/cosmos/cosmos-sdk/runtime"
	sdk "github.com/cosmos/cosmos-sdk/types"
	"github.com/palomachain/paloma/v2/x/paloma/types"
	valsettypes "github.com/palomachain/paloma/v2/x/valset/types"
	"github.com/palomachain/paloma/v2/zzverif/models"
	"github.com/palomachain/paloma/v2/zzverif/sym"
)

// C08 (process environment) — the outcome of a transaction is the same on two
// nodes whose process environments differ. Twin execution: the same message is
// delivered to two freshly built, identical keepers; node 1 and node 2 each
// have PALOMA_FF_PIGEON_STATUS_UPDATE set or unset (all four combinations).

const c08Flag = "PALOMA_FF_PIGEON_STATUS_UPDATE"

// c08Deliver mirrors baseapp: ValidateBasic, handler, panics recovered into a failed result.
func c08Deliver(msg *types.MsgAddStatusUpdate) (result string, ms *models.MultiStore) {
	ctx, ms := models.NewContext(10)
	cdc := models.Codec(func(r codectypes.InterfaceRegistry) { types.RegisterInterfaces(r) })
	k := NewKeeper(cdc, runtime.NewKVStoreService(storetypes.NewKVStoreKey(types.StoreKey)), models.Subspace(cdc, types.ModuleName),
		"v1.0.0", "ugrain", nil, nil, nil, nil, nil, address.NewBech32Codec("palomavaloper"), "authority")
	srv := NewMsgServerImpl(*k)
	defer func() {
		if r := recover(); r != nil {
			result = "failed: panic"
		}
	}()
	if err := msg.ValidateBasic(); err != nil {
		return "rejected", ms
	}
	_, err := srv.AddStatusUpdate(ctx, msg)
	if err != nil {
		return "failed: error", ms
	}
	return "ok", ms
}

func VerifC08_StatusUpdate() {
	who := sdk.AccAddress("validator-0000000001").String()
	level := types.MsgAddStatusUpdate_Level(sym.IntRange("level", -1, 5))
	nargs := sym.Choice("args", 2)
	mk := func() *types.MsgAddStatusUpdate {
		m := &types.MsgAddStatusUpdate{Status: "pigeon says hi", Level: level, Metadata: valsettypes.MsgMetadata{Creator: who, Signers: []string{who}}}
		for i := 0; i < nargs; i++ {
			m.Args = append(m.Args, types.MsgAddStatusUpdate_KeyValuePair{Key: fmt.Sprintf("k%d", i), Value: "v"})
		}
		return m
	}
	var res [2]string
	var st [2]*models.MultiStore
	for node := 0; node < 2; node++ {
		if sym.Bool("flag-set-on-node") {
			sym.Setenv(c08Flag, []string{"", "1"}[sym.Choice("flag-value", 2)])
		} else {
			sym.Unsetenv(c08Flag)
		}
		res[node], st[node] = c08Deliver(mk())
	}
	sym.Unsetenv(c08Flag)
	sym.Reach("both-nodes-executed")
	sym.Assert(res[0] == res[1], "status-update-result-independent-of-process-environment")
	sym.Assert(st[0].Equal(st[1]), "status-update-state-independent-of-process-environment")
}

var VerifEntries = map[string]func(){
	"VerifC08_StatusUpdate": VerifC08_StatusUpdate,
}
