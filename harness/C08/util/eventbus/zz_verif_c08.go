package eventbus

import (
	"context"

	"github.com/palomachain/paloma/v2/zzverif/models"
	"github.com/palomachain/paloma/v2/zzverif/sym"
)

// C08 (event bus) — subscribers live in a map; the order in which they run must
// not depend on map iteration order. Reference run vs. a run with arbitrary
// iteration order; subscribers record the order in which they were called and
// one of them may fail or be unsubscribed.

func c08Publish(permute bool, failing, removed int) []string {
	ctx, _ := models.NewContext(10)
	ev := newEvent[SkywayBatchBuiltEvent]()
	var log []string
	ids := []string{"skyway", "evm", "valset", "metrix"}
	for i, id := range ids {
		id, i := id, i
		ev.Subscribe(id, func(_ context.Context, e SkywayBatchBuiltEvent) error {
			log = append(log, id+":"+e.ChainReferenceID)
			if i == failing {
				return context.Canceled
			}
			return nil
		})
	}
	if removed < len(ids) {
		ev.Unsubscribe(ids[removed])
	}
	sym.MapOrder(permute)
	ev.Publish(ctx, SkywayBatchBuiltEvent{ChainReferenceID: "eth-main"})
	sym.MapOrder(false)
	return log
}

func VerifC08_EventBus() {
	failing := sym.Choice("failing-subscriber", 5)
	removed := sym.Choice("unsubscribed", 5)
	ref := c08Publish(false, failing, removed)
	got := c08Publish(true, failing, removed)
	sym.Reach("published")
	same := len(ref) == len(got)
	for i := 0; same && i < len(ref); i++ {
		same = ref[i] == got[i]
	}
	sym.Assert(same, "subscribers-run-in-the-same-order-on-every-node")
	for i := 1; i < len(got); i++ {
		sym.Assert(got[i-1] < got[i], "subscribers-run-in-id-order")
	}
}

var VerifEntries = map[string]func(){
	"VerifC08_EventBus": VerifC08_EventBus,
}
