package libcons

import (
	"context"

	"cosmossdk.io/log"
	sdkmath "cosmossdk.io/math"
	codectypes "github.com/cosmos/cosmos-sdk/codec/types"
	sdk "github.com/cosmos/cosmos-sdk/types"
	consensustypes "github.com/palomachain/paloma/v2/x/consensus/types"
	evmtypes "github.com/palomachain/paloma/v2/x/evm/types"
	valsettypes "github.com/palomachain/paloma/v2/x/valset/types"
	"github.com/palomachain/paloma/v2/zzverif/models"
	"github.com/palomachain/paloma/v2/zzverif/sym"
)

type c04Log struct{}

func (c04Log) Logger(context.Context) log.Logger { return log.NewNopLogger() }

var c04Vals = []sdk.ValAddress{
	sdk.ValAddress("validator-0000000001"),
	sdk.ValAddress("validator-0000000002"),
	sdk.ValAddress("validator-0000000003"),
	sdk.ValAddress("validator-0000000004"),
	sdk.ValAddress("outsider--0000000009"),
}

// c04Snapshot builds a snapshot of n validators with arbitrary shares (each
// below 2^bits); TotalShares is their sum, as createNewSnapshot computes it.
func c04Snapshot(n int, bits int) (*valsettypes.Snapshot, []sdkmath.Int) {
	snap := &valsettypes.Snapshot{TotalShares: sdkmath.ZeroInt()}
	shares := make([]sdkmath.Int, n)
	for i := 0; i < n; i++ {
		s := sdkmath.NewIntFromBigInt(sym.BigInt("share", bits))
		shares[i] = s
		snap.Validators = append(snap.Validators, valsettypes.Validator{Address: c04Vals[i], ShareCount: s})
		snap.TotalShares = snap.TotalShares.Add(s)
	}
	return snap, shares
}

// VerifC04_Gas: VerifyGasEstimates elects only with >= 2/3 of snapshot shares
// among submitters, and the elected value is the mathematical median.
func VerifC04_Gas() {
	maxN, maxM := 3, 3
	if sym.Tier() == "thorough" {
		maxN, maxM = 4, 4
	}
	n := 1 + sym.Choice("n", maxN)
	m := 1 + sym.Choice("m", maxM)
	snap, shares := c04Snapshot(n, 250)

	// submissions through the real AddGasEstimate; validators distinct (Queue.AddGasEstimate rejects duplicates)
	msg := &consensustypes.QueuedSignedMessage{}
	used := map[int]bool{}
	power := sdkmath.ZeroInt()
	vals := make([]uint64, 0, m)
	for j := 0; j < m; j++ {
		v := sym.Choice("who", n+1) // index n = bonded validator outside the snapshot
		if used[v] {
			sym.Assume(false)
		}
		used[v] = true
		g := sym.Uint64("gas")
		vals = append(vals, g)
		addr := c04Vals[4]
		if v < n {
			addr = c04Vals[v]
			power = power.Add(shares[v])
		}
		msg.AddGasEstimate(&consensustypes.GasEstimate{ValAddress: addr, Value: g})
	}
	cc := New(func(context.Context) (*valsettypes.Snapshot, error) { return snap, nil }, nil)
	ests := make([]GasEstimate, 0, m)
	for _, ge := range msg.GetGasEstimates() {
		ests = append(ests, ge)
	}
	r, err := cc.VerifyGasEstimates(context.Background(), c04Log{}, ests)

	quorum := power.MulRaw(3).GTE(snap.TotalShares.MulRaw(2))
	if err == nil {
		sym.Reach("gas-elected")
		sym.Assert(quorum, "gas-elected-needs-two-thirds")
		// between lowest and highest submitted value
		lo, hi := vals[0], vals[0]
		for _, x := range vals[1:] {
			lo = sym.IteU64(x < lo, x, lo)
			hi = sym.IteU64(x > hi, x, hi)
		}
		sym.Assert(sym.And(r >= lo, r <= hi), "gas-between-min-max")
		// median: at least half of the values are <= r and at least half are >= r
		le, ge := 0, 0
		for _, x := range vals {
			if x <= r {
				le++
			}
			if x >= r {
				ge++
			}
		}
		sym.Assert(sym.And(2*le >= m, 2*ge >= m), "gas-is-median")
	} else {
		sym.Reach("gas-not-elected")
		if !quorum {
			sym.Reach("gas-no-quorum")
		}
	}
}

var VerifEntries = map[string]func(){
	"VerifC04_Gas":      VerifC04_Gas,
	"VerifC04_Evidence": VerifC04_Evidence,
}

// VerifC04_Evidence: VerifyEvidence names a winner only when snapshot members
// holding >= 2/3 of the total shares supplied byte-identical evidence; each
// validator counts once, with its latest submission (the real AddEvidence
// replaces), validators outside the snapshot do not count.
func VerifC04_Evidence() {
	maxN, maxM := 3, 3
	if sym.Tier() == "thorough" {
		maxN, maxM = 4, 4
	}
	n := 1 + sym.Choice("n", maxN)
	m := 1 + sym.Choice("m", maxM)
	snap, shares := c04Snapshot(n, 250)
	for _, sh := range shares {
		sym.Assume(sh.IsPositive()) // snapshot members are bonded validators with positive stake (C10)
	}
	cdc := models.Codec(func(r codectypes.InterfaceRegistry) { evmtypes.RegisterInterfaces(r) })
	texts := []string{"boom", "bang", "bust"}
	// m submissions, in order; a validator may submit again (its earlier evidence is replaced)
	msg := &consensustypes.QueuedSignedMessage{}
	latest := map[int]int{} // validator -> index into texts of its latest submission
	for j := 0; j < m; j++ {
		v := sym.Choice("who", n+1) // index n = bonded validator outside the snapshot
		t := sym.Choice("what", len(texts))
		addr := c04Vals[4]
		if v < n {
			addr = c04Vals[v]
		}
		proof, err := codectypes.NewAnyWithValue(&evmtypes.SmartContractExecutionErrorProof{ErrorMessage: texts[t]})
		if err != nil {
			panic(err)
		}
		msg.AddEvidence(consensustypes.Evidence{ValAddress: addr, Proof: proof})
		latest[v] = t
	}
	evs := make([]Evidence, 0, m)
	for _, e := range msg.GetEvidence() {
		evs = append(evs, e)
	}
	sym.Assert(len(evs) == len(latest), "one-evidence-entry-per-validator")
	cc := New(func(context.Context) (*valsettypes.Snapshot, error) { return snap, nil }, cdc)
	res, err := cc.VerifyEvidence(context.Background(), evs)

	// ghost tally per distinct evidence over snapshot members
	power := make([]sdkmath.Int, len(texts))
	for t := range power {
		power[t] = sdkmath.ZeroInt()
	}
	for v, t := range latest {
		if v < n {
			power[t] = power[t].Add(shares[v])
		}
	}
	quorum := func(p sdkmath.Int) bool {
		return p.IsPositive() && p.MulRaw(3).GTE(snap.TotalShares.MulRaw(2))
	}
	if err == nil {
		sym.Reach("evidence-winner")
		w, ok := res.Winner.(*evmtypes.SmartContractExecutionErrorProof)
		sym.Assert(ok && w != nil, "winner-is-submitted-evidence")
		if ok && w != nil {
			idx := -1
			for t := range texts {
				if texts[t] == w.ErrorMessage {
					idx = t
				}
			}
			sym.Assert(idx >= 0 && quorum(power[idx]), "winner-backed-by-two-thirds-of-snapshot-shares-on-identical-evidence")
		}
	} else {
		sym.Reach("no-evidence-consensus")
		sym.Assert(err == ErrConsensusNotAchieved, "only-error-is-consensus-not-achieved")
		for t := range texts {
			sym.Assert(!quorum(power[t]), "two-thirds-on-identical-evidence-is-recognised")
		}
	}
}
