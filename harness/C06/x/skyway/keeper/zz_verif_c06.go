package keeper

import (
	"encoding/hex"

	sdkmath "cosmossdk.io/math"
	sdk "github.com/cosmos/cosmos-sdk/types"
	stakingtypes "github.com/cosmos/cosmos-sdk/x/staking/types"
	"github.com/ethereum/go-ethereum/crypto"
	"github.com/palomachain/paloma/v2/x/skyway/types"
	valsettypes "github.com/palomachain/paloma/v2/x/valset/types"
	"github.com/palomachain/paloma/v2/zzverif/models"
	"github.com/palomachain/paloma/v2/zzverif/sym"
)

// C06 (bridge batches) — at every step each confirmation stored with an
// outgoing batch verifies against the batch's CURRENT checkpoint under the
// confirming validator's registered key, a validator appears at most once,
// and when the checkpoint is re-issued (gas estimate elected) earlier
// confirmations are discarded rather than carried over.

func c06BatchDigest(checkpoint []byte) []byte {
	return crypto.Keccak256Hash(append([]uint8("\x19Ethereum Signed Message:\n32"), checkpoint...)).Bytes()
}

func c06BatchInvariant(env *VEnv, erc20 types.EthAddress, nonce uint64, label string) {
	cur, err := env.K.GetOutgoingTXBatch(env.Ctx, erc20, nonce)
	if err != nil || cur == nil {
		return
	}
	confirms, err := env.K.GetBatchConfirmByNonceAndTokenContract(env.Ctx, nonce, erc20)
	if err != nil {
		panic(err)
	}
	seen := map[string]bool{}
	for _, c := range confirms {
		sig, err := hex.DecodeString(c.Signature)
		ok := err == nil
		var who = -1
		for i, v := range vVals {
			if sdk.AccAddress(v).String() == c.Orchestrator {
				who = i
			}
		}
		if who >= 0 && env.EVM.NoKey[who] {
			ok = false // no key registered for this chain: nothing it sends can be a valid confirmation
		}
		if ok && who >= 0 {
			a, err := types.EthAddressFromSignature(cur.BytesToSign, sig)
			ok = err == nil && a.GetAddress().Hex() == vEthAddrs[who]
		}
		sym.Assert(ok && who >= 0, label+"/stored-confirmation-verifies-against-the-current-checkpoint")
		sym.Assert(!seen[c.Orchestrator], label+"/validator-confirms-at-most-once")
		seen[c.Orchestrator] = true
	}
}

func VerifC06_Batch() {
	env := NewVEnv(100)
	erc20, _ := types.NewEthAddress(vErc20)
	if err := env.K.setDenomToERC20(env.Ctx, vChain, vDenom, *erc20); err != nil {
		panic(err)
	}
	for _, v := range vVals[:3] {
		env.Staking.Add(v, stakingtypes.Bonded, false, sdkmath.NewInt(10), 10)
	}
	env.Staking.TotalPower = sdkmath.NewInt(30)
	env.Bank.SetBalance(vUserA, vDenom, sdkmath.NewInt(1000))
	recv, _ := types.NewEthAddress("0x9999999999999999999999999999999999999999")
	if _, err := env.K.AddToOutgoingPool(env.Ctx, vUserA, *recv, sdk.Coin{Denom: vDenom, Amount: sdkmath.NewInt(100)}, vChain); err != nil {
		panic(err)
	}
	batch, err := env.K.BuildOutgoingTXBatch(env.Ctx, vChain, *erc20, OutgoingTxBatchSize)
	if err != nil || batch == nil {
		panic("setup: build failed")
	}
	srv := NewMsgServerImpl(env.K)
	published := [][]byte{batch.BytesToSign}
	// validator 1 may have no account registered for this chain (never registered, or
	// re-registered its chain infos without it)
	if sym.Bool("validator-1-has-no-key-on-this-chain") {
		env.EVM.NoKey = map[int]bool{1: true}
	}
	// pre-state: validator 0 may already have a genuine confirmation on record
	if sym.Bool("already-confirmed-by-validator-0") {
		orch := sdk.AccAddress(vVals[0]).String()
		if _, err := srv.ConfirmBatch(env.Ctx, &types.MsgConfirmBatch{Nonce: batch.BatchNonce, TokenContract: vErc20, EthSigner: vEthAddrs[0], Orchestrator: orch,
			Signature: hex.EncodeToString(models.SignDigest(0, c06BatchDigest(batch.BytesToSign))), Metadata: valsettypes.MsgMetadata{Creator: orch, Signers: []string{orch}}}); err != nil {
			panic(err)
		}
	}
	L := 2
	if sym.Tier() == "thorough" {
		L = 3
	}
	for step := 0; step < L; step++ {
		cur, err := env.K.GetOutgoingTXBatch(env.Ctx, *erc20, batch.BatchNonce)
		if err != nil || cur == nil {
			panic("batch lost")
		}
		switch sym.Choice("op", 2) {
		case 0: // a validator confirms
			v := sym.Choice("confirmer", 2)
			var sig []byte
			switch sym.Choice("sig-kind", 4) {
			case 0: // genuine, over the checkpoint currently published
				sig = models.SignDigest(v, c06BatchDigest(cur.BytesToSign))
			case 1: // genuine, but over a checkpoint published earlier
				sig = models.SignDigest(v, c06BatchDigest(published[sym.Choice("which-checkpoint", len(published))]))
			case 2: // another validator's key
				sig = models.SignDigest(1-v, c06BatchDigest(cur.BytesToSign))
			case 3:
				sig = sym.Bytes("sig", 65)
			}
			orch := sdk.AccAddress(vVals[v]).String()
			cctx, commit := env.Ctx.CacheContext()
			_, err := srv.ConfirmBatch(cctx, &types.MsgConfirmBatch{Nonce: batch.BatchNonce, TokenContract: vErc20, EthSigner: vEthAddrs[v], Orchestrator: orch,
				Signature: hex.EncodeToString(sig), Metadata: valsettypes.MsgMetadata{Creator: orch, Signers: []string{orch}}})
			if err == nil {
				commit()
				sym.Reach("confirmation-accepted")
			} else {
				sym.Reach("confirmation-rejected")
			}
		case 1: // the gas estimate is elected: the checkpoint is re-issued
			est := sym.Uint64Range("estimate", 1, 1<<62)
			before := append([]byte{}, cur.BytesToSign...)
			if err := env.K.UpdateBatchGasEstimate(env.Ctx, *cur, est); err != nil {
				sym.Reach("second-election-refused")
				continue
			}
			after, _ := env.K.GetOutgoingTXBatch(env.Ctx, *erc20, batch.BatchNonce)
			if string(after.BytesToSign) != string(before) {
				sym.Reach("checkpoint-reissued")
				published = append(published, after.BytesToSign)
				confirms, _ := env.K.GetBatchConfirmByNonceAndTokenContract(env.Ctx, batch.BatchNonce, *erc20)
				sym.Assert(len(confirms) == 0, "confirmations-discarded-when-the-checkpoint-is-reissued")
			}
		}
		c06BatchInvariant(env, *erc20, batch.BatchNonce, "after-step")
	}
}

var _ = vEntry("VerifC06_Batch", VerifC06_Batch)
