package keeper

import (
	"encoding/hex"

	sdkmath "cosmossdk.io/math"
	codectypes "github.com/cosmos/cosmos-sdk/codec/types"
	sdk "github.com/cosmos/cosmos-sdk/types"
	stakingtypes "github.com/cosmos/cosmos-sdk/x/staking/types"
	"github.com/ethereum/go-ethereum/crypto"
	"github.com/palomachain/paloma/v2/x/skyway/types"
	valsettypes "github.com/palomachain/paloma/v2/x/valset/types"
	"github.com/palomachain/paloma/v2/zzverif/models"
	"github.com/palomachain/paloma/v2/zzverif/sym"
)

// C13(a) — a validator's genuine confirmation of any checkpoint the chain
// published can never be used as bad-signature evidence against it.
//
// History: send(s) → build batch → [elect gas estimate ⇒ checkpoint re-issued]
// → validator v signs the checkpoint the chain currently publishes and the real
// ConfirmBatch handler accepts it → [cancel | execute | nothing] → anyone submits
// the batch body as it was published, with v's signature, as evidence.

const c13Prefix = "\x19Ethereum Signed Message:\n32"

func c13Digest(checkpoint []byte) []byte {
	return crypto.Keccak256Hash(append([]uint8(c13Prefix), checkpoint...)).Bytes()
}

func VerifC13_Evidence() {
	env := NewVEnv(100)
	if err := env.K.setDenomToERC20(env.Ctx, vChain, vDenom, c13Erc20()); err != nil {
		panic(err)
	}
	for i, v := range vVals {
		sv := env.Staking.Add(v, stakingtypes.Bonded, false, sdkmath.NewInt(10), 10)
		_ = sv
		_ = i
	}
	env.Staking.TotalPower = sdkmath.NewInt(40)
	amt := sdkmath.NewIntFromBigInt(sym.BigInt("amount", 64))
	env.Bank.SetBalance(vUserA, vDenom, amt)
	recv, _ := types.NewEthAddress("0x9999999999999999999999999999999999999999")
	if _, err := env.K.AddToOutgoingPool(env.Ctx, vUserA, *recv, sdk.Coin{Denom: vDenom, Amount: amt}, vChain); err != nil {
		panic(err)
	}
	batch, err := env.K.BuildOutgoingTXBatch(env.Ctx, vChain, c13Erc20(), OutgoingTxBatchSize)
	if err != nil || batch == nil {
		panic("setup: build failed")
	}
	// optional estimate election: the chain re-issues the checkpoint
	if sym.Bool("estimate-elected") {
		est := sym.Uint64Range("estimate", 1, 1<<62)
		if err := env.K.UpdateBatchGasEstimate(env.Ctx, *batch, est); err != nil {
			panic(err)
		}
		sym.Reach("checkpoint-reissued")
	}
	cur, err := env.K.GetOutgoingTXBatch(env.Ctx, c13Erc20(), batch.BatchNonce)
	if err != nil || cur == nil {
		panic("setup: batch lost")
	}
	published := cur.ToExternal() // what validators are shown (BytesToSign = current checkpoint)

	// validator v signs what the chain publishes, and the chain accepts it
	v := sym.Choice("signer", 2)
	sig := models.SignDigest(v, c13Digest(published.BytesToSign))
	orch := sdk.AccAddress(vVals[v]).String()
	srv := NewMsgServerImpl(env.K)
	_, err = srv.ConfirmBatch(env.Ctx, &types.MsgConfirmBatch{
		Nonce: batch.BatchNonce, TokenContract: vErc20, EthSigner: vEthAddrs[v], Orchestrator: orch,
		Signature: hex.EncodeToString(sig),
		Metadata:  valsettypes.MsgMetadata{Creator: orch, Signers: []string{orch}},
	})
	sym.Assert(err == nil, "genuine-confirmation-is-accepted")
	sym.Reach("confirmed")

	// later life of the batch
	switch sym.Choice("later", 3) {
	case 1:
		if err := env.K.CancelOutgoingTXBatch(env.Ctx, c13Erc20(), batch.BatchNonce); err != nil {
			panic(err)
		}
		sym.Reach("batch-cancelled")
	case 2:
		claim := types.MsgBatchSendToRemoteClaim{EventNonce: 1, EthBlockHeight: 1, BatchNonce: batch.BatchNonce, ChainReferenceId: vChain, TokenContract: vErc20}
		if err := env.K.OutgoingTxBatchExecuted(env.Ctx, c13Erc20(), claim); err != nil {
			panic(err)
		}
		sym.Reach("batch-executed")
	}

	// anyone replays the genuine confirmation as evidence
	// the submitter controls every field of the subject; the copy of the signing bytes it
	// carries is informational (the checker recomputes the checkpoint from the batch contents)
	switch sym.Choice("bytes-to-sign-field", 3) {
	case 1:
		published.BytesToSign = nil
	case 2:
		published.BytesToSign = []byte("something else entirely........")
	}
	subject, err := codectypes.NewAnyWithValue(&published)
	if err != nil {
		panic(err)
	}
	jailsBefore := len(env.Staking.JailCalls)
	everr := env.K.CheckBadSignatureEvidence(env.Ctx, &types.MsgSubmitBadSignatureEvidence{
		Subject: subject, Signature: hex.EncodeToString(sig), ChainReferenceId: vChain,
	}, vChain)
	if everr != nil {
		sym.Reach("evidence-rejected")
	}
	sym.Assert(len(env.Staking.JailCalls) == jailsBefore, "nobody-jailed-for-signing-a-published-checkpoint")
	sym.Assert(!env.Staking.Find(vVals[v]).Jailed, "signer-not-jailed")
}

func c13Erc20() types.EthAddress {
	a, err := types.NewEthAddress(vErc20)
	if err != nil {
		panic(err)
	}
	return *a
}

var _ = vEntry("VerifC13_Evidence", VerifC13_Evidence)
