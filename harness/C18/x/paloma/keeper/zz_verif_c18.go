package keeper

import (
	sdkmath "cosmossdk.io/math"
	storetypes "cosmossdk.io/store/types"
	"github.com/cosmos/cosmos-sdk/codec/address"
	codectypes "github.com/cosmos/cosmos-sdk/codec/types"
	"github.com/cosmos/cosmos-sdk/runtime"
	sdk "github.com/cosmos/cosmos-sdk/types"
	authtypes "github.com/cosmos/cosmos-sdk/x/auth/types"
	vestingtypes "github.com/cosmos/cosmos-sdk/x/auth/vesting/types"
	"github.com/palomachain/paloma/v2/x/paloma/types"
	valsettypes "github.com/palomachain/paloma/v2/x/valset/types"
	"github.com/palomachain/paloma/v2/zzverif/models"
	"github.com/palomachain/paloma/v2/zzverif/sym"
)

// C18 — light-node licence funds: escrowed 1:1, released once, vesting, to the
// licensee; a bridge-reported sale creates a licence only when fully
// configured and otherwise changes nothing.

var (
	c18A = sdk.AccAddress("user-a--------------") // funder / creator
	c18B = sdk.AccAddress("user-b--------------") // funder / creator
	c18C = sdk.AccAddress("client-c------------") // prospective licensee
	c18D = sdk.AccAddress("client-d------------") // prospective licensee
	c18G = sdk.AccAddress("feegranter----------")
)

const c18Denom = "ugrain"

// a licence may be paid in any coin; c18Other is one that is not the bond denom
const c18Other = "uusdc"

func c18Meta(who sdk.AccAddress) valsettypes.MsgMetadata {
	return valsettypes.MsgMetadata{Creator: who.String(), Signers: []string{who.String()}}
}

func c18Steps() int {
	if sym.Tier() == "thorough" {
		return 4
	}
	return 3
}

// VerifC18_History: histories with a fully configured sale path.
func VerifC18_History() { c18Run(false, c18Steps()) }

// VerifC18_SaleConfig: one sale under every combination of missing / present
// feegranter and funders.
func VerifC18_SaleConfig() { c18Run(true, 1) }

func c18Run(symbolicConfig bool, L int) {
	ctx, ms := models.NewContext(10)
	cdc := models.Codec(func(r codectypes.InterfaceRegistry) {
		types.RegisterInterfaces(r)
		authtypes.RegisterInterfaces(r)
		vestingtypes.RegisterInterfaces(r)
	})
	bank := models.NewBank(ms)
	accs := models.NewAccounts(ms, cdc)
	fg := models.NewFeegrant(ms)
	k := NewKeeper(cdc, runtime.NewKVStoreService(storetypes.NewKVStoreKey(types.StoreKey)), models.Subspace(cdc, types.ModuleName),
		"v1.0.0", c18Denom, accs, bank, fg, nil, nil, address.NewBech32Codec("palomavaloper"), "authority")
	srv := NewMsgServerImpl(*k)

	// funders have accounts and arbitrary balances
	for _, f := range []sdk.AccAddress{c18A, c18B} {
		accs.SetAccount(ctx, accs.NewAccountWithAddress(ctx, f))
		bank.SetBalance(f, c18Denom, sdkmath.NewIntFromBigInt(sym.BigInt("funder-balance", 100)))
		bank.SetBalance(f, c18Other, sdkmath.NewIntFromBigInt(sym.BigInt("funder-balance-other-denom", 100)))
	}
	// sale configuration: each piece may or may not be present
	if !symbolicConfig || sym.Bool("feegranter-configured") {
		if err := k.SetLightNodeClientFeegranter(ctx, c18G); err != nil {
			panic(err)
		}
	}
	fc := 2
	if symbolicConfig {
		fc = sym.Choice("funders-configured", 3)
	}
	switch fc {
	case 1:
		if err := k.SetLightNodeClientFunders(ctx, []sdk.AccAddress{c18A}); err != nil {
			panic(err)
		}
	case 2:
		if err := k.SetLightNodeClientFunders(ctx, []sdk.AccAddress{c18A, c18B}); err != nil {
			panic(err)
		}
	}

	clients := []sdk.AccAddress{c18C, c18D}
	pending := map[string]sdkmath.Int{} // ghost: not-yet-activated licences
	denomOf := map[string]string{}      // ghost: the coin each licence was paid in
	months := map[string]uint32{}
	activated := map[string]bool{}
	escrow := func(d string) sdkmath.Int { return bank.ModuleBalance(types.ModuleName, d) }
	sumPending := func(d string) sdkmath.Int {
		t := sdkmath.ZeroInt()
		for _, c := range clients {
			if v, ok := pending[c.String()]; ok && denomOf[c.String()] == d {
				t = t.Add(v)
			}
		}
		return t
	}

	for step := 0; step < L; step++ {
		ctx = ctx.WithBlockTime(ctx.BlockTime().Add(6_000_000_000))
		op := 1
		if !symbolicConfig {
			op = sym.Choice("op", 4)
		}
		switch op {
		case 0: // direct creation by a paying account
			creator := []sdk.AccAddress{c18A, c18B}[sym.Choice("creator", 2)]
			client := clients[sym.Choice("client", 2)]
			amt := sdkmath.NewIntFromBigInt(sym.BigInt("amount", 100))
			m := uint32(sym.Uint64Range("months", 0, 120))
			d := c18Denom
			if L < 4 || step == 0 { // (4-operation histories: only the first operation may use the other coin)
				d = []string{c18Denom, c18Other}[sym.Choice("licence-denom", 2)]
			}
			hadAccount := accs.Has(client)
			_, hadLicence := pending[client.String()]
			cctx, commit := ctx.CacheContext()
			_, err := srv.AddLightNodeClientLicense(cctx, &types.MsgAddLightNodeClientLicense{
				ClientAddress: client.String(), Amount: sdk.Coin{Denom: d, Amount: amt}, VestingMonths: m, Metadata: c18Meta(creator)})
			if err == nil {
				commit()
				sym.Reach("licence-created")
				sym.Assert(!hadAccount, "licence-only-for-address-without-account")
				sym.Assert(!hadLicence, "licence-only-for-address-without-licence")
				pending[client.String()] = amt
				denomOf[client.String()] = d
				months[client.String()] = m
			} else {
				sym.Reach("licence-rejected")
			}
		case 1: // sale reported by the bridge (runs inside the attestation's cached context)
			client := clients[sym.Choice("client", 2)]
			amt := sdkmath.NewIntFromBigInt(sym.BigInt("sale-amount", 60))
			hadAccount := accs.Has(client)
			_, hadLicence := pending[client.String()]
			before := ms.Clone()
			cctx, commit := ctx.CacheContext()
			err := k.CreateSaleLightNodeClientLicense(cctx, client.String(), amt)
			if err == nil {
				commit()
				sym.Reach("sale-created")
				sym.Assert(!hadAccount && !hadLicence, "sale-only-for-fresh-address")
				pending[client.String()] = amt.MulRaw(1_000_000)
				denomOf[client.String()] = c18Denom
				months[client.String()] = 24
				sym.Assert(fg.HasGrant(c18G, client), "sale-sets-up-feegrant")
			} else {
				sym.Reach("sale-rejected")
				sym.Assert(ms.Equal(before), "failed-sale-changes-nothing")
			}
		case 2: // activation attempt by anyone
			who := []sdk.AccAddress{c18C, c18D, c18A}[sym.Choice("activator", 3)]
			balBefore := map[string]sdkmath.Int{c18Denom: bank.Balance(who, c18Denom), c18Other: bank.Balance(who, c18Other)}
			cctx, commit := ctx.CacheContext()
			_, err := srv.RegisterLightNodeClient(cctx, &types.MsgRegisterLightNodeClient{Metadata: c18Meta(who)})
			if err == nil {
				commit()
				sym.Reach("activated")
				amt, had := pending[who.String()]
				sym.Assert(had, "activation-only-with-pending-licence-of-the-caller")
				sym.Assert(!activated[who.String()], "activation-at-most-once")
				ld := denomOf[who.String()]
				for _, d := range []string{c18Denom, c18Other} {
					want := balBefore[d]
					if d == ld {
						want = want.Add(amt)
					}
					sym.Assert(bank.Balance(who, d).Equal(want), "activation-moves-exactly-licensed-amount")
				}
				va, ok := accs.Get(who).(*vestingtypes.ContinuousVestingAccount)
				sym.Assert(ok, "activation-makes-continuous-vesting-account")
				if ok {
					sym.Assert(va.StartTime == ctx.BlockTime().Unix(), "vesting-starts-at-activation")
					sym.Assert(va.EndTime == ctx.BlockTime().AddDate(0, int(months[who.String()]), 0).Unix(), "vesting-ends-after-licence-months")
					sym.Assert(len(va.OriginalVesting) == 1 && va.OriginalVesting[0].Amount.Equal(amt) && va.OriginalVesting[0].Denom == ld, "original-vesting-is-licensed-amount")
				}
				delete(pending, who.String())
				activated[who.String()] = true
			} else {
				sym.Reach("activation-rejected")
			}
		case 3: // authentication ping
			who := []sdk.AccAddress{c18C, c18D, c18A}[sym.Choice("pinger", 3)]
			cctx, commit := ctx.CacheContext()
			_, err := srv.AuthLightNodeClient(cctx, &types.MsgAuthLightNodeClient{Metadata: c18Meta(who)})
			if err == nil {
				commit()
				sym.Reach("auth-ok")
				sym.Assert(activated[who.String()], "auth-only-for-activated-clients")
			}
		}
		sym.Assert(sym.And(escrow(c18Denom).Equal(sumPending(c18Denom)), escrow(c18Other).Equal(sumPending(c18Other))), "escrow-equals-pending-licences")
	}
}

var VerifEntries = map[string]func(){
	"VerifC18_History":    VerifC18_History,
	"VerifC18_SaleConfig": VerifC18_SaleConfig,
}
