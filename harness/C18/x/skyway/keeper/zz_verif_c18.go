package keeper

import (
	"context"

	sdkmath "cosmossdk.io/math"
	"github.com/palomachain/paloma/v2/x/skyway/types"
	"github.com/palomachain/paloma/v2/zzverif/sym"
)

// C18 (bridge side) — an attested light-node sale reaches the licence module
// only if an authorised sale contract is configured for the chain the event
// was observed on and the event names exactly that contract; otherwise nothing
// is created.

type c18Paloma struct{ calls int }

func (p *c18Paloma) CreateSaleLightNodeClientLicense(ctx context.Context, clientAddr string, amount sdkmath.Int) error {
	p.calls++
	return nil
}

func VerifC18_SaleOrigin() {
	env := NewVEnv(100)
	pk := &c18Paloma{}
	env.K.palomaKeeper = pk
	env.UseRealHandler()
	const authorised = "0xAbCdEf1111111111111111111111111111111111"
	var contracts []*types.LightNodeSaleContract
	cfg := sym.Choice("configured-for", 4) // none, this chain, another chain only, both
	if cfg == 1 || cfg == 3 {
		contracts = append(contracts, &types.LightNodeSaleContract{ChainReferenceId: vChain, ContractAddress: authorised})
	}
	if cfg == 2 || cfg == 3 {
		contracts = append(contracts, &types.LightNodeSaleContract{ChainReferenceId: "other-chain", ContractAddress: "0x2222222222222222222222222222222222222222"})
	}
	// an earlier governance decision may have authorised contracts on both chains; the
	// configuration under test replaces it (and thereby revokes what it no longer lists)
	earlier := sym.Bool("both-chains-authorised-earlier")
	if earlier {
		if err := env.K.SetAllLighNodeSaleContracts(env.Ctx, []*types.LightNodeSaleContract{
			{ChainReferenceId: vChain, ContractAddress: authorised},
			{ChainReferenceId: "other-chain", ContractAddress: "0x2222222222222222222222222222222222222222"}}); err != nil {
			panic(err)
		}
	}
	if len(contracts) > 0 || earlier {
		if err := env.K.SetAllLighNodeSaleContracts(env.Ctx, contracts); err != nil {
			panic(err)
		}
	}
	named := []string{authorised, "0xabcdef1111111111111111111111111111111111", "0x2222222222222222222222222222222222222222", "", sym.Str("arbitrary-contract")}[sym.Choice("event-names-contract", 5)]
	claim := &types.MsgLightNodeSaleClaim{EventNonce: 1, SkywayNonce: 1, EthBlockHeight: 10, ClientAddress: vUserA.String(), Amount: sdkmath.NewInt(5),
		SmartContractAddress: named, Orchestrator: vUserB.String(), ChainReferenceId: vChain, CompassId: "compass-1"}
	cctx, commit := env.Ctx.CacheContext()
	err := env.K.AttestationHandler.Handle(cctx, types.Attestation{}, claim)
	if err == nil {
		commit()
		sym.Reach("sale-accepted")
	} else {
		sym.Reach("sale-refused")
	}
	if pk.calls > 0 {
		sym.Reach("licence-requested")
		sym.Assert(cfg == 1 || cfg == 3, "licence-only-with-a-sale-contract-configured-for-the-chain")
		sym.Assert(named == authorised, "licence-only-for-events-of-the-authorised-contract")
		sym.Assert(pk.calls == 1, "one-licence-per-sale")
	} else {
		sym.Assert(!((cfg == 1 || cfg == 3) && named == authorised), "authorised-sale-is-processed")
	}
}

var _ = vEntry("VerifC18_SaleOrigin", VerifC18_SaleOrigin)
