module zzselftest

go 1.23
