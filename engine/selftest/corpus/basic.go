package corpus

import (
	"errors"
	"fmt"
	"sort"
	"strings"

	"zzselftest/zzverif/sym"
)

func Median(w []uint64) uint64 {
	sort.Slice(w, func(i, j int) bool { return w[i] < w[j] })
	c := len(w) / 2
	if len(w)%2 == 1 {
		return w[c]
	}
	return (w[c-1] + w[c]) / 2
}

// H1: the median lies between min and max (fails on overflow).
func H1() {
	a, b := sym.Uint64("a"), sym.Uint64("b")
	m := Median([]uint64{a, b})
	lo, hi := a, b
	if lo > hi {
		lo, hi = hi, lo
	}
	sym.Reach("h1")
	sym.Assert(sym.And(m >= lo, m <= hi), "median-in-range")
}

// H2: safe variant must hold.
func H2() {
	a, b := sym.Uint64("a"), sym.Uint64("b")
	if a > b {
		a, b = b, a
	}
	m := a + (b-a)/2
	sym.Assert(sym.And(m >= a, m <= b), "safe-median")
}

type T struct {
	A int
	B []int
	M map[string]int
}

var ErrX = errors.New("x")

func wrap() error { return fmt.Errorf("wrapped: %w", ErrX) }

// H3: mixed features, concrete
func H3() {
	t := T{A: 1, B: []int{1, 2, 3}, M: map[string]int{"a": 1}}
	t2 := t
	t2.A = 5
	t2.B[0] = 9
	sym.Assert(t.A == 1, "struct-copy")
	sym.Assert(t.B[0] == 9, "slice-alias")
	t.M["b"] = 2
	sym.Assert(len(t2.M) == 2, "map-alias")
	sym.Assert(errors.Is(wrap(), ErrX), "errors-is")
	s := strings.Join([]string{"a", "b"}, ",")
	sym.Assert(s == "a,b", "join")
	var acc []int
	for i := 0; i < 3; i++ {
		defer func() { acc = append(acc, i) }()
	}
	func() {
		defer func() {
			r := recover()
			sym.Assert(r != nil, "recovered")
		}()
		var p *T
		_ = p.A
	}()
	x := sym.Int64("x")
	var y int64
	if x > 10 {
		y = x - 10
	} else {
		y = 10 - x
	}
	sym.Assert(y >= 0, "abs-nonneg") // fails for x = MinInt64? 10 - MinInt64 overflows
}

// H4: symbolic index & choice
func H4() {
	arr := []int{10, 20, 30}
	i := sym.IntRange("i", 0, 5)
	defer func() {
		if r := recover(); r != nil {
			sym.Reach("oob")
			sym.Assert(i >= 3, "oob-only-when-ge-3")
		}
	}()
	v := arr[i]
	sym.Assert(v == int(i+1)*10, "index-value")
	k := sym.Choice("k", 3)
	sym.Assert(k >= 0 && k < 3, "choice-range")
}
