package main

import (
	"fmt"
	"go/types"
	"math"
	"math/big"
	"strconv"
	"strings"

	"golang.org/x/tools/go/ssa"
)

func nop(fr *frame, args []value) value { return nil }

func retZero(fr *frame, args []value) value { return zeroResults(fr.fn) }

func registerStd(e *Engine) {
	// --- sync: single-threaded execution, locks are no-ops
	for _, n := range []string{
		"(*sync.Mutex).Lock", "(*sync.Mutex).Unlock", "(*sync.RWMutex).Lock", "(*sync.RWMutex).Unlock",
		"(*sync.RWMutex).RLock", "(*sync.RWMutex).RUnlock", "(*sync.WaitGroup).Add", "(*sync.WaitGroup).Done", "(*sync.WaitGroup).Wait",
	} {
		e.reg(n, nop)
	}
	e.reg("(*sync.Mutex).TryLock", func(fr *frame, args []value) value { return true })
	e.reg("(*sync.Once).Do", func(fr *frame, args []value) value {
		cell := args[0].(*value)
		key := fmt.Sprintf("once:%p", cell)
		if fr.p.hostState[key] == nil {
			fr.p.hostState[key] = true
			call(fr, fr.callpos, args[1], nil)
		}
		return nil
	})

	// --- errors
	e.reg("errors.Is", func(fr *frame, args []value) value { return errorsIs(fr, args[0].(iface), args[1].(iface)) })
	e.reg("errors.As", func(fr *frame, args []value) value { return errorsAs(fr, args[0].(iface), args[1].(iface)) })
	e.reg("errors.Unwrap", func(fr *frame, args []value) value {
		err := args[0].(iface)
		if err.t == nil {
			return iface{}
		}
		if m := e.methodByName(err.t, "Unwrap"); m != nil && m.Signature.Results().Len() == 1 {
			if _, isIface := m.Signature.Results().At(0).Type().Underlying().(*types.Interface); isIface {
				return call(fr, fr.callpos, m, []value{err.v})
			}
		}
		return iface{}
	})

	// --- fmt
	e.reg("fmt.Sprintf", func(fr *frame, args []value) value {
		return sprintf(fr, args[0], args[1].([]value))
	})
	e.reg("fmt.Errorf", func(fr *frame, args []value) value {
		return fmtErrorf(fr, args[0], args[1].([]value))
	})
	e.reg("fmt.Sprint", func(fr *frame, args []value) value {
		var out value = ""
		for i, a := range args[0].([]value) {
			if i > 0 {
				// Sprint adds spaces between operands when neither is a string
				_, s1 := a.(iface).v.(string)
				_, s0 := args[0].([]value)[i-1].(iface).v.(string)
				if !s1 && !s0 {
					out = concatStr(out, " ")
				}
			}
			out = concatStr(out, fmtValue(fr, 'v', "", a))
		}
		return out
	})
	e.reg("fmt.Sprintln", func(fr *frame, args []value) value {
		var out value = ""
		for i, a := range args[0].([]value) {
			if i > 0 {
				out = concatStr(out, " ")
			}
			out = concatStr(out, fmtValue(fr, 'v', "", a))
		}
		return concatStr(out, "\n")
	})
	for _, n := range []string{"fmt.Println", "fmt.Printf", "fmt.Print", "fmt.Fprintf", "fmt.Fprintln", "fmt.Fprint"} {
		e.reg(n, retZero)
	}

	// --- strconv
	e.reg("strconv.Itoa", func(fr *frame, args []value) value {
		switch x := args[0].(type) {
		case int64:
			return strconv.FormatInt(x, 10)
		case *Term:
			return decStr(x)
		}
		panic("Itoa")
	})
	e.reg("strconv.FormatUint", func(fr *frame, args []value) value {
		base := args[1].(int64)
		switch x := args[0].(type) {
		case uint64:
			return strconv.FormatUint(x, int(base))
		case *Term:
			if base == 10 {
				return decStr(x)
			}
		}
		abort("unmodelled", "FormatUint symbolic base %d", base)
		return nil
	})
	e.reg("strconv.FormatInt", func(fr *frame, args []value) value {
		base := args[1].(int64)
		switch x := args[0].(type) {
		case int64:
			return strconv.FormatInt(x, int(base))
		case *Term:
			if base == 10 {
				return decStr(x)
			}
		}
		abort("unmodelled", "FormatInt symbolic base %d", base)
		return nil
	})

	// --- bytes / strings primitives that must be span-aware
	e.reg("bytes.Equal", func(fr *frame, args []value) value {
		return eqCells(fr, args[0].([]value), args[1].([]value))
	})
	e.reg("bytes.Compare", func(fr *frame, args []value) value {
		return compareCells(fr, args[0].([]value), args[1].([]value))
	})
	e.reg("bytes.HasPrefix", func(fr *frame, args []value) value {
		s, pre := args[0].([]value), args[1].([]value)
		if len(pre) > len(s) {
			return false
		}
		return eqCells(fr, s[:len(pre)], pre)
	})
	e.reg("bytes.HasSuffix", func(fr *frame, args []value) value {
		s, suf := args[0].([]value), args[1].([]value)
		if len(suf) > len(s) {
			return false
		}
		return eqCells(fr, s[len(s)-len(suf):], suf)
	})
	e.reg("strings.HasPrefix", func(fr *frame, args []value) value {
		if s, ok := args[0].(string); ok {
			if p, ok := args[1].(string); ok {
				return strings.HasPrefix(s, p)
			}
		}
		s, pre := strCells(fr, args[0]), strCells(fr, args[1])
		if len(pre) > len(s) {
			return false
		}
		return eqCells(fr, s[:len(pre)], pre)
	})
	// strings.* on symbolic strings: run the bytes.* twin from SSA on the cells
	viaBytes := func(name string, nStr int, resKind string) {
		e.reg("strings."+name, func(fr *frame, args []value) value {
			allConc := true
			for i := 0; i < nStr; i++ {
				if _, ok := args[i].(string); !ok {
					allConc = false
				}
			}
			real := e.pkg("strings").Func(name)
			if allConc {
				return runBody(fr, real, args)
			}
			twin := e.pkg("bytes").Func(name)
			bargs := make([]value, len(args))
			copy(bargs, args)
			for i := 0; i < nStr; i++ {
				bargs[i] = strCells(fr, args[i])
			}
			res := call(fr, fr.callpos, twin, bargs)
			switch resKind {
			case "strs":
				in, _ := res.([]value)
				if in == nil {
					return []value(nil)
				}
				out := make([]value, len(in))
				for i, b := range in {
					out[i] = cellsToString(b.([]value))
				}
				return out
			case "str":
				return cellsToString(res.([]value))
			}
			return res
		})
	}
	viaBytes("Split", 2, "strs")
	viaBytes("SplitN", 2, "strs")
	viaBytes("Count", 2, "")
	viaBytes("Contains", 2, "")
	viaBytes("HasSuffix", 2, "")
	viaBytes("TrimPrefix", 2, "str")
	viaBytes("TrimSuffix", 2, "str")
	e.reg("strings.Join", func(fr *frame, args []value) value {
		elems, _ := args[0].([]value)
		var out value = ""
		for i, el := range elems {
			if i > 0 {
				out = concatStr(out, args[1])
			}
			out = concatStr(out, el)
		}
		return out
	})
	e.reg("strings.ToLower", strFn1(strings.ToLower))
	e.reg("strings.ToUpper", strFn1(strings.ToUpper))
	e.reg("strings.TrimSpace", strFn1(strings.TrimSpace))
	e.reg("strings.EqualFold", func(fr *frame, args []value) value {
		a, ok1 := args[0].(string)
		b, ok2 := args[1].(string)
		if ok1 && ok2 {
			return strings.EqualFold(a, b)
		}
		abort("unmodelled", "EqualFold on symbolic strings")
		return nil
	})
	e.reg("internal/bytealg.IndexByteString", func(fr *frame, args []value) value {
		s, ok := args[0].(string)
		if !ok {
			abort("unmodelled", "IndexByteString symbolic")
		}
		return int64(strings.IndexByte(s, byte(args[1].(uint64))))
	})
	e.reg("internal/bytealg.IndexString", func(fr *frame, args []value) value {
		return int64(strings.Index(args[0].(string), args[1].(string)))
	})
	e.reg("internal/bytealg.CountString", func(fr *frame, args []value) value {
		return int64(strings.Count(args[0].(string), string([]byte{byte(args[1].(uint64))})))
	})
	e.reg("strings.Index", func(fr *frame, args []value) value {
		a, ok1 := args[0].(string)
		b, ok2 := args[1].(string)
		if ok1 && ok2 {
			return int64(strings.Index(a, b))
		}
		abort("unmodelled", "strings.Index on symbolic strings")
		return nil
	})
	e.reg("internal/bytealg.IndexByte", func(fr *frame, args []value) value {
		s := args[0].([]value)
		c := args[1]
		for i, b := range s {
			eq := eqValue(fr, types.Typ[types.Uint8], b, c)
			if fr.p.branch(fr, eq, nil) {
				return int64(i)
			}
		}
		return int64(-1)
	})
	e.reg("internal/bytealg.CompareString", func(fr *frame, args []value) value {
		a, ok1 := args[0].(string)
		b, ok2 := args[1].(string)
		if ok1 && ok2 {
			return int64(strings.Compare(a, b))
		}
		return compareCells(fr, strCells(fr, args[0]), strCells(fr, args[1]))
	})
	e.reg("internal/bytealg.Count", func(fr *frame, args []value) value {
		n := int64(0)
		for _, b := range args[0].([]value) {
			eq := eqValue(fr, types.Typ[types.Uint8], b, args[1])
			if fr.p.branch(fr, eq, nil) {
				n++
			}
		}
		return n
	})
	e.reg("internal/bytealg.Equal", func(fr *frame, args []value) value {
		return eqCells(fr, args[0].([]value), args[1].([]value))
	})
	e.reg("internal/bytealg.Compare", func(fr *frame, args []value) value {
		return compareCells(fr, args[0].([]value), args[1].([]value))
	})
	e.reg("internal/bytealg.MakeNoZero", func(fr *frame, args []value) value {
		n := args[0].(int64)
		out := make([]value, n)
		for i := range out {
			out[i] = uint64(0)
		}
		return out
	})
	e.reg("(*strings.Builder).copyCheck", nop)
	e.reg("unsafe.String", func(fr *frame, args []value) value {
		abort("unmodelled", "unsafe.String")
		return nil
	})
	e.reg("(*strings.Builder).String", func(fr *frame, args []value) value {
		// Builder{addr *Builder; buf []byte}
		b := (*args[0].(*value)).(structure)
		buf, _ := b[1].([]value)
		return cellsToString(buf)
	})
	e.reg("strings.Clone", func(fr *frame, args []value) value { return args[0] })

	// --- os / time (environment is nondeterministic input, see C08)
	e.reg("os.Getenv", func(fr *frame, args []value) value {
		v, _ := envLookup(fr, strArg(args[0]))
		return v
	})
	e.reg("os.LookupEnv", func(fr *frame, args []value) value {
		v, ok := envLookup(fr, strArg(args[0]))
		return tuple{v, ok}
	})

	// --- runtime bits
	e.reg("runtime.Callers", func(fr *frame, args []value) value { return int64(0) })
	e.reg("runtime.Caller", func(fr *frame, args []value) value { return tuple{uint64(0), "", int64(0), false} })
	e.reg("runtime.FuncForPC", func(fr *frame, args []value) value { return (*value)(nil) })
	e.reg("runtime.KeepAlive", nop)
	e.reg("runtime.SetFinalizer", nop)
	e.reg("runtime.GC", nop)
	e.reg("runtime.Gosched", nop)
	e.reg("runtime/debug.Stack", func(fr *frame, args []value) value { return stringCells("<stack>") })
	e.reg("runtime/debug.PrintStack", nop)

	// math on concrete floats
	f1 := func(name string, f func(float64) float64) {
		e.reg("math."+name, func(fr *frame, args []value) value {
			x, ok := args[0].(float64)
			if !ok {
				abort("unmodelled", "math.%s of symbolic float", name)
			}
			return f(x)
		})
	}
	f1("Floor", math.Floor)
	f1("Ceil", math.Ceil)
	f1("Abs", math.Abs)
	f1("Sqrt", math.Sqrt)
	f1("Round", math.Round)
	f1("Trunc", math.Trunc)
	e.reg("math.Float64bits", func(fr *frame, args []value) value {
		x, ok := args[0].(float64)
		if !ok {
			abort("unmodelled", "math.Float64bits of symbolic float")
		}
		return math.Float64bits(x)
	})
	e.reg("math.Float64frombits", func(fr *frame, args []value) value {
		x, ok := args[0].(uint64)
		if !ok {
			abort("unmodelled", "math.Float64frombits symbolic")
		}
		return math.Float64frombits(x)
	})
	e.reg("math.IsNaN", func(fr *frame, args []value) value {
		x, ok := args[0].(float64)
		if !ok {
			return false // the real-arithmetic model has no NaN
		}
		return math.IsNaN(x)
	})
	e.reg("math.IsInf", func(fr *frame, args []value) value {
		x, ok := args[0].(float64)
		if !ok {
			return false
		}
		return math.IsInf(x, int(args[1].(int64)))
	})
	e.reg("math.Signbit", func(fr *frame, args []value) value {
		x, ok := args[0].(float64)
		if !ok {
			t, _ := toTerm(args[0])
			return simp(Op("<", SBool, t, RealConst("0.0")))
		}
		return math.Signbit(x)
	})
	e.reg("math.Pow", func(fr *frame, args []value) value {
		x, ok1 := args[0].(float64)
		y, ok2 := args[1].(float64)
		if !ok1 || !ok2 {
			abort("unmodelled", "math.Pow symbolic")
		}
		return math.Pow(x, y)
	})
	e.reg("math.Max", func(fr *frame, args []value) value {
		x, ok1 := args[0].(float64)
		y, ok2 := args[1].(float64)
		if !ok1 || !ok2 {
			abort("unmodelled", "math.Max symbolic")
		}
		return math.Max(x, y)
	})
	e.reg("math.Min", func(fr *frame, args []value) value {
		x, ok1 := args[0].(float64)
		y, ok2 := args[1].(float64)
		if !ok1 || !ok2 {
			abort("unmodelled", "math.Min symbolic")
		}
		return math.Min(x, y)
	})
	// math/bits used by a few helpers
	e.reg("math/bits.Len64", func(fr *frame, args []value) value {
		if x, ok := args[0].(uint64); ok {
			n := 0
			for ; x != 0; x >>= 1 {
				n++
			}
			return int64(n)
		}
		abort("unmodelled", "bits.Len64 symbolic")
		return nil
	})
}

func strFn1(f func(string) string) intrinsic {
	return func(fr *frame, args []value) value {
		s, ok := args[0].(string)
		if !ok {
			abort("unmodelled", "string function on symbolic string in %s", fr.fn)
		}
		return f(s)
	}
}

// envLookup models the process environment: by default every variable is
// unset; harnesses for C08 switch it to symbolic via sym.EnvSymbolic.
func envLookup(fr *frame, name string) (value, value) {
	if mode, _ := fr.p.hostState["env"].(string); mode == "symbolic" {
		key := "env:" + name
		if v, ok := fr.p.hostState[key]; ok {
			pair := v.([2]value)
			return pair[0], pair[1]
		}
		if explicit, _ := fr.p.hostState["env-explicit"].(bool); explicit {
			return "", false
		}
		set := fr.p.newInput("envset:"+name, SBool, nil, nil)
		// value: one of a few representative strings chosen symbolically
		choices := []string{"", "1", "true", "0"}
		k := fr.p.choose(fr, len(choices), "envval:"+name)
		var val value = choices[k]
		isSet := fr.p.branch(fr, set, nil)
		if !isSet {
			val = ""
		}
		fr.p.hostState[key] = [2]value{val, isSet}
		return val, isSet
	}
	return "", false
}

func (e *Engine) methodByName(t types.Type, name string) *ssa.Function {
	ms := e.prog.MethodSets.MethodSet(t)
	for i := 0; i < ms.Len(); i++ {
		sel := ms.At(i)
		if sel.Obj().Name() == name {
			return e.prog.MethodValue(sel)
		}
	}
	return nil
}

func isComparable(t types.Type) bool { return types.Comparable(t) }

func errorsIs(fr *frame, err, target iface) value {
	e := fr.p.eng
	if err.t == nil || target.t == nil {
		return err.t == nil && target.t == nil
	}
	cmp := isComparable(target.t)
	var rec func(err iface) value
	rec = func(err iface) value {
		for {
			if err.t == nil {
				return false
			}
			if cmp && types.Identical(err.t, target.t) {
				eq := eqValue(fr, err.t, err.v, target.v)
				if fr.p.branch(fr, eq, nil) {
					return true
				}
			}
			if m := e.methodByName(err.t, "Is"); m != nil && m.Signature.Params().Len() == 1 && m.Signature.Results().Len() == 1 {
				r := call(fr, fr.callpos, m, []value{err.v, target})
				if fr.p.branch(fr, r, nil) {
					return true
				}
			}
			m := e.methodByName(err.t, "Unwrap")
			if m == nil || m.Signature.Results().Len() != 1 {
				return false
			}
			res := call(fr, fr.callpos, m, []value{err.v})
			switch r := res.(type) {
			case iface:
				err = r
			case []value:
				for _, sub := range r {
					if b := rec(sub.(iface)); b == true {
						return true
					}
				}
				return false
			default:
				return false
			}
		}
	}
	return rec(err)
}

func errorsAs(fr *frame, err, target iface) value {
	e := fr.p.eng
	if target.t == nil {
		panic(targetPanic{iface{e.runtimeErrorString, "errors: target cannot be nil"}})
	}
	ptr, ok := target.t.Underlying().(*types.Pointer)
	if !ok {
		panic(targetPanic{iface{e.runtimeErrorString, "errors: target must be a non-nil pointer"}})
	}
	elem := ptr.Elem()
	cell := target.v.(*value)
	var rec func(err iface) bool
	rec = func(err iface) bool {
		for {
			if err.t == nil {
				return false
			}
			if _, isIface := elem.Underlying().(*types.Interface); isIface {
				if types.AssignableTo(err.t, elem) {
					*cell = err
					return true
				}
			} else if types.Identical(err.t, elem) {
				store(elem, cell, err.v)
				return true
			}
			if m := e.methodByName(err.t, "As"); m != nil && m.Signature.Params().Len() == 1 {
				r := call(fr, fr.callpos, m, []value{err.v, target})
				if fr.p.branch(fr, r, nil) {
					return true
				}
			}
			m := e.methodByName(err.t, "Unwrap")
			if m == nil || m.Signature.Results().Len() != 1 {
				return false
			}
			res := call(fr, fr.callpos, m, []value{err.v})
			switch r := res.(type) {
			case iface:
				err = r
			case []value:
				for _, sub := range r {
					if rec(sub.(iface)) {
						return true
					}
				}
				return false
			default:
				return false
			}
		}
	}
	return rec(err)
}

// ---- formatting ---------------------------------------------------------------------

// fmtValue renders one operand for verb v.
func fmtValue(fr *frame, verb rune, flags string, a value) value {
	e := fr.p.eng
	if it, ok := a.(iface); ok {
		if it.t == nil {
			if verb == 's' {
				return "%!s(<nil>)"
			}
			return "<nil>"
		}
		// error / Stringer
		if verb == 'v' || verb == 's' || verb == 'q' {
			if m := e.methodByName(it.t, "Error"); m != nil && m.Signature.Params().Len() == 0 {
				if p, ok := it.v.(*value); ok && p == nil {
					return "<nil>"
				}
				return callStr(fr, m, it.v)
			}
			if m := e.methodByName(it.t, "String"); m != nil && m.Signature.Params().Len() == 0 && m.Signature.Results().Len() == 1 {
				if p, ok := it.v.(*value); ok && p == nil {
					return "<nil>"
				}
				return callStr(fr, m, it.v)
			}
		}
		return fmtBasic(fr, verb, flags, it.t, it.v)
	}
	return fmtBasic(fr, verb, flags, nil, a)
}

func callStr(fr *frame, m *ssa.Function, recv value) (res value) {
	defer func() {
		if r := recover(); r != nil {
			if pa, ok := r.(pathAbort); ok && pa.kind != "unmodelled" {
				panic(r)
			}
			res = "<" + m.Name() + "()>"
		}
	}()
	return call(fr, fr.callpos, m, []value{recv})
}

func fmtBasic(fr *frame, verb rune, flags string, t types.Type, v value) value {
	f := "%" + flags + string(verb)
	switch x := v.(type) {
	case bool:
		return fmt.Sprintf(f, x)
	case int64:
		return fmt.Sprintf(f, x)
	case uint64:
		if t != nil {
			if b := basicOf(t); b != nil && b.Kind() == types.Uint8 && (verb == 'v' || verb == 'd') {
				return fmt.Sprintf(f, uint8(x))
			}
		}
		return fmt.Sprintf(f, x)
	case float64:
		return fmt.Sprintf(f, x)
	case string:
		return fmt.Sprintf(f, x)
	case *Term:
		if x.sort == SInt && (verb == 'd' || verb == 'v') && flags == "" {
			return decStr(x)
		}
		if x.sort == SBool {
			return &SymStr{parts: []strPart{{kind: "s", t: Ite(x, StrConst("true"), StrConst("false"))}}}
		}
		return &SymStr{parts: []strPart{{kind: "s", t: App(fmt.Sprintf("fmt_%c_%s", verb, sanitize(flags)), SStr, x)}}}
	case spanByte:
		return fmtBasic(fr, verb, flags, t, x.term())
	case *SymStr:
		if verb == 's' || verb == 'v' {
			return x
		}
		return "<symstr>"
	case []value:
		// byte slices with %x / %s
		allConc := true
		for _, c := range x {
			if !isConcByte(c) {
				allConc = false
			}
		}
		isBytes := false
		if t != nil {
			if s, ok := t.Underlying().(*types.Slice); ok {
				if b := basicOf(s.Elem()); b != nil && b.Kind() == types.Uint8 {
					isBytes = true
				}
			}
		}
		if isBytes && allConc {
			b := make([]byte, len(x))
			for i, c := range x {
				b[i] = byte(c.(uint64))
			}
			return fmt.Sprintf(f, b)
		}
		if isBytes && (verb == 's') {
			return cellsToString(x)
		}
		if isBytes && verb == 'x' && flags == "" {
			return cellsToString(hexNibbleCells(fr, x))
		}
		if isBytes && (verb == 'x' || verb == 'X') {
			return hexOfCells(x, verb == 'X')
		}
		var out value = "["
		for i, c := range x {
			if i > 0 {
				out = concatStr(out, " ")
			}
			out = concatStr(out, fmtValue(fr, verb, flags, c))
		}
		return concatStr(out, "]")
	case array:
		return fmtBasic(fr, verb, flags, nil, []value(x))
	case *value:
		if x == nil {
			return "<nil>"
		}
		return "0xc000000000"
	case bigVal:
		if x.t != nil {
			return decStr(x.t)
		}
		return x.conc().String()
	case timeVal:
		return "<time>"
	case structure:
		var out value = "{"
		for i, c := range x {
			if i > 0 {
				out = concatStr(out, " ")
			}
			out = concatStr(out, fmtValue(fr, 'v', "", c))
		}
		return concatStr(out, "}")
	case iface:
		return fmtValue(fr, verb, flags, x)
	case *gomap:
		return "map[...]"
	case nil:
		return "<nil>"
	}
	return fmt.Sprintf("<%T>", v)
}

func sanitize(s string) string {
	var sb strings.Builder
	for _, c := range s {
		if c >= '0' && c <= '9' || c >= 'a' && c <= 'z' {
			sb.WriteRune(c)
		} else {
			sb.WriteByte('_')
		}
	}
	return sb.String()
}

// hexOfCells renders bytes in hex; symbolic bytes become two symbolic nibbles.
func hexOfCells(cells []value, upper bool) value {
	var out value = ""
	for _, c := range cells {
		if cb, ok := c.(uint64); ok {
			if upper {
				out = concatStr(out, fmt.Sprintf("%02X", cb))
			} else {
				out = concatStr(out, fmt.Sprintf("%02x", cb))
			}
			continue
		}
		t, _ := toTerm(c)
		out = concatStr(out, &SymStr{parts: []strPart{{kind: "s", t: App("hexbyte", SStr, t)}}})
	}
	return out
}

func sprintf(fr *frame, format value, args []value) value {
	fs, ok := format.(string)
	if !ok {
		abort("unmodelled", "Sprintf with symbolic format")
	}
	var out value = ""
	argi := 0
	i := 0
	for i < len(fs) {
		c := fs[i]
		if c != '%' {
			j := strings.IndexByte(fs[i:], '%')
			if j < 0 {
				j = len(fs) - i
			}
			out = concatStr(out, fs[i:i+j])
			i += j
			continue
		}
		// parse verb
		j := i + 1
		for j < len(fs) && strings.IndexByte("+-# 0123456789.*[]", fs[j]) >= 0 {
			j++
		}
		if j >= len(fs) {
			out = concatStr(out, "%!(NOVERB)")
			break
		}
		verb := rune(fs[j])
		flags := fs[i+1 : j]
		i = j + 1
		if verb == '%' {
			out = concatStr(out, "%")
			continue
		}
		if argi >= len(args) {
			out = concatStr(out, "%!"+string(verb)+"(MISSING)")
			continue
		}
		a := args[argi]
		argi++
		if verb == 'w' {
			verb = 'v'
		}
		if verb == 'T' {
			if it, ok := a.(iface); ok && it.t != nil {
				out = concatStr(out, it.t.String())
			} else {
				out = concatStr(out, "<nil>")
			}
			continue
		}
		out = concatStr(out, fmtValue(fr, verb, flags, a))
	}
	return out
}

// fmtErrorf builds *fmt.wrapError / *fmt.wrapErrors / *errors.errorString values.
func fmtErrorf(fr *frame, format value, args []value) value {
	e := fr.p.eng
	msg := sprintf(fr, format, args)
	fs, _ := format.(string)
	// find %w operands
	var wrapped []value
	argi := 0
	for i := 0; i < len(fs); i++ {
		if fs[i] != '%' {
			continue
		}
		j := i + 1
		for j < len(fs) && strings.IndexByte("+-# 0123456789.*[]", fs[j]) >= 0 {
			j++
		}
		if j >= len(fs) {
			break
		}
		if fs[j] == '%' {
			i = j
			continue
		}
		if fs[j] == 'w' && argi < len(args) {
			if it, ok := args[argi].(iface); ok && it.t != nil {
				wrapped = append(wrapped, it)
			}
		}
		argi++
		i = j
	}
	switch len(wrapped) {
	case 0:
		t := e.namedType("fmt", "wrapError") // reuse layout-free: use errors.errorString
		_ = t
		et := e.namedType("errors", "errorString")
		var cell value = structure{msg}
		return iface{t: types.NewPointer(et), v: &cell}
	case 1:
		wt := e.namedType("fmt", "wrapError")
		var cell value = structure{msg, wrapped[0]}
		return iface{t: types.NewPointer(wt), v: &cell}
	default:
		wt := e.namedType("fmt", "wrapErrors")
		var cell value = structure{msg, wrapped}
		return iface{t: types.NewPointer(wt), v: &cell}
	}
}

var _ = big.NewInt
