package main

// Byte-cell sequences ([]byte contents and symbolic strings).

import (
	"fmt"
	"math/big"
	"strings"
)

func isConcByte(v value) bool {
	_, ok := v.(uint64)
	return ok
}

// cellsToString converts byte cells to a string value.
func cellsToString(cells []value) value {
	if len(cells) >= 1 {
		// concatenations of plain bytes and "str" blobs convert back to strings
		hasStr := false
		for _, c := range cells {
			if b, ok := c.(blobByte); ok && b.kind == "str" {
				hasStr = true
			}
		}
		if hasStr {
			var out value = ""
			run := []value{}
			flush := func() {
				if len(run) > 0 {
					out = concatStr(out, cellsToString(run))
					run = []value{}
				}
			}
			for _, c := range cells {
				if b, ok := c.(blobByte); ok && b.kind == "str" {
					flush()
					out = concatStr(out, b.v)
				} else {
					run = append(run, c)
				}
			}
			flush()
			return out
		}
	}
	allConc := true
	for _, c := range cells {
		if !isConcByte(c) {
			allConc = false
			break
		}
	}
	if allConc {
		b := make([]byte, len(cells))
		for i, c := range cells {
			b[i] = byte(c.(uint64))
		}
		return string(b)
	}
	cp := make([]value, len(cells))
	copy(cp, cells)
	return &SymStr{parts: []strPart{{kind: "b", cells: cp}}}
}

// strCells converts a string value to byte cells (fresh slice).
func strCells(fr *frame, x value) []value {
	switch x := x.(type) {
	case string:
		return stringCells(x)
	case *SymStr:
		return x.toCells(fr)
	}
	panic(fmt.Sprintf("strCells: %T", x))
}

func (s *SymStr) toCells(fr *frame) []value {
	var out []value
	for _, p := range s.parts {
		switch p.kind {
		case "":
			out = append(out, stringCells(p.s)...)
		case "b":
			out = append(out, p.cells...)
		default:
			// variable-length symbolic text: the whole string becomes one opaque cell
			return []value{blobByte{kind: "str", v: s}}
		}
	}
	if out == nil {
		out = []value{}
	}
	return out
}

func (s *SymStr) fixedLen() (int, bool) {
	n := 0
	for _, p := range s.parts {
		switch p.kind {
		case "":
			n += len(p.s)
		case "b":
			n += len(p.cells)
		default:
			return 0, false
		}
	}
	return n, true
}

func (s *SymStr) length(fr *frame) int {
	n, ok := s.fixedLen()
	if !ok {
		abort("unmodelled", "len of formatted symbolic string %s", s)
	}
	return n
}

func strParts(x value) []strPart {
	switch x := x.(type) {
	case string:
		if x == "" {
			return nil
		}
		return []strPart{{s: x}}
	case *SymStr:
		return x.parts
	}
	panic(fmt.Sprintf("strParts: %T", x))
}

func normParts(ps []strPart) value {
	var out []strPart
	for _, p := range ps {
		if p.kind == "" && p.s == "" {
			continue
		}
		if p.kind == "" && len(out) > 0 && out[len(out)-1].kind == "" {
			out[len(out)-1].s += p.s
			continue
		}
		out = append(out, p)
	}
	if len(out) == 0 {
		return ""
	}
	if len(out) == 1 && out[0].kind == "" {
		return out[0].s
	}
	return &SymStr{parts: out}
}

func concatStr(x, y value) value {
	ps := append(append([]strPart{}, strParts(x)...), strParts(y)...)
	return normParts(ps)
}

// decStr renders a symbolic integer in decimal.
func decStr(t *Term) value {
	if t.isConst() {
		return t.ival.String()
	}
	return &SymStr{parts: []strPart{{kind: "d", t: t}}}
}

// smtOfStr converts a string value to an SMT String term.
func smtOfStr(fr *frame, x value) *Term {
	var ts []*Term
	for _, p := range strParts(x) {
		switch p.kind {
		case "":
			ts = append(ts, StrConst(p.s))
		case "d":
			neg := Lt(p.t, IntConst64(0))
			abs := Ite(neg, Neg(p.t), p.t)
			d := Op("str.from_int", SStr, abs)
			if p.t.lo != nil && p.t.lo.Sign() >= 0 {
				ts = append(ts, d)
			} else {
				ts = append(ts, Ite(neg, Op("str.++", SStr, StrConst("-"), d), d))
			}
		case "s":
			ts = append(ts, p.t)
		case "b":
			for _, c := range p.cells {
				if cb, ok := c.(uint64); ok {
					ts = append(ts, StrConst(string([]byte{byte(cb)})))
				} else {
					abort("unmodelled", "symbolic bytes inside SMT string")
				}
			}
		}
	}
	switch len(ts) {
	case 0:
		return StrConst("")
	case 1:
		return ts[0]
	}
	return Op("str.++", SStr, ts...)
}

// opaqueAddr recognises the opaque rendering "0x~"+20 cells of a symbolic address.
func opaqueAddr(v value) ([]value, bool) {
	ss, ok := v.(*SymStr)
	if !ok || len(ss.parts) != 2 || ss.parts[0].s != "0x~" || ss.parts[1].kind != "b" || len(ss.parts[1].cells) != 20 {
		return nil, false
	}
	return ss.parts[1].cells, true
}

func eqStr(fr *frame, x, y value) value {
	// Address.Hex() of a symbolic address against a concrete checksummed hex string:
	// Hex is injective, so compare the address bytes (only a correctly
	// checksummed string can be equal to a Hex() result)
	for _, pair := range [][2]value{{x, y}, {y, x}} {
		if cells, ok := opaqueAddr(pair[0]); ok {
			if cs, ok := pair[1].(string); ok {
				if len(cs) != 42 {
					return false
				}
				b := fromHexLenient(cs)
				if len(b) != 20 || eip55(b) != cs {
					return false
				}
				return eqCells(fr, cells, bytesToCells(b))
			}
		}
	}
	px, py := strParts(x), strParts(y)
	fixed := func(ps []strPart) bool {
		for _, p := range ps {
			if p.kind != "" && p.kind != "b" {
				return false
			}
		}
		return true
	}
	if fixed(px) && fixed(py) {
		return eqCells(fr, strCells(fr, x), strCells(fr, y))
	}
	// structurally aligned?
	if len(px) == len(py) {
		aligned := true
		var conj []*Term
		for i := range px {
			a, b := px[i], py[i]
			if a.kind != b.kind {
				aligned = false
				break
			}
			switch a.kind {
			case "":
				if a.s != b.s {
					aligned = false
				}
			case "d", "s":
				conj = append(conj, Eq(a.t, b.t))
			default:
				aligned = false
			}
			if !aligned {
				break
			}
		}
		// alignment is only a sound shortcut when separators between symbolic
		// parts cannot be produced by the parts themselves: decimal parts never
		// contain non-digit separators.
		if aligned && sepSafe(px) {
			return simp(And(conj...))
		}
	}
	fr.p.usedStrings = true
	return simp(Eq(smtOfStr(fr, x), smtOfStr(fr, y)))
}

// sepSafe: every pair of adjacent symbolic parts is separated by a concrete part
// that starts with a non-digit, non '-' byte, and all symbolic parts are decimal.
func sepSafe(ps []strPart) bool {
	for i, p := range ps {
		if p.kind == "" {
			continue
		}
		if p.kind != "d" {
			return false
		}
		if i+1 < len(ps) {
			n := ps[i+1]
			if n.kind != "" || n.s == "" || (n.s[0] >= '0' && n.s[0] <= '9') {
				return false
			}
		}
	}
	return true
}

// ---- cell comparison ---------------------------------------------------------

type chunk struct {
	t     *Term // integer value of the chunk (big-endian)
	width int
}

// spanAt reports a full aligned span starting at cells[i].
func spanAt(cells []value, i int) (spanByte, bool) {
	sb, ok := cells[i].(spanByte)
	if !ok || sb.idx != 0 || i+sb.width > len(cells) {
		return sb, false
	}
	for j := 1; j < sb.width; j++ {
		o, ok := cells[i+j].(spanByte)
		if !ok || o.t != sb.t || o.idx != j || o.width != sb.width {
			return sb, false
		}
	}
	return sb, true
}

// runAt returns the length of the maximal run of consecutive bytes of one span
// starting at cells[i] (0 if cells[i] is not a span byte).
func runAt(cells []value, i int) int {
	sb, ok := cells[i].(spanByte)
	if !ok {
		return 0
	}
	n := 1
	for i+n < len(cells) {
		o, ok := cells[i+n].(spanByte)
		if !ok || o.t != sb.t || o.width != sb.width || o.idx != sb.idx+n {
			break
		}
		n++
	}
	return n
}

// intOf builds the big-endian integer of cells[i:i+w].
func intOf(cells []value, i, w int) *Term {
	if sb, ok := spanAt(cells, i); ok && sb.width == w {
		return sb.t
	}
	// a run of consecutive bytes of one span: (t div 256^k) mod 256^w
	if r := runAt(cells, i); r >= w && w > 0 {
		sb := cells[i].(spanByte)
		below := sb.width - sb.idx - w // bytes of the span after this run
		t := sb.t
		if below > 0 {
			t = EDiv(t, IntConst(new(big.Int).Lsh(big1, uint(8*below))))
		}
		if sb.idx > 0 {
			t = EMod(t, IntConst(new(big.Int).Lsh(big1, uint(8*w))))
		}
		return t
	}
	allConc := true
	for j := 0; j < w; j++ {
		if !isConcByte(cells[i+j]) {
			allConc = false
		}
	}
	if allConc {
		v := new(big.Int)
		for j := 0; j < w; j++ {
			v.Lsh(v, 8)
			v.Or(v, new(big.Int).SetUint64(cells[i+j].(uint64)))
		}
		return IntConst(v)
	}
	acc := IntConst64(0)
	for j := 0; j < w; {
		// nested runs inside a mixed chunk
		if r := runAt(cells, i+j); r > 1 {
			if r > w-j {
				r = w - j
			}
			acc = Add(Mul(acc, IntConst(new(big.Int).Lsh(big1, uint(8*r)))), intOf(cells, i+j, r))
			j += r
			continue
		}
		ct, ok := toTerm(cells[i+j])
		if !ok {
			abort("unmodelled", "non-byte cell %T in byte comparison", cells[i+j])
		}
		acc = Add(Mul(acc, IntConst64(256)), ct)
		j++
	}
	return acc
}

// chunks splits two equal-length cell runs into aligned chunk pairs.
func chunkPairs(xs, ys []value, n int) (cx, cy []*Term, widths []int) {
	i := 0
	for i < n {
		w := 1
		rx, ry := runAt(xs[:n], i), runAt(ys[:n], i)
		switch {
		case rx > 0 && ry > 0:
			w = rx
			if ry < w {
				w = ry
			}
		case rx > 0:
			w = rx
		case ry > 0:
			w = ry
		case isConcByte(xs[i]) && isConcByte(ys[i]):
			for i+w < n && w < 32 && isConcByte(xs[i+w]) && isConcByte(ys[i+w]) {
				w++
			}
		}
		if w > 1 && (rx == 0 || ry == 0) {
			// the other side must not start a span inside this chunk: cut at its first span byte
			other := ys
			if rx == 0 {
				other = xs
			}
			for j := 1; j < w; j++ {
				if _, isSpan := other[i+j].(spanByte); isSpan && (rx == 0) == (ry != 0) {
					// leave as is: intOf handles nested runs
					break
				}
			}
		}
		cx = append(cx, intOf(xs, i, w))
		cy = append(cy, intOf(ys, i, w))
		widths = append(widths, w)
		i += w
	}
	return
}

func hasBlob(cells []value) (blobByte, bool) {
	if len(cells) >= 1 {
		if b, ok := cells[0].(blobByte); ok {
			return b, true
		}
	}
	return blobByte{}, false
}

func anyBlob(cells []value) bool {
	for _, c := range cells {
		if _, ok := c.(blobByte); ok {
			return true
		}
	}
	return false
}

func eqCells(fr *frame, xs, ys []value) value {
	if anyBlob(xs) || anyBlob(ys) {
		// blobs stand for variable-length encodings: compare blob-by-blob and
		// the plain runs between them (encodings are never guessed byte-wise)
		if len(xs) == 0 || len(ys) == 0 {
			return false
		}
		var acc value = true
		i, j := 0, 0
		for i < len(xs) && j < len(ys) {
			bx, okx := xs[i].(blobByte)
			by, oky := ys[j].(blobByte)
			if okx != oky {
				fr.p.note("assumption used: an opaque encoding differs from given plain bytes")
				return false
			}
			if okx {
				acc = andValue(acc, eqBlob(fr, bx, by))
				i++
				j++
			} else {
				// plain run
				i2, j2 := i, j
				for i2 < len(xs) {
					if _, b := xs[i2].(blobByte); b {
						break
					}
					i2++
				}
				for j2 < len(ys) {
					if _, b := ys[j2].(blobByte); b {
						break
					}
					j2++
				}
				acc = andValue(acc, eqCells(fr, xs[i:i2], ys[j:j2]))
				i, j = i2, j2
			}
			if b, ok := acc.(bool); ok && !b {
				return false
			}
		}
		if i != len(xs) || j != len(ys) {
			return false
		}
		return acc
	}
	if len(xs) != len(ys) {
		return false
	}
	if hasHashByte(xs) || hasHashByte(ys) {
		return eqHashCells(fr, xs, ys)
	}
	cx, cy, _ := chunkPairs(xs, ys, len(xs))
	var conj []*Term
	for i := range cx {
		e := Eq(cx[i], cy[i])
		if e.isConst() && !e.bval {
			return false
		}
		conj = append(conj, e)
	}
	return simp(And(conj...))
}

// compareCells is bytes.Compare: -1, 0, +1 (int64 or Term).
func compareCells(fr *frame, xs, ys []value) value {
	if _, ok := hasBlob(xs); ok {
		abort("unmodelled", "ordering of opaque blob")
	}
	if _, ok := hasBlob(ys); ok {
		abort("unmodelled", "ordering of opaque blob")
	}
	n := len(xs)
	if len(ys) < n {
		n = len(ys)
	}
	cx, cy, _ := chunkPairs(xs, ys, n)
	var tail *Term
	switch {
	case len(xs) < len(ys):
		tail = IntConst64(-1)
	case len(xs) > len(ys):
		tail = IntConst64(1)
	default:
		tail = IntConst64(0)
	}
	res := tail
	for i := len(cx) - 1; i >= 0; i-- {
		res = Ite(Lt(cx[i], cy[i]), IntConst64(-1), Ite(Gt(cx[i], cy[i]), IntConst64(1), res))
	}
	if res.isConst() {
		return res.ival.Int64()
	}
	if res.lo == nil {
		res.lo, res.hi = bigM1, big1
	}
	return res
}

func eqBlob(fr *frame, a, b blobByte) value {
	if a.kind == "str" || b.kind == "str" {
		if a.kind != b.kind {
			return false
		}
		return eqStr(fr, a.v, b.v)
	}
	if a.key != nil && b.key != nil {
		return simp(Eq(a.key, b.key))
	}
	if a.kind != b.kind {
		return false
	}
	if a.t != nil && b.t != nil {
		if a.t.String() != b.t.String() {
			return false
		}
		return deepEq(fr, a.v, b.v)
	}
	if a.t == nil && b.t == nil {
		return deepEq(fr, a.v, b.v)
	}
	return false
}

// deepEq compares two snapshots structurally (pointers followed).
func deepEq(fr *frame, x, y value) value {
	switch x := x.(type) {
	case nil:
		return y == nil
	case bool, int64, uint64, float64, *Term, spanByte:
		if y == nil {
			return false
		}
		if !isSym(x) && !isSym(y) {
			return x == y
		}
		tx, ok1 := toTerm(x)
		ty, ok2 := toTerm(y)
		if !ok1 || !ok2 {
			return false
		}
		return simp(Eq(tx, ty))
	case string, *SymStr:
		switch y.(type) {
		case string, *SymStr:
		default:
			return false
		}
		if xs, ok := x.(string); ok {
			if ys, ok := y.(string); ok {
				return xs == ys
			}
		}
		return eqStr(fr, x, y)
	case *value:
		yp, ok := y.(*value)
		if !ok {
			return false
		}
		if x == nil || yp == nil {
			return x == nil && yp == nil
		}
		return deepEq(fr, *x, *yp)
	case structure:
		ys, ok := y.(structure)
		if !ok || len(ys) != len(x) {
			return false
		}
		var acc value = true
		for i := range x {
			acc = andValue(acc, deepEq(fr, x[i], ys[i]))
			if b, ok := acc.(bool); ok && !b {
				return false
			}
		}
		return acc
	case array:
		ys, ok := y.(array)
		if !ok || len(ys) != len(x) {
			return false
		}
		return deepEqSeq(fr, []value(x), []value(ys))
	case []value:
		ys, ok := y.([]value)
		if !ok {
			return false
		}
		if len(x) != len(ys) {
			return false
		}
		return deepEqSeq(fr, x, ys)
	case iface:
		yi, ok := y.(iface)
		if !ok {
			return false
		}
		if x.t == nil || yi.t == nil {
			return x.t == nil && yi.t == nil
		}
		if x.t.String() != yi.t.String() {
			return false
		}
		return deepEq(fr, x.v, yi.v)
	case bigVal:
		yb, ok := y.(bigVal)
		if !ok {
			return false
		}
		return simp(Eq(x.term(), yb.term()))
	case timeVal:
		yt, ok := y.(timeVal)
		if !ok {
			return false
		}
		if x.zero || yt.zero {
			return x.zero == yt.zero
		}
		if x.zone != yt.zone {
			// the same instant rendered in two zones: different bytes (RFC 3339 offset)
			return false
		}
		tx, _ := toTerm(x.ns)
		ty, _ := toTerm(yt.ns)
		return simp(Eq(tx, ty))
	case blobByte:
		yb, ok := y.(blobByte)
		if !ok {
			return false
		}
		return eqBlob(fr, x, yb)
	case *gomap:
		ym, ok := y.(*gomap)
		if !ok {
			return false
		}
		if x == nil || ym == nil {
			return (x == nil || len(x.entries) == 0) && (ym == nil || len(ym.entries) == 0)
		}
		if len(x.entries) != len(ym.entries) {
			return false
		}
		var acc value = true
		for _, e := range x.entries {
			v, ok := ym.lookup(fr, e.k)
			if !ok {
				return false
			}
			acc = andValue(acc, deepEq(fr, e.v, v))
		}
		return acc
	}
	abort("unmodelled", "deepEq on %T", x)
	return nil
}

func deepEqSeq(fr *frame, x, y []value) value {
	allBytes := len(x) > 0
	for i := range x {
		switch x[i].(type) {
		case uint64, spanByte, blobByte:
		case *Term:
		default:
			allBytes = false
		}
		switch y[i].(type) {
		case uint64, spanByte, blobByte:
		case *Term:
		default:
			allBytes = false
		}
	}
	if allBytes {
		return eqCells(fr, x, y)
	}
	var acc value = true
	for i := range x {
		acc = andValue(acc, deepEq(fr, x[i], y[i]))
		if b, ok := acc.(bool); ok && !b {
			return false
		}
	}
	return acc
}

// beCells returns the width-byte big-endian encoding of a non-negative integer.
func beCells(t *Term, width int) []value {
	out := make([]value, width)
	if t.isConst() {
		b := t.ival.FillBytes(make([]byte, width))
		for i := range out {
			out[i] = uint64(b[i])
		}
		return out
	}
	for i := range out {
		out[i] = spanByte{t: t, width: width, idx: i}
	}
	return out
}

func describeCells(cells []value) string {
	var sb strings.Builder
	for i, c := range cells {
		if i > 0 {
			sb.WriteByte(' ')
		}
		sb.WriteString(toString(c))
	}
	return sb.String()
}

func hasHashByte(cells []value) bool {
	for _, c := range cells {
		if _, ok := c.(hashByte); ok {
			return true
		}
	}
	return false
}

// fullHashAt reports a complete digest span starting at cells[i].
func fullHashAt(cells []value, i int) (*hashObj, int, bool) {
	hb, ok := cells[i].(hashByte)
	if !ok || hb.idx != 0 {
		return nil, 0, false
	}
	w := 0
	for j := i; j < len(cells); j++ {
		o, ok := cells[j].(hashByte)
		if !ok || o.h != hb.h || o.idx != j-i {
			break
		}
		w++
	}
	return hb.h, w, true
}

// eqHashCells compares byte strings containing digests of symbolic inputs.
// Digests are collision free (stated assumption): two digests are equal iff
// their inputs are equal; a symbolic digest is never equal to given concrete bytes
// (that would need a preimage).
func eqHashCells(fr *frame, xs, ys []value) value {
	var acc value = true
	i := 0
	for i < len(xs) {
		hx, wx, okx := fullHashAt(xs, i)
		hy, wy, oky := fullHashAt(ys, i)
		switch {
		case okx && oky:
			if wx != wy || hx.name != hy.name {
				return false
			}
			if hx != hy {
				if len(hx.input) != len(hy.input) {
					return false
				}
				acc = andValue(acc, eqCells(fr, hx.input, hy.input))
			}
			i += wx
		case okx || oky:
			w := wx
			other := ys
			if oky {
				w = wy
				other = xs
			}
			for j := i; j < i+w && j < len(other); j++ {
				if _, isH := other[j].(hashByte); isH {
					abort("unmodelled", "misaligned digest comparison")
				}
			}
			fr.p.note("assumption used: digest of symbolic input differs from given bytes")
			return false
		default:
			if _, isH := xs[i].(hashByte); isH {
				abort("unmodelled", "partial digest comparison")
			}
			if _, isH := ys[i].(hashByte); isH {
				abort("unmodelled", "partial digest comparison")
			}
			// find next hash position
			j := i
			for j < len(xs) {
				if _, isH := xs[j].(hashByte); isH {
					break
				}
				if _, isH := ys[j].(hashByte); isH {
					break
				}
				j++
			}
			acc = andValue(acc, eqCells(fr, xs[i:j], ys[i:j]))
			i = j
		}
		if b, ok := acc.(bool); ok && !b {
			return false
		}
	}
	return acc
}
