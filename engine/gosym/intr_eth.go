package main

import (
	"encoding/hex"
	"go/types"
	"strings"
)

func eip55(addr []byte) string {
	h := hex.EncodeToString(addr)
	hash := keccak256([]byte(h))
	out := []byte("0x" + h)
	for i := 0; i < len(h); i++ {
		c := h[i]
		if c >= 'a' && c <= 'f' {
			nib := hash[i/2]
			if i%2 == 0 {
				nib >>= 4
			} else {
				nib &= 0xf
			}
			if nib > 7 {
				out[2+i] = c - 32
			}
		}
	}
	return string(out)
}

func has0x(s string) bool {
	return len(s) >= 2 && s[0] == '0' && (s[1] == 'x' || s[1] == 'X')
}

func fromHexLenient(s string) []byte {
	if has0x(s) {
		s = s[2:]
	}
	if len(s)%2 == 1 {
		s = "0" + s
	}
	b, _ := hex.DecodeString(s) // geth's Hex2Bytes ignores errors (returns decoded prefix)
	return b
}

func registerEth(e *Engine) {
	cm := "github.com/ethereum/go-ethereum/common."
	hexOf := func(fr *frame, a array) value {
		b, ok := concBytes([]value(a))
		if ok {
			return eip55(b)
		}
		cp := make([]value, len(a))
		copy(cp, a)
		return &SymStr{parts: []strPart{{s: "0x~"}, {kind: "b", cells: cp}}}
	}
	hashHex := func(fr *frame, a []value) value {
		if b, ok := concBytes(a); ok {
			return "0x" + hex.EncodeToString(b)
		}
		cp := make([]value, len(a))
		copy(cp, a)
		return &SymStr{parts: []strPart{{s: "0xhash~"}, {kind: "b", cells: cp}}}
	}
	e.reg("("+cm+"Hash).Hex", func(fr *frame, args []value) value { return hashHex(fr, []value(args[0].(array))) })
	e.reg("("+cm+"Hash).String", func(fr *frame, args []value) value { return hashHex(fr, []value(args[0].(array))) })
	e.reg(cm+"hexutil.Encode", func(fr *frame, args []value) value { return hashHex(fr, args[0].([]value)) })
	e.reg("("+cm+"Address).Hex", func(fr *frame, args []value) value { return hexOf(fr, args[0].(array)) })
	e.reg("("+cm+"Address).String", func(fr *frame, args []value) value { return hexOf(fr, args[0].(array)) })
	e.reg("(*"+cm+"Address).checksumHex", func(fr *frame, args []value) value {
		s := hexOf(fr, (*args[0].(*value)).(array))
		return strCells(fr, s)
	})
	toAddr := func(b []byte) array {
		if len(b) > 20 {
			b = b[len(b)-20:]
		}
		out := make(array, 20)
		for i := range out {
			out[i] = uint64(0)
		}
		for i, c := range b {
			out[20-len(b)+i] = uint64(c)
		}
		return out
	}
	e.reg(cm+"HexToAddress", func(fr *frame, args []value) value {
		switch s := args[0].(type) {
		case string:
			return toAddr(fromHexLenient(s))
		case *SymStr:
			if len(s.parts) == 2 && s.parts[0].s == "0x~" && s.parts[1].kind == "b" && len(s.parts[1].cells) == 20 {
				out := make(array, 20)
				copy(out, s.parts[1].cells)
				return out
			}
		}
		abort("unmodelled", "HexToAddress of symbolic string")
		return nil
	})
	e.reg(cm+"IsHexAddress", func(fr *frame, args []value) value {
		switch s := args[0].(type) {
		case string:
			if has0x(s) {
				s = s[2:]
			}
			if len(s) != 40 {
				return false
			}
			_, err := hex.DecodeString(s)
			return err == nil
		case *SymStr:
			if len(s.parts) == 2 && s.parts[0].s == "0x~" {
				return true
			}
		}
		abort("unmodelled", "IsHexAddress of symbolic string")
		return nil
	})
	e.reg(cm+"BytesToAddress", func(fr *frame, args []value) value {
		cells := args[0].([]value)
		if len(cells) > 20 {
			cells = cells[len(cells)-20:]
		}
		out := make(array, 20)
		for i := range out {
			out[i] = uint64(0)
		}
		copy(out[20-len(cells):], cells)
		return out
	})
	e.reg(cm+"FromHex", func(fr *frame, args []value) value {
		if ss, ok := args[0].(*SymStr); ok {
			cells := ss.toCells(fr)
			if len(cells) >= 2 {
				if a, ok := cells[0].(uint64); ok && a == '0' {
					if b, ok := cells[1].(uint64); ok && (b == 'x' || b == 'X') {
						cells = cells[2:]
					}
				}
			}
			if len(cells)%2 == 1 {
				cells = append([]value{uint64('0')}, cells...)
			}
			if out, ok := unhexNibbleCells(fr, cells); ok {
				return out
			}
			abort("unmodelled", "FromHex of symbolic string %s", ss)
		}
		s, ok := args[0].(string)
		if !ok {
			abort("unmodelled", "FromHex of symbolic string")
		}
		return bytesToCells(fromHexLenient(s))
	})
	e.reg(cm+"Hex2Bytes", func(fr *frame, args []value) value {
		if ss, ok := args[0].(*SymStr); ok {
			// hex.DecodeString ignoring the error: the decoded prefix up to the
			// first non-hex character; an odd trailing digit is dropped.
			cells := ss.toCells(fr)
			if len(cells) >= 2 {
				if b, ok := cells[1].(uint64); ok && (b == 'x' || b == 'X') {
					return []value{}
				}
			}
			if len(cells)%2 == 1 {
				cells = cells[:len(cells)-1]
			}
			if out, ok := unhexNibbleCells(fr, cells); ok {
				return out
			}
			abort("unmodelled", "Hex2Bytes of symbolic string %s", ss)
		}
		s, ok := args[0].(string)
		if !ok {
			abort("unmodelled", "Hex2Bytes of symbolic string")
		}
		b, _ := hex.DecodeString(s)
		return bytesToCells(b)
	})
	e.reg(cm+"Bytes2Hex", func(fr *frame, args []value) value {
		cells := args[0].([]value)
		if b, ok := concBytes(cells); ok {
			return hex.EncodeToString(b)
		}
		return hexOfCells(cells, false)
	})
	// streaming keccak
	sha3T := "golang.org/x/crypto/sha3"
	mkState := func(fr *frame, args []value) value {
		t := e.namedType(sha3T, "state")
		var cell value = &hostHash{name: "keccak256", width: 32, real: keccak256}
		return iface{t: types.NewPointer(t), v: &cell}
	}
	e.reg(sha3T+".NewLegacyKeccak256", mkState)
	m := "(*" + sha3T + ".state)."
	get := func(args []value) *hostHash { return (*args[0].(*value)).(*hostHash) }
	e.reg(m+"Write", func(fr *frame, args []value) value {
		h := get(args)
		h.buf = append(h.buf, args[1].([]value)...)
		return tuple{int64(len(args[1].([]value))), iface{}}
	})
	e.reg(m+"Sum", func(fr *frame, args []value) value {
		h := get(args)
		in, _ := args[1].([]value)
		return append(in, hashCells(fr, h.name, h.width, h.buf, h.real)...)
	})
	e.reg(m+"Read", func(fr *frame, args []value) value {
		h := get(args)
		out := args[1].([]value)
		d := hashCells(fr, h.name, h.width, h.buf, h.real)
		n := copy(out, d)
		return tuple{int64(n), iface{}}
	})
	e.reg(m+"Reset", func(fr *frame, args []value) value {
		get(args).buf = nil
		return nil
	})
	_ = strings.ToLower
}
