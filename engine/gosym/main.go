package main

import (
	"encoding/json"
	"flag"
	"fmt"
	"os"
	"strings"
	"time"

	"golang.org/x/tools/go/ssa"
)

func findFunc(e *Engine, spec string) (*ssa.Function, error) {
	i := strings.LastIndex(spec, ".")
	if i < 0 {
		return nil, fmt.Errorf("entry must be <pkgpath>.<Func>")
	}
	pkg := e.pkg(spec[:i])
	if pkg == nil {
		return nil, fmt.Errorf("package %s not loaded", spec[:i])
	}
	fn := pkg.Func(spec[i+1:])
	if fn == nil {
		return nil, fmt.Errorf("function %s not found", spec)
	}
	return fn, nil
}

func cmdRun(args []string) int {
	fs := flag.NewFlagSet("run", flag.ExitOnError)
	dir := fs.String("dir", "/repo", "module directory")
	harness := fs.String("harness", "", "comma-separated harness dirs to overlay")
	verif := fs.String("verif", "/verif", "verif root (for zzverif packages)")
	pkgs := fs.String("pkgs", "", "comma-separated package patterns to load")
	entries := fs.String("entry", "", "comma-separated entry functions <pkg>.<Func>")
	workers := fs.Int("workers", 16, "workers")
	maxPaths := fs.Int("maxpaths", 100000, "path budget")
	timeout := fs.Int("timeout", 10000, "solver timeout ms")
	solver := fs.String("solver", "z3", "z3|z3-new|cvc5")
	trace := fs.Bool("trace", false, "trace calls")
	traceI := fs.Bool("tracei", false, "trace instructions")
	verbose := fs.Bool("v", false, "verbose")
	modelFile := fs.String("model", "", "replay JSON whose model is fixed (engine-side replay)")
	tierF := fs.String("tier", "quick", "tier")
	fs.Parse(args)
	var hd []string
	if *harness != "" {
		hd = strings.Split(*harness, ",")
	}
	ov, err := overlayFor(*dir, hd, *verif)
	if err != nil {
		fmt.Fprintln(os.Stderr, err)
		return 2
	}
	t0 := time.Now()
	e, err := LoadEngine(*dir, strings.Split(*pkgs, ","), ov)
	if err != nil {
		fmt.Fprintln(os.Stderr, "load:", err)
		return 2
	}
	fmt.Fprintf(os.Stderr, "loaded in %.1fs\n", time.Since(t0).Seconds())
	e.trace, e.traceInstr, e.verbose = *trace, *traceI, *verbose
	e.solverKind, e.timeoutMs = *solver, *timeout
	e.tier = *tierF
	if *modelFile != "" {
		b, err := os.ReadFile(*modelFile)
		if err != nil {
			fmt.Fprintln(os.Stderr, err)
			return 2
		}
		var doc struct {
			Model map[string]string `json:"model"`
		}
		json.Unmarshal(b, &doc)
		e.fixedModel = doc.Model
	}
	rc := 0
	for _, en := range strings.Split(*entries, ",") {
		fn, err := findFunc(e, en)
		if err != nil {
			fmt.Fprintln(os.Stderr, err)
			return 2
		}
		ex := NewExplorer(e, fn)
		ex.workers, ex.maxPaths = *workers, *maxPaths
		res := ex.Run()
		fmt.Print(res.Summary())
		for _, a := range res.Asserts {
			for _, s := range a.Samples {
				fmt.Printf("  VIOLATED %s model=%v detail=%s\n", a.Label, s.Model, s.Detail)
				rc = 1
			}
		}
		if *verbose {
			for _, n := range sortedKeys(res.Notes) {
				fmt.Printf("  note x%d: %s\n", res.Notes[n], n)
			}
		}
	}
	return rc
}

func main() {
	if len(os.Args) < 2 {
		fmt.Fprintln(os.Stderr, "usage: gosym run|check|selftest|replay ...")
		os.Exit(2)
	}
	switch os.Args[1] {
	case "run":
		os.Exit(cmdRun(os.Args[2:]))
	case "check":
		os.Exit(cmdCheck(os.Args[2:]))
	case "selftest":
		os.Exit(cmdSelftest(os.Args[2:]))
	case "replay":
		os.Exit(cmdReplay(os.Args[2:]))
	default:
		fmt.Fprintln(os.Stderr, "unknown command", os.Args[1])
		os.Exit(2)
	}
}
