package main

// Intrinsics for the Cosmos-SDK / protobuf environment: codecs as opaque
// blobs, Any packing, typed events, the reflect idiom of util/keeper, fixed
// width big-endian encodings as spans, time.Time, hashing.

import (
	"reflect"
	"crypto/md5"
	"crypto/sha256"
	"encoding/hex"
	"fmt"
	"go/constant"
	"go/types"
	"math/big"
	"strings"
	"time"

	"golang.org/x/tools/go/ssa"
)

// ---- deep copy ---------------------------------------------------------------------

type copyMemo struct {
	ptrs map[*value]*value
	maps map[*gomap]*gomap
	// stripZone: the encoding being modelled stores instants only (protobuf
	// timestamps are UTC); encoding/json keeps the zone offset of a time.Time
	stripZone bool
}

func newCopyMemo() *copyMemo {
	return &copyMemo{ptrs: map[*value]*value{}, maps: map[*gomap]*gomap{}}
}

func deepCopy(v value, memo map[*value]*value) value {
	return deepCopyM(v, &copyMemo{ptrs: memo, maps: map[*gomap]*gomap{}})
}

func deepCopyM(v value, memo *copyMemo) value {
	switch v := v.(type) {
	case timeVal:
		if memo.stripZone {
			v.zone = ""
		}
		return v
	case *value:
		if v == nil {
			return v
		}
		if c, ok := memo.ptrs[v]; ok {
			return c
		}
		n := new(value)
		memo.ptrs[v] = n
		*n = deepCopyM(*v, memo)
		return n
	case structure:
		out := make(structure, len(v))
		for i := range v {
			out[i] = deepCopyM(v[i], memo)
		}
		return out
	case array:
		out := make(array, len(v))
		for i := range v {
			out[i] = deepCopyM(v[i], memo)
		}
		return out
	case []value:
		if v == nil {
			return v
		}
		out := make([]value, len(v), cap(v))
		for i := range v {
			out[i] = deepCopyM(v[i], memo)
		}
		return out
	case iface:
		return iface{t: v.t, v: deepCopyM(v.v, memo)}
	case tuple:
		out := make(tuple, len(v))
		for i := range v {
			out[i] = deepCopyM(v[i], memo)
		}
		return out
	case *closure:
		if v == nil {
			return v
		}
		env := make([]value, len(v.Env))
		for i := range v.Env {
			env[i] = deepCopyM(v.Env[i], memo)
		}
		return &closure{Fn: v.Fn, Env: env}
	case *gomap:
		if v == nil {
			return v
		}
		if c, ok := memo.maps[v]; ok {
			return c
		}
		out := &gomap{keyType: v.keyType, idx: map[string]int{}, nsym: v.nsym}
		memo.maps[v] = out
		for _, e := range v.entries {
			out.entries = append(out.entries, mapEntry{deepCopyM(e.k, memo), deepCopyM(e.v, memo)})
		}
		// pointer keys change identity: rebuild the index
		for j, e := range out.entries {
			if ck, ok := canonKey(e.k); ok {
				out.idx[ck] = j
			}
		}
		return out
	}
	return v
}

// ---- proto message names --------------------------------------------------------------

// protoNames scans package initialisers for proto.RegisterType((*T)(nil), "name").
func (e *Engine) buildProtoNames() {
	e.protoName = map[string]string{}
	e.protoType = map[string]types.Type{}
	for _, pkg := range e.prog.AllPackages() {
		init := pkg.Func("init")
		if init == nil {
			continue
		}
		var fns []*ssa.Function
		fns = append(fns, init)
		for i := 1; ; i++ {
			f := pkg.Func(fmt.Sprintf("init#%d", i))
			if f == nil {
				break
			}
			fns = append(fns, f)
		}
		for _, fn := range fns {
			for _, b := range fn.Blocks {
				for _, in := range b.Instrs {
					c, ok := in.(*ssa.Call)
					if !ok {
						continue
					}
					callee := c.Call.StaticCallee()
					if callee == nil || callee.Name() != "RegisterType" || callee.Pkg == nil || !strings.HasSuffix(callee.Pkg.Pkg.Path(), "gogoproto/proto") {
						continue
					}
					if len(c.Call.Args) != 2 {
						continue
					}
					nameC, ok := c.Call.Args[1].(*ssa.Const)
					if !ok || nameC.Value == nil {
						continue
					}
					var t types.Type
					switch a := c.Call.Args[0].(type) {
					case *ssa.MakeInterface:
						t = a.X.Type()
					default:
						continue
					}
					name := constant.StringVal(nameC.Value)
					e.protoName[t.String()] = name
					e.protoType[name] = t
				}
			}
		}
	}
}

func (e *Engine) msgName(t types.Type) string {
	if n, ok := e.protoName[t.String()]; ok {
		return n
	}
	return "go." + t.String()
}

// ---- registration -----------------------------------------------------------------------

func registerSDK(e *Engine) {
	e.buildProtoNames()
	registerCodec(e)
	registerBinary(e)
	registerTime(e)
	registerHash(e)
	registerReflect(e)
	registerSort(e)
	registerEvents(e)
}

func mkBlob(kind string, msg iface) []value {
	memo := &copyMemo{ptrs: map[*value]*value{}, maps: map[*gomap]*gomap{}, stripZone: kind != "gojson"}
	return []value{blobByte{kind: kind, v: deepCopyM(msg.v, memo), t: msg.t}}
}

// localZone is the zone time.Local denotes on this path: the value of TZ in the
// modelled process environment ("" = UTC, which is also what the sandbox runs in).
func localZone(fr *frame) string {
	if explicit, _ := fr.p.hostState["env-explicit"].(bool); !explicit {
		return ""
	}
	v, ok := fr.p.hostState["env:TZ"]
	if !ok {
		return ""
	}
	pair := v.([2]value)
	if set, _ := pair[1].(bool); !set {
		return ""
	}
	s, ok := pair[0].(string)
	if !ok {
		abort("unmodelled", "symbolic TZ")
	}
	if s == "UTC" || s == "Etc/UTC" {
		return ""
	}
	if _, err := time.LoadLocation(s); err != nil {
		return "" // Go falls back to UTC for an unknown zone
	}
	return s
}

func zoneOf(name string) *time.Location {
	if name == "" {
		return time.UTC
	}
	loc, err := time.LoadLocation(name)
	if err != nil {
		return time.UTC
	}
	return loc
}

func nilErr() value { return iface{} }

func errValue(fr *frame, format string, args ...interface{}) value {
	e := fr.p.eng
	et := e.namedType("errors", "errorString")
	var cell value = structure{fmt.Sprintf(format, args...)}
	return iface{t: types.NewPointer(et), v: &cell}
}

// unmarshalInto copies a blob back into the message pointed to by ptr.
func unmarshalInto(fr *frame, kind string, bz []value, ptr iface) value {
	if ptr.t == nil {
		return errValue(fr, "unmarshal into nil")
	}
	dst, ok := ptr.v.(*value)
	if !ok || dst == nil {
		return errValue(fr, "unmarshal into nil pointer")
	}
	elem := derefType(ptr.t)
	if len(bz) == 0 {
		// empty input decodes to the zero message
		store(elem, dst, zero(elem))
		return nilErr()
	}
	b, ok := hasBlob(bz)
	if !ok {
		abort("unmodelled", "%s unmarshal of raw bytes into %s (called from %s)", kind, ptr.t, fr.caller.fn)
	}
	if b.kind != kind {
		return errValue(fr, "unmarshal: encoding mismatch (%s vs %s)", b.kind, kind)
	}
	if !types.Identical(b.t, ptr.t) {
		// decoding a message of another type: protobuf would produce garbage or an error
		return errValue(fr, "unmarshal: blob holds %s, target is %s", b.t, ptr.t)
	}
	src := b.v.(*value)
	cp := deepCopy(*src, map[*value]*value{})
	store(elem, dst, cp)
	return nilErr()
}

func registerCodec(e *Engine) {
	pc := "(*github.com/cosmos/cosmos-sdk/codec.ProtoCodec)."
	marshal := func(kind string, must bool) intrinsic {
		return func(fr *frame, args []value) value {
			msg := args[1].(iface)
			if msg.t == nil {
				if must {
					panic(targetPanic{errValue(fr, "cannot marshal nil message")})
				}
				return tuple{[]value(nil), errValue(fr, "cannot marshal nil message")}
			}
			bz := mkBlob(kind, msg)
			if must {
				return bz
			}
			return tuple{bz, nilErr()}
		}
	}
	unmarshal := func(kind string, must bool) intrinsic {
		return func(fr *frame, args []value) value {
			err := unmarshalInto(fr, kind, args[1].([]value), args[2].(iface))
			if must {
				if err.(iface).t != nil {
					panic(targetPanic{err})
				}
				return nil
			}
			return err
		}
	}
	e.reg(pc+"Marshal", marshal("proto", false))
	e.reg(pc+"MustMarshal", marshal("proto", true))
	e.reg(pc+"MarshalLengthPrefixed", marshal("proto", false))
	e.reg(pc+"MustMarshalLengthPrefixed", marshal("proto", true))
	e.reg(pc+"Unmarshal", unmarshal("proto", false))
	e.reg(pc+"MustUnmarshal", unmarshal("proto", true))
	e.reg(pc+"UnmarshalLengthPrefixed", unmarshal("proto", false))
	e.reg(pc+"MustUnmarshalLengthPrefixed", unmarshal("proto", true))
	e.reg(pc+"MarshalJSON", marshal("json", false))
	e.reg(pc+"MustMarshalJSON", marshal("json", true))
	e.reg(pc+"UnmarshalJSON", unmarshal("json", false))
	e.reg(pc+"MustUnmarshalJSON", unmarshal("json", true))
	e.reg(pc+"MarshalInterface", func(fr *frame, args []value) value {
		msg := args[1].(iface)
		if msg.t == nil {
			return tuple{[]value(nil), errValue(fr, "can't proto marshal <nil>")}
		}
		return tuple{mkBlob("any", msg), nilErr()}
	})
	e.reg(pc+"UnmarshalInterface", func(fr *frame, args []value) value {
		bz := args[1].([]value)
		target := args[2].(iface)
		b, ok := hasBlob(bz)
		if !ok || b.kind != "any" {
			if len(bz) == 0 {
				return errValue(fr, "UnmarshalInterface: empty input")
			}
			abort("unmodelled", "UnmarshalInterface of raw bytes")
		}
		return setIfaceTarget(fr, target, iface{t: b.t, v: deepCopy(b.v, map[*value]*value{})})
	})
	e.reg(pc+"UnpackAny", func(fr *frame, args []value) value {
		return unpackAny(fr, args[1].(*value), args[2].(iface))
	})
	e.reg("(*github.com/cosmos/cosmos-sdk/codec/types.interfaceRegistry).UnpackAny", func(fr *frame, args []value) value {
		return unpackAny(fr, args[1].(*value), args[2].(iface))
	})
	e.reg("github.com/cosmos/cosmos-sdk/codec/types.NewAnyWithValue", func(fr *frame, args []value) value {
		msg := args[0].(iface)
		if msg.t == nil {
			return tuple{(*value)(nil), errValue(fr, "Expecting non nil value to create a new Any: failed packing protobuf message to Any")}
		}
		return tuple{newAny(fr, msg), nilErr()}
	})
	e.reg("github.com/cosmos/cosmos-sdk/codec/types.UnsafePackAny", func(fr *frame, args []value) value {
		msg := args[0].(iface)
		return newAny(fr, msg)
	})
	e.reg("github.com/cosmos/gogoproto/proto.MessageName", func(fr *frame, args []value) value {
		msg := args[0].(iface)
		if msg.t == nil {
			return ""
		}
		return e.msgName(msg.t)
	})
	e.reg("github.com/cosmos/cosmos-sdk/types.MsgTypeURL", func(fr *frame, args []value) value {
		msg := args[0].(iface)
		if msg.t == nil {
			return "/"
		}
		return "/" + e.msgName(msg.t)
	})
	e.reg("github.com/cosmos/gogoproto/proto.Marshal", func(fr *frame, args []value) value {
		msg := args[0].(iface)
		return tuple{mkBlob("proto", msg), nilErr()}
	})
	e.reg("github.com/cosmos/gogoproto/proto.Unmarshal", func(fr *frame, args []value) value {
		return unmarshalInto(fr, "proto", args[0].([]value), args[1].(iface))
	})
	e.reg("github.com/cosmos/gogoproto/proto.Equal", func(fr *frame, args []value) value {
		a, b := args[0].(iface), args[1].(iface)
		if a.t == nil || b.t == nil {
			return a.t == nil && b.t == nil
		}
		if !types.Identical(a.t, b.t) {
			return false
		}
		return deepEq(fr, a.v, b.v)
	})
	e.reg("github.com/cosmos/gogoproto/proto.Clone", func(fr *frame, args []value) value {
		a := args[0].(iface)
		return iface{t: a.t, v: deepCopy(a.v, map[*value]*value{})}
	})
	e.reg("github.com/cosmos/gogoproto/proto.CompactTextString", func(fr *frame, args []value) value { return "<proto>" })
	e.reg("github.com/cosmos/gogoproto/proto.Size", func(fr *frame, args []value) value { return int64(1) })
	// encoding/json as blobs
	e.reg("encoding/json.Marshal", func(fr *frame, args []value) value {
		v := args[0].(iface)
		memo := map[*value]*value{}
		return tuple{[]value{blobByte{kind: "gojson", v: deepCopy(v.v, memo), t: v.t}}, nilErr()}
	})
	e.reg("encoding/json.Unmarshal", func(fr *frame, args []value) value {
		bz := args[0].([]value)
		target := args[1].(iface)
		b, ok := hasBlob(bz)
		if !ok {
			if jsonFlatObject(fr, bz, target) {
				return nilErr()
			}
			abort("unmodelled", "json.Unmarshal of raw bytes (called from %s)", fr.caller.fn)
		}
		dst := target.v.(*value)
		elem := derefType(target.t)
		// blob was made from a value of type T or *T
		if types.Identical(b.t, elem) {
			store(elem, dst, deepCopy(b.v, map[*value]*value{}))
			return nilErr()
		}
		if types.Identical(b.t, target.t) {
			src := b.v.(*value)
			store(elem, dst, deepCopy(*src, map[*value]*value{}))
			return nilErr()
		}
		return errValue(fr, "json: cannot unmarshal %s into %s", b.t, target.t)
	})
}

// jsonFlatObject decodes hand-written JSON text of the shape {"key":"text",...}
// (what fmt.Sprintf(`{"hexPayload":"%s"}`, hex) produces) into a struct with
// string fields. The text between the quotes may contain symbolic cells only if
// they are hex digits (nibble characters), which can be neither a quote nor a
// backslash. Anything else is left to the caller (unmodelled).
func jsonFlatObject(fr *frame, cells []value, target iface) bool {
	dst, ok := target.v.(*value)
	if !ok || dst == nil {
		return false
	}
	elem := derefType(target.t)
	st, ok := elem.Underlying().(*types.Struct)
	if !ok {
		return false
	}
	cur, ok := (*dst).(structure)
	if !ok {
		return false
	}
	tab, _ := fr.p.hostState["nibbles"].(map[*Term]nibbleInfo)
	conc := func(i int) (byte, bool) {
		if i >= len(cells) {
			return 0, false
		}
		c, ok := cells[i].(uint64)
		return byte(c), ok
	}
	i := 0
	if c, ok := conc(i); !ok || c != '{' {
		return false
	}
	i++
	out := make(structure, len(cur))
	copy(out, cur)
	for {
		if c, ok := conc(i); !ok || c != '"' {
			return false
		}
		i++
		key := []byte{}
		for {
			c, ok := conc(i)
			if !ok || c == '\\' {
				return false
			}
			i++
			if c == '"' {
				break
			}
			key = append(key, c)
		}
		if c, ok := conc(i); !ok || c != ':' {
			return false
		}
		i++
		if c, ok := conc(i); !ok || c != '"' {
			return false
		}
		i++
		var val []value
		for {
			if i >= len(cells) {
				return false
			}
			if c, ok := cells[i].(uint64); ok {
				if c == '\\' {
					return false
				}
				i++
				if c == '"' {
					break
				}
				val = append(val, c)
				continue
			}
			t, isT := cells[i].(*Term)
			if !isT || tab == nil {
				return false
			}
			if _, isNibble := tab[t]; !isNibble {
				return false
			}
			val = append(val, cells[i])
			i++
		}
		// field by json tag (or name)
		fi := -1
		for f := 0; f < st.NumFields(); f++ {
			tag := reflect.StructTag(st.Tag(f)).Get("json")
			name := strings.Split(tag, ",")[0]
			if name == "" {
				name = st.Field(f).Name()
			}
			if name == string(key) {
				fi = f
			}
		}
		if fi >= 0 {
			if b, isStr := st.Field(fi).Type().Underlying().(*types.Basic); !isStr || b.Kind() != types.String {
				return false
			}
			if bs, allConc := concBytes(val); allConc {
				out[fi] = string(bs)
			} else {
				out[fi] = &SymStr{parts: []strPart{{kind: "b", cells: val}}}
			}
		}
		c, ok := conc(i)
		if !ok {
			return false
		}
		i++
		if c == '}' {
			break
		}
		if c != ',' {
			return false
		}
	}
	if i != len(cells) {
		return false
	}
	*dst = out
	return true
}

func fieldIndex(t types.Type, name string) int {
	st := t.Underlying().(*types.Struct)
	for i := 0; i < st.NumFields(); i++ {
		if st.Field(i).Name() == name {
			return i
		}
	}
	panic("no field " + name + " in " + t.String())
}

func newAny(fr *frame, msg iface) *value {
	e := fr.p.eng
	at := e.namedType("github.com/cosmos/cosmos-sdk/codec/types", "Any")
	s := zero(at).(structure)
	s[fieldIndex(at, "TypeUrl")] = "/" + e.msgName(msg.t)
	s[fieldIndex(at, "Value")] = mkBlob("proto", msg)
	s[fieldIndex(at, "cachedValue")] = msg
	var cell value = s
	return &cell
}

func setIfaceTarget(fr *frame, target iface, v iface) value {
	if target.t == nil {
		return errValue(fr, "UnpackAny expects a pointer")
	}
	ptrT, ok := target.t.Underlying().(*types.Pointer)
	if !ok {
		return errValue(fr, "UnpackAny expects a pointer")
	}
	dst := target.v.(*value)
	elem := ptrT.Elem()
	if it, ok := elem.Underlying().(*types.Interface); ok {
		if meth, _ := types.MissingMethod(v.t, it, true); meth != nil {
			return errValue(fr, "no concrete type registered for type URL against interface %s (missing %s)", elem, meth.Name())
		}
		*dst = v
		return nilErr()
	}
	if types.Identical(elem, v.t) {
		*dst = v.v
		return nilErr()
	}
	return errValue(fr, "cannot unpack %s into %s", v.t, elem)
}

func unpackAny(fr *frame, any *value, target iface) value {
	e := fr.p.eng
	if any == nil {
		return nilErr()
	}
	at := e.namedType("github.com/cosmos/cosmos-sdk/codec/types", "Any")
	s := (*any).(structure)
	url, _ := s[fieldIndex(at, "TypeUrl")].(string)
	if url == "" {
		return nilErr()
	}
	val, _ := s[fieldIndex(at, "Value")].([]value)
	if b, ok := hasBlob(val); ok {
		v := iface{t: b.t, v: deepCopy(b.v, map[*value]*value{})}
		if err := setIfaceTarget(fr, target, v); err.(iface).t != nil {
			return err
		}
		s[fieldIndex(at, "cachedValue")] = v
		return nilErr()
	}
	if cv, ok := s[fieldIndex(at, "cachedValue")].(iface); ok && cv.t != nil {
		return setIfaceTarget(fr, target, cv)
	}
	if len(val) == 0 {
		// a type URL with empty value decodes to the zero message of that type
		name := strings.TrimPrefix(url, "/")
		if t, ok := e.protoType[name]; ok {
			var cell value = zero(derefType(t))
			return setIfaceTarget(fr, target, iface{t: t, v: &cell})
		}
		return errValue(fr, "unable to resolve type URL %s", url)
	}
	abort("unmodelled", "UnpackAny of raw bytes")
	return nil
}

// ---- encoding/binary ----------------------------------------------------------------------

func registerBinary(e *Engine) {
	put := func(width int) intrinsic {
		return func(fr *frame, args []value) value {
			buf := args[1].([]value)
			if len(buf) < width {
				rtPanic(fr, "index out of range")
			}
			t, _ := toTerm(args[2])
			copy(buf, beCells(t, width))
			return nil
		}
	}
	get := func(width int) intrinsic {
		return func(fr *frame, args []value) value {
			buf := args[1].([]value)
			if len(buf) < width {
				rtPanic(fr, fmt.Sprintf("index out of range [%d] with length %d", width-1, len(buf)))
			}
			if _, isBlob := hasBlob(buf); isBlob {
				abort("unmodelled", "binary decode of opaque blob")
			}
			t := intOf(buf, 0, width)
			if t.isConst() {
				return t.ival.Uint64()
			}
			if t.lo == nil || t.hi == nil {
				w := newTerm("+", SInt, t, IntConst64(0))
				w.lo, w.hi = big0, new(big.Int).Sub(pow2(uint(8*width)), big1)
				return w
			}
			return t
		}
	}
	be := "(encoding/binary.bigEndian)."
	e.reg(be+"PutUint64", put(8))
	e.reg(be+"PutUint32", put(4))
	e.reg(be+"PutUint16", put(2))
	e.reg(be+"Uint64", get(8))
	e.reg(be+"Uint32", get(4))
	e.reg(be+"Uint16", get(2))
	app := func(width int) intrinsic {
		return func(fr *frame, args []value) value {
			t, _ := toTerm(args[2])
			return append(args[1].([]value), beCells(t, width)...)
		}
	}
	e.reg(be+"AppendUint64", app(8))
	e.reg(be+"AppendUint32", app(4))
	e.reg(be+"AppendUint16", app(2))
	e.reg("encoding/hex.EncodeToString", func(fr *frame, args []value) value {
		cells := args[0].([]value)
		s := cellsToString(cells)
		if cs, ok := s.(string); ok {
			return hex.EncodeToString([]byte(cs))
		}
		if len(cells) <= 32 {
			return cellsToString(hexNibbleCells(fr, cells))
		}
		cp := make([]value, len(cells))
		copy(cp, cells)
		return &SymStr{parts: []strPart{{s: "hex~"}, {kind: "b", cells: cp}}}
	})
	e.reg("encoding/hex.DecodeString", func(fr *frame, args []value) value {
		if ss, ok := args[0].(*SymStr); ok && len(ss.parts) == 2 && ss.parts[0].s == "hex~" && ss.parts[1].kind == "b" {
			cp := make([]value, len(ss.parts[1].cells))
			copy(cp, ss.parts[1].cells)
			return tuple{cp, nilErr()}
		}
		if ss, ok := args[0].(*SymStr); ok {
			if out, ok := unhexNibbleCells(fr, ss.toCells(fr)); ok {
				return tuple{out, nilErr()}
			}
		}
		s, ok := args[0].(string)
		if !ok {
			abort("unmodelled", "hex.DecodeString of symbolic string")
		}
		b, err := hex.DecodeString(s)
		if err != nil {
			return tuple{bytesToCells(b), errValue(fr, "%s", err.Error())}
		}
		return tuple{bytesToCells(b), nilErr()}
	})
}

// ---- time ----------------------------------------------------------------------------------

func timeNs(fr *frame, v value) (*Term, bool) {
	t := v.(timeVal)
	if t.zero {
		return nil, false
	}
	tt, _ := toTerm(t.ns)
	return tt, true
}

func mkTime(ns *Term) timeVal {
	if ns.isConst() {
		return timeVal{ns: ns.ival.Int64()}
	}
	return timeVal{ns: ns}
}

// zeroTimeNs is the unix-nanosecond value used for the Go zero time in comparisons
// (year 1 is far below any block time; nanoseconds would overflow int64).
var zeroTimeNs = new(big.Int).Mul(big.NewInt(-62135596800), big.NewInt(1_000_000_000))

func timeTerm(v value) *Term {
	t := v.(timeVal)
	if t.zero {
		return IntConst(zeroTimeNs)
	}
	tt, _ := toTerm(t.ns)
	return tt
}

// wallClockSite names the function that reads the wall clock in a way the native
// hook can reproduce from runtime.Callers: last path element of the package,
// receiver type and method without pointer marks, closures folded into their parent.
func wallClockSite(fr *frame) string {
	if fr.caller == nil || fr.caller.fn == nil {
		return "?"
	}
	return normFuncName(fr.caller.fn.String())
}

func normFuncName(s string) string {
	if i := strings.IndexAny(s, "$["); i >= 0 {
		s = s[:i]
	}
	s = strings.NewReplacer("(", "", ")", "", "*", "").Replace(s)
	if i := strings.LastIndex(s, "/"); i >= 0 {
		s = s[i+1:]
	}
	return s
}

func registerTime(e *Engine) {
	tm := "(time.Time)."
	e.reg("time.Now", func(fr *frame, args []value) value {
		// wall clock: an arbitrary instant (2001..2100), see C08
		ns := fr.p.newInput("wallclock@"+wallClockSite(fr), SInt, new(big.Int).Mul(big.NewInt(1_000_000_000), big.NewInt(1_000_000_000)), new(big.Int).Mul(big.NewInt(4_102_444_800), big.NewInt(1_000_000_000)))
		fr.p.note("time.Now() called from %s", fr.caller.fn)
		return timeVal{ns: ns, zone: localZone(fr)}
	})
	// Unix / UnixMilli / Now / Local() yield times in the process-local zone
	inLocal := func(fr *frame, t timeVal) timeVal {
		t.zone = localZone(fr)
		return t
	}
	e.reg("time.Unix", func(fr *frame, args []value) value {
		s, _ := toTerm(args[0])
		n, _ := toTerm(args[1])
		return inLocal(fr, mkTime(Add(Mul(s, IntConst64(1_000_000_000)), n)))
	})
	e.reg("time.UnixMilli", func(fr *frame, args []value) value {
		s, _ := toTerm(args[0])
		return inLocal(fr, mkTime(Mul(s, IntConst64(1_000_000))))
	})
	ident := func(fr *frame, args []value) value { return args[0] }
	e.reg(tm+"UTC", func(fr *frame, args []value) value {
		t := args[0].(timeVal)
		t.zone = ""
		return t
	})
	e.reg(tm+"Local", func(fr *frame, args []value) value { return inLocal(fr, args[0].(timeVal)) })
	e.reg(tm+"Round", ident)
	e.reg(tm+"Truncate", ident)
	e.reg(tm+"In", ident)
	e.reg(tm+"IsZero", func(fr *frame, args []value) value { return args[0].(timeVal).zero })
	conc := func(t *Term, signed bool) value {
		if t.isConst() {
			return t.ival.Int64()
		}
		return t
	}
	e.reg(tm+"Unix", func(fr *frame, args []value) value {
		return conc(EDiv(timeTerm(args[0]), IntConst64(1_000_000_000)), true)
	})
	e.reg(tm+"UnixNano", func(fr *frame, args []value) value { return conc(timeTerm(args[0]), true) })
	e.reg(tm+"UnixMilli", func(fr *frame, args []value) value {
		return conc(EDiv(timeTerm(args[0]), IntConst64(1_000_000)), true)
	})
	e.reg(tm+"Nanosecond", func(fr *frame, args []value) value {
		return conc(EMod(timeTerm(args[0]), IntConst64(1_000_000_000)), true)
	})
	e.reg(tm+"Add", func(fr *frame, args []value) value {
		d, _ := toTerm(args[1])
		r := mkTime(Add(timeTerm(args[0]), d))
		r.zone = args[0].(timeVal).zone
		return r
	})
	e.reg(tm+"Sub", func(fr *frame, args []value) value {
		d := Sub(timeTerm(args[0]), timeTerm(args[1]))
		// Duration saturates at int64 bounds
		lo, hi := IntConst(new(big.Int).Neg(pow2(63))), IntConst(new(big.Int).Sub(pow2(63), big1))
		r := Ite(Lt(d, lo), lo, Ite(Gt(d, hi), hi, d))
		return conc(r, true)
	})
	e.reg(tm+"Before", func(fr *frame, args []value) value { return simp(Lt(timeTerm(args[0]), timeTerm(args[1]))) })
	e.reg(tm+"After", func(fr *frame, args []value) value { return simp(Gt(timeTerm(args[0]), timeTerm(args[1]))) })
	e.reg(tm+"Equal", func(fr *frame, args []value) value { return simp(Eq(timeTerm(args[0]), timeTerm(args[1]))) })
	e.reg(tm+"Compare", func(fr *frame, args []value) value {
		a, b := timeTerm(args[0]), timeTerm(args[1])
		return conc(Ite(Lt(a, b), IntConst64(-1), Ite(Gt(a, b), IntConst64(1), IntConst64(0))), true)
	})
	e.reg(tm+"String", func(fr *frame, args []value) value { return "<time>" })
	e.reg(tm+"Format", func(fr *frame, args []value) value {
		t := args[0].(timeVal)
		if n, ok := t.ns.(int64); ok && !t.zero {
			return time.Unix(0, n).In(zoneOf(t.zone)).Format(args[1].(string))
		}
		if t.zero {
			return time.Time{}.Format(args[1].(string))
		}
		return &SymStr{parts: []strPart{{kind: "s", t: App("timefmt"+t.zone, SStr, timeTerm(t))}}}
	})
	e.reg(tm+"AddDate", func(fr *frame, args []value) value {
		t := args[0].(timeVal)
		y, ok1 := args[1].(int64)
		m, ok2 := args[2].(int64)
		d, ok3 := args[3].(int64)
		if n, ok := t.ns.(int64); ok && ok1 && ok2 && ok3 && !t.zero {
			return timeVal{ns: time.Unix(0, n).In(zoneOf(t.zone)).AddDate(int(y), int(m), int(d)).UnixNano(), zone: t.zone}
		}
		// symbolic instant or offsets: calendar arithmetic abstracted by an
		// uninterpreted function of (instant, years, months, days), monotone for
		// non-negative offsets
		yt, _ := toTerm(args[1])
		mt, _ := toTerm(args[2])
		dt, _ := toTerm(args[3])
		r := App("adddate", SInt, timeTerm(t), yt, mt, dt)
		nonneg := And(Ge(yt, IntConst64(0)), Ge(mt, IntConst64(0)), Ge(dt, IntConst64(0)))
		fr.p.assume(Implies(nonneg, Ge(r, timeTerm(t))))
		return timeVal{ns: r, zone: t.zone}
	})
	e.reg("(time.Duration).String", func(fr *frame, args []value) value {
		if n, ok := args[0].(int64); ok {
			return time.Duration(n).String()
		}
		return "<duration>"
	})
	e.reg("(time.Duration).Seconds", func(fr *frame, args []value) value {
		if n, ok := args[0].(int64); ok {
			return time.Duration(n).Seconds()
		}
		t, _ := toTerm(args[0])
		return Op("/", SReal, ToReal(t), RealConst("1000000000.0"))
	})
	wall := func(fr *frame) *Term {
		ns := fr.p.newInput("wallclock@"+wallClockSite(fr), SInt, new(big.Int).Mul(big.NewInt(1_000_000_000), big.NewInt(1_000_000_000)), new(big.Int).Mul(big.NewInt(4_102_444_800), big.NewInt(1_000_000_000)))
		fr.p.note("wall clock read from %s", fr.caller.fn)
		return ns
	}
	dur := func(d *Term) value {
		lo, hi := IntConst(new(big.Int).Neg(pow2(63))), IntConst(new(big.Int).Sub(pow2(63), big1))
		return conc(Ite(Lt(d, lo), lo, Ite(Gt(d, hi), hi, d)), true)
	}
	// Since / Until read the wall clock like Now (stored times carry no monotonic reading)
	e.reg("time.Since", func(fr *frame, args []value) value {
		return dur(Sub(wall(fr), timeTerm(args[0])))
	})
	e.reg("time.Until", func(fr *frame, args []value) value {
		return dur(Sub(timeTerm(args[0]), wall(fr)))
	})
}

// ---- hashing -----------------------------------------------------------------------------------

func concBytes(cells []value) ([]byte, bool) {
	b := make([]byte, len(cells))
	for i, c := range cells {
		cb, ok := c.(uint64)
		if !ok {
			return nil, false
		}
		b[i] = byte(cb)
	}
	return b, true
}

// hashCells models a collision-free hash. A concrete input gives the real
// digest. A symbolic input gives a fresh symbolic digest value hv (a span of
// `width` bytes) constrained, against every other digest computed on this
// path with the same function, by  hv = hv'  <=>  input = input'.
func hashCells(fr *frame, name string, width int, cells []value, real func([]byte) []byte) []value {
	p := fr.p
	reg, _ := p.hostState["hashes"].([]*hashObj)
	cp := make([]value, len(cells))
	copy(cp, cells)
	if b, ok := concBytes(cells); ok {
		d := real(b)
		h := &hashObj{name: name, input: cp, val: IntConst(new(big.Int).SetBytes(d))}
		// relate the concrete digest to earlier symbolic digests of the same function
		for _, o := range reg {
			if o.name != name || o.val.isConst() {
				continue
			}
			var same *Term
			if len(o.input) != len(cp) && !anyBlob(o.input) {
				same = tFalse
			} else {
				switch x := eqCells(fr, cp, o.input).(type) {
				case bool:
					same = BoolConst(x)
				case *Term:
					same = x
				}
			}
			p.assume(Eq(Eq(o.val, h.val), same))
			p.assume(Eq(Eq(hashTop(o.val, width), hashTop(h.val, width)), same))
		}
		if len(reg) < 256 {
			p.hostState["hashes"] = append(reg, h)
		}
		return bytesToCells(d)
	}
	p.floatVars++
	hv := VarRange(fmt.Sprintf("hash!%d", p.floatVars), big0, new(big.Int).Sub(pow2(uint(8*width)), big1))
	h := &hashObj{name: name, input: cp, val: hv}
	for _, o := range reg {
		if o.name != name {
			continue
		}
		var same *Term
		if len(o.input) != len(cp) && !anyBlob(cp) && !anyBlob(o.input) {
			same = tFalse
		} else {
			sv := eqCells(fr, cp, o.input)
			switch x := sv.(type) {
			case bool:
				same = BoolConst(x)
			case *Term:
				same = x
			}
		}
		p.assume(Eq(Eq(hv, o.val), same))
		// truncated digests (addresses are 20-byte prefixes) do not collide either
		p.assume(Eq(Eq(hashTop(hv, width), hashTop(o.val, width)), same))
	}
	p.hostState["hashes"] = append(reg, h)
	return beCells(hv, width)
}

// hashTop is the leading 8 bytes of a width-byte digest.
func hashTop(v *Term, width int) *Term {
	if width <= 8 {
		return v
	}
	d := pow2(uint(8 * (width - 8)))
	if v.isConst() {
		return IntConst(new(big.Int).Div(v.ival, d))
	}
	return TDiv(v, IntConst(d))
}

type hashObj struct {
	name  string
	input []value
	val   *Term
}

// hashByte is retained for cells.go (no longer produced).
type hashByte struct {
	h   *hashObj
	idx int
}

func registerHash(e *Engine) {
	e.reg("crypto/sha256.Sum256", func(fr *frame, args []value) value {
		return array(hashCells(fr, "sha256", 32, args[0].([]value), func(b []byte) []byte { s := sha256.Sum256(b); return s[:] }))
	})
	e.reg("github.com/cometbft/cometbft/crypto/tmhash.Sum", func(fr *frame, args []value) value {
		return hashCells(fr, "sha256", 32, args[0].([]value), func(b []byte) []byte { s := sha256.Sum256(b); return s[:] })
	})
	e.reg("crypto/md5.Sum", func(fr *frame, args []value) value {
		return array(hashCells(fr, "md5", 16, args[0].([]value), func(b []byte) []byte { s := md5.Sum(b); return s[:] }))
	})
	// sha256.New()/Write/Sum streaming idiom used by libcons.hashSha256
	e.reg(modPath+"/util/libcons.hashSha256", func(fr *frame, args []value) value {
		return hashCells(fr, "sha256", 32, args[0].([]value), func(b []byte) []byte { s := sha256.Sum256(b); return s[:] })
	})
}

// ---- reflect idiom of util/keeper ----------------------------------------------------------------

type reflVal struct {
	typ  types.Type
	v    value  // the value (for non-addressable)
	addr *value // when addressable / pointer target
}

type reflType struct{ t types.Type }

func registerReflect(e *Engine) {
	e.reg("reflect.ValueOf", func(fr *frame, args []value) value {
		x := args[0].(iface)
		return reflVal{typ: x.t, v: x.v}
	})
	e.reg("(reflect.Value).Elem", func(fr *frame, args []value) value {
		rv := args[0].(reflVal)
		if p, ok := rv.typ.Underlying().(*types.Pointer); ok {
			ptr, _ := rv.v.(*value)
			if rv.addr != nil {
				ptr, _ = (*rv.addr).(*value)
			}
			return reflVal{typ: p.Elem(), addr: ptr}
		}
		abort("unmodelled", "reflect.Value.Elem on %s", rv.typ)
		return nil
	})
	e.reg("(reflect.Value).Type", func(fr *frame, args []value) value {
		rv := args[0].(reflVal)
		return iface{t: reflRtypePtr(e), v: reflType{rv.typ}}
	})
	e.reg("(*reflect.rtype).Elem", func(fr *frame, args []value) value {
		rt := args[0].(reflType)
		switch t := rt.t.Underlying().(type) {
		case *types.Pointer:
			return iface{t: reflRtypePtr(e), v: reflType{t.Elem()}}
		case *types.Slice:
			return iface{t: reflRtypePtr(e), v: reflType{t.Elem()}}
		}
		abort("unmodelled", "reflect.Type.Elem on %s", rt.t)
		return nil
	})
	e.reg("(*reflect.rtype).String", func(fr *frame, args []value) value { return args[0].(reflType).t.String() })
	e.reg("(*reflect.rtype).Name", func(fr *frame, args []value) value {
		if n, ok := types.Unalias(args[0].(reflType).t).(*types.Named); ok {
			return n.Obj().Name()
		}
		return ""
	})
	e.reg("reflect.New", func(fr *frame, args []value) value {
		rt := args[0].(iface).v.(reflType)
		var cell value = zero(rt.t)
		return reflVal{typ: types.NewPointer(rt.t), v: &cell}
	})
	e.reg("(reflect.Value).Set", func(fr *frame, args []value) value {
		dst := args[0].(reflVal)
		src := args[1].(reflVal)
		if dst.addr == nil {
			panic(targetPanic{iface{e.runtimeErrorString, "reflect: reflect.Value.Set using unaddressable value"}})
		}
		sv := src.v
		if src.addr != nil {
			sv = load(src.typ, src.addr)
		}
		if _, isIface := dst.typ.Underlying().(*types.Interface); isIface {
			store(dst.typ, dst.addr, iface{t: src.typ, v: sv})
		} else {
			store(dst.typ, dst.addr, sv)
		}
		return nil
	})
	e.reg("(reflect.Value).IsNil", func(fr *frame, args []value) value {
		rv := args[0].(reflVal)
		v := rv.v
		if rv.addr != nil {
			v = *rv.addr
		}
		switch x := v.(type) {
		case *value:
			return x == nil
		case iface:
			return x.t == nil
		case []value:
			return x == nil
		case *gomap:
			return x == nil
		case nil:
			return true
		}
		return false
	})
	e.reg("reflect.TypeOf", func(fr *frame, args []value) value {
		x := args[0].(iface)
		if x.t == nil {
			return iface{}
		}
		return iface{t: reflRtypePtr(e), v: reflType{x.t}}
	})
}

func reflRtypePtr(e *Engine) types.Type {
	return types.NewPointer(e.namedType("reflect", "rtype"))
}

// ---- sort -------------------------------------------------------------------------------------------

func registerSort(e *Engine) {
	mkLessSwap := func(fr *frame, slice []value, less value) value {
		swap := &hostFunc{name: "swapper", f: func(fr *frame, a []value) value {
			i, j := a[0].(int64), a[1].(int64)
			slice[i], slice[j] = slice[j], slice[i]
			return nil
		}}
		return structure{less, swap}
	}
	e.reg("sort.Slice", func(fr *frame, args []value) value {
		x := args[0].(iface)
		s, _ := x.v.([]value)
		n := int64(len(s))
		limit := int64(0)
		for m := uint64(n); m != 0; m >>= 1 {
			limit++
		}
		fn := e.pkg("sort").Func("pdqsort_func")
		call(fr, fr.callpos, fn, []value{mkLessSwap(fr, s, args[1]), int64(0), n, limit})
		return nil
	})
	e.reg("sort.SliceStable", func(fr *frame, args []value) value {
		x := args[0].(iface)
		s, _ := x.v.([]value)
		fn := e.pkg("sort").Func("stable_func")
		call(fr, fr.callpos, fn, []value{mkLessSwap(fr, s, args[1]), int64(len(s))})
		return nil
	})
	e.reg("sort.SliceIsSorted", func(fr *frame, args []value) value {
		x := args[0].(iface)
		s, _ := x.v.([]value)
		for i := len(s) - 1; i > 0; i-- {
			r := call(fr, fr.callpos, args[1], []value{int64(i), int64(i - 1)})
			if fr.p.branch(fr, r, nil) {
				return false
			}
		}
		return true
	})
}

// ---- events --------------------------------------------------------------------------------------------

type emittedEvent struct {
	name string
	v    value
}

func registerEvents(e *Engine) {
	em := "(*github.com/cosmos/cosmos-sdk/types.EventManager)."
	rec := func(fr *frame, name string, v value) {
		lst, _ := fr.p.hostState["events"].([]emittedEvent)
		fr.p.hostState["events"] = append(lst, emittedEvent{name, v})
	}
	e.reg(em+"EmitTypedEvent", func(fr *frame, args []value) value {
		msg := args[1].(iface)
		if msg.t == nil {
			return errValue(fr, "nil event")
		}
		rec(fr, e.msgName(msg.t), deepCopy(msg.v, map[*value]*value{}))
		return nilErr()
	})
	e.reg(em+"EmitTypedEvents", func(fr *frame, args []value) value {
		for _, m := range args[1].([]value) {
			msg := m.(iface)
			rec(fr, e.msgName(msg.t), deepCopy(msg.v, map[*value]*value{}))
		}
		return nilErr()
	})
	e.reg("github.com/cosmos/cosmos-sdk/types.TypedEventToEvent", func(fr *frame, args []value) value {
		et := e.namedType("github.com/cosmos/cosmos-sdk/types", "Event")
		return tuple{zero(et), nilErr()}
	})
}

// hexNibbleCells renders bytes as lower-case hex characters; a symbolic byte b
// becomes two character terms hexchar(b div 16), hexchar(b mod 16).
type nibbleInfo struct {
	byteCell value
	high     bool
}

func hexNibbleCells(fr *frame, cells []value) []value {
	tab, _ := fr.p.hostState["nibbles"].(map[*Term]nibbleInfo)
	if tab == nil {
		tab = map[*Term]nibbleInfo{}
		fr.p.hostState["nibbles"] = tab
	}
	const digits = "0123456789abcdef"
	out := make([]value, 0, 2*len(cells))
	for _, c := range cells {
		if cb, ok := c.(uint64); ok {
			out = append(out, uint64(digits[cb>>4]), uint64(digits[cb&15]))
			continue
		}
		t, _ := toTerm(c)
		mk := func(n *Term, high bool) *Term {
			ch := Ite(Lt(n, IntConst64(10)), Add(n, IntConst64(48)), Add(n, IntConst64(87)))
			if ch.op == "ite" {
				ch.lo, ch.hi = big.NewInt(48), big.NewInt(102)
			}
			tab[ch] = nibbleInfo{byteCell: c, high: high}
			return ch
		}
		out = append(out, mk(EDiv(t, IntConst64(16)), true), mk(EMod(t, IntConst64(16)), false))
	}
	return out
}

func unhexNibbleCells(fr *frame, cells []value) ([]value, bool) {
	tab, _ := fr.p.hostState["nibbles"].(map[*Term]nibbleInfo)
	if len(cells)%2 != 0 {
		return nil, false
	}
	out := make([]value, 0, len(cells)/2)
	for i := 0; i < len(cells); i += 2 {
		a, b := cells[i], cells[i+1]
		ca, oka := a.(uint64)
		cb, okb := b.(uint64)
		if oka && okb {
			v, err := hex.DecodeString(string([]byte{byte(ca), byte(cb)}))
			if err != nil {
				return nil, false
			}
			out = append(out, uint64(v[0]))
			continue
		}
		ta, ok1 := a.(*Term)
		tb, ok2 := b.(*Term)
		if !ok1 || !ok2 || tab == nil {
			return nil, false
		}
		ia, f1 := tab[ta]
		ib, f2 := tab[tb]
		if !f1 || !f2 || !ia.high || ib.high {
			return nil, false
		}
		x, _ := toTerm(ia.byteCell)
		y, _ := toTerm(ib.byteCell)
		if x != y {
			return nil, false
		}
		out = append(out, ia.byteCell)
	}
	return out, true
}
