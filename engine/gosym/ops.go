package main

import (
	"fmt"
	"go/constant"
	"go/token"
	"go/types"
	"math"
	"math/big"
	"strings"
	"unicode/utf8"

	"golang.org/x/tools/go/ssa"
)

func constantBool(c *ssa.Const) bool     { return constant.BoolVal(c.Value) }
func constantString(c *ssa.Const) string {
	if c.Value.Kind() == constant.String {
		return constant.StringVal(c.Value)
	}
	return string(rune(c.Int64()))
}

func basicOf(t types.Type) *types.Basic {
	b, _ := t.Underlying().(*types.Basic)
	return b
}

// wrapConc normalises a concrete integer to the width of b.
func wrapI(v int64, bits uint) int64 {
	switch bits {
	case 8:
		return int64(int8(v))
	case 16:
		return int64(int16(v))
	case 32:
		return int64(int32(v))
	}
	return v
}
func wrapUc(v uint64, bits uint) uint64 {
	switch bits {
	case 8:
		return uint64(uint8(v))
	case 16:
		return uint64(uint16(v))
	case 32:
		return uint64(uint32(v))
	}
	return v
}

func wrapTerm(t *Term, b *types.Basic) *Term {
	if isSigned(b) {
		return WrapS(t, intBits(b))
	}
	return WrapU(t, intBits(b))
}

func isSym(v value) bool {
	switch v.(type) {
	case *Term, spanByte:
		return true
	}
	return false
}

func binop(fr *frame, op token.Token, tx, ty types.Type, x, y value) value {
	// comparison of non-basic things
	switch op {
	case token.EQL:
		return eqValue(fr, tx, x, y)
	case token.NEQ:
		return notValue(eqValue(fr, tx, x, y))
	}
	b := basicOf(tx)
	if b == nil {
		panic(fmt.Sprintf("binop %s on non-basic type %s", op, tx))
	}
	info := b.Info()
	switch {
	case info&types.IsInteger != 0:
		return intBinop(fr, op, b, basicOf(ty), x, y)
	case info&types.IsFloat != 0:
		return floatBinop(fr, op, b, x, y)
	case info&types.IsString != 0:
		return stringBinop(fr, op, x, y)
	case info&types.IsBoolean != 0:
		// && and || are lowered to control flow; & | ^ don't apply to bool
	}
	panic(fmt.Sprintf("binop %s unsupported for %s (%T,%T)", op, tx, x, y))
}

func notValue(v value) value {
	switch v := v.(type) {
	case bool:
		return !v
	case *Term:
		return Not(v)
	}
	panic("notValue")
}

func intBinop(fr *frame, op token.Token, b, by *types.Basic, x, y value) value {
	bits := intBits(b)
	signed := isSigned(b)
	if !isSym(x) && !isSym(y) {
		if op == token.SHL || op == token.SHR {
			var sh uint64
			switch y := y.(type) {
			case int64:
				if y < 0 {
					rtPanic(fr, "negative shift amount")
				}
				sh = uint64(y)
			case uint64:
				sh = y
			}
			if signed {
				xv := x.(int64)
				if op == token.SHL {
					if sh >= 64 {
						return int64(0)
					}
					return wrapI(xv<<sh, bits)
				}
				if sh >= 64 {
					sh = 63
				}
				return wrapI(xv>>sh, bits)
			}
			xv := x.(uint64)
			if sh >= 64 {
				return uint64(0)
			}
			if op == token.SHL {
				return wrapUc(xv<<sh, bits)
			}
			return wrapUc(xv>>sh, bits)
		}
		if signed {
			xv, yv := x.(int64), y.(int64)
			switch op {
			case token.ADD:
				return wrapI(xv+yv, bits)
			case token.SUB:
				return wrapI(xv-yv, bits)
			case token.MUL:
				return wrapI(xv*yv, bits)
			case token.QUO:
				if yv == 0 {
					rtPanic(fr, "integer divide by zero")
				}
				return wrapI(xv/yv, bits)
			case token.REM:
				if yv == 0 {
					rtPanic(fr, "integer divide by zero")
				}
				if yv == -1 {
					return int64(0)
				}
				return wrapI(xv%yv, bits)
			case token.AND:
				return xv & yv
			case token.OR:
				return xv | yv
			case token.XOR:
				return xv ^ yv
			case token.AND_NOT:
				return xv &^ yv
			case token.LSS:
				return xv < yv
			case token.LEQ:
				return xv <= yv
			case token.GTR:
				return xv > yv
			case token.GEQ:
				return xv >= yv
			}
		} else {
			xv, yv := x.(uint64), y.(uint64)
			switch op {
			case token.ADD:
				return wrapUc(xv+yv, bits)
			case token.SUB:
				return wrapUc(xv-yv, bits)
			case token.MUL:
				return wrapUc(xv*yv, bits)
			case token.QUO:
				if yv == 0 {
					rtPanic(fr, "integer divide by zero")
				}
				return xv / yv
			case token.REM:
				if yv == 0 {
					rtPanic(fr, "integer divide by zero")
				}
				return xv % yv
			case token.AND:
				return xv & yv
			case token.OR:
				return xv | yv
			case token.XOR:
				return xv ^ yv
			case token.AND_NOT:
				return xv &^ yv
			case token.LSS:
				return xv < yv
			case token.LEQ:
				return xv <= yv
			case token.GTR:
				return xv > yv
			case token.GEQ:
				return xv >= yv
			}
		}
		panic(fmt.Sprintf("intBinop: bad op %s", op))
	}
	// symbolic
	tx, _ := toTerm(x)
	tyT, _ := toTerm(y)
	wrap := func(t *Term) *Term { return wrapTerm(t, b) }
	switch op {
	case token.ADD:
		return wrap(Add(tx, tyT))
	case token.SUB:
		return wrap(Sub(tx, tyT))
	case token.MUL:
		return wrap(Mul(tx, tyT))
	case token.QUO, token.REM:
		// division by zero check (forks)
		if fr.p.branch(fr, Eq(tyT, IntConst64(0)), nil) {
			rtPanic(fr, "integer divide by zero")
		}
		if op == token.QUO {
			return wrap(TDiv(tx, tyT))
		}
		return wrap(TRem(tx, tyT))
	case token.LSS:
		return simp(Lt(tx, tyT))
	case token.LEQ:
		return simp(Le(tx, tyT))
	case token.GTR:
		return simp(Gt(tx, tyT))
	case token.GEQ:
		return simp(Ge(tx, tyT))
	case token.SHL, token.SHR:
		if !tyT.isConst() {
			sh := fr.p.concretizeInt(fr, y, "shift amount")
			tyT = IntConst64(sh)
		}
		sh := tyT.ival.Uint64()
		if sh >= uint64(bits) && op == token.SHL {
			return simp(IntConst64(0))
		}
		if op == token.SHL {
			return wrap(Mul(tx, IntConst(pow2(uint(sh)))))
		}
		return simp(EDiv(tx, IntConst(pow2(uint(sh))))) // floor division = arithmetic shift
	case token.AND, token.OR, token.XOR, token.AND_NOT:
		// mask with constant 2^k-1 → mod
		if op == token.AND && tyT.isConst() && !signed || op == token.AND && tyT.isConst() && tyT.ival.Sign() >= 0 {
			m := new(big.Int).Add(tyT.ival, big1)
			if m.BitLen() > 0 && new(big.Int).And(m, tyT.ival).Sign() == 0 { // m power of two
				if signed {
					// x & mask for signed x: two's complement mod
					return simp(EMod(tx, IntConst(m)))
				}
				return simp(EMod(tx, IntConst(m)))
			}
		}
		if op == token.AND && tx.isConst() {
			return intBinop(fr, op, b, by, y, x)
		}
		return bvOp(op, tx, tyT, bits, signed)
	}
	panic(fmt.Sprintf("intBinop: unsupported symbolic op %s", op))
}

// bvOp evaluates a bit operation through int2bv/bv2nat.
func bvOp(op token.Token, x, y *Term, bits uint, signed bool) value {
	name := map[token.Token]string{token.AND: "bvand", token.OR: "bvor", token.XOR: "bvxor"}[op]
	toBV := func(t *Term) *Term { return Op(fmt.Sprintf("(_ int2bv %d)", bits), SInt, t) }
	var r *Term
	if op == token.AND_NOT {
		r = Op("bvand", SInt, toBV(x), Op("bvnot", SInt, toBV(y)))
	} else {
		r = Op(name, SInt, toBV(x), toBV(y))
	}
	n := Op("bv2nat", SInt, r)
	n.lo, n.hi = big0, new(big.Int).Sub(pow2(bits), big1)
	if signed {
		return simp(WrapS(n, bits))
	}
	return simp(n)
}

// simp turns constant terms back into concrete values is not possible without
// the type; callers that know the type use concInt. simp only normalises Bool.
func simp(t *Term) value {
	if t.isConst() && t.sort == SBool {
		return t.bval
	}
	return t
}

// concIfConst converts a constant Int term back to a concrete value of basic type b.
func concIfConst(t *Term, b *types.Basic) value {
	if t.isConst() && t.sort == SInt {
		if isSigned(b) {
			return t.ival.Int64()
		}
		return t.ival.Uint64()
	}
	return t
}

func floatBinop(fr *frame, op token.Token, b *types.Basic, x, y value) value {
	xf, okx := x.(float64)
	yf, oky := y.(float64)
	if okx && oky {
		switch op {
		case token.ADD:
			return xf + yf
		case token.SUB:
			return xf - yf
		case token.MUL:
			return xf * yf
		case token.QUO:
			return xf / yf
		case token.LSS:
			return xf < yf
		case token.LEQ:
			return xf <= yf
		case token.GTR:
			return xf > yf
		case token.GEQ:
			return xf >= yf
		}
		panic("floatBinop op")
	}
	tx, ok1 := toTerm(x)
	ty, ok2 := toTerm(y)
	if !ok1 || !ok2 {
		abort("unmodelled", "float op on non-finite constant")
	}
	switch op {
	case token.ADD:
		return fr.p.fround(Op("+", SReal, tx, ty))
	case token.SUB:
		return fr.p.fround(Op("-", SReal, tx, ty))
	case token.MUL:
		return fr.p.fround(Op("*", SReal, tx, ty))
	case token.QUO:
		// division by zero yields Inf/NaN in Go; the real model cannot express it
		zero := RealConst("0.0")
		if fr.p.branch(fr, Eq(ty, zero), nil) {
			abort("unmodelled", "float division by zero (Inf/NaN) in %s", fr.fn)
		}
		return fr.p.fround(Op("/", SReal, tx, ty))
	case token.LSS:
		return simp(Op("<", SBool, tx, ty))
	case token.LEQ:
		return simp(Op("<=", SBool, tx, ty))
	case token.GTR:
		return simp(Op(">", SBool, tx, ty))
	case token.GEQ:
		return simp(Op(">=", SBool, tx, ty))
	}
	panic("floatBinop op")
}

// fround applies the standard relative-error model: result = exact*(1+δ), |δ| ≤ 2^-53.
func (p *Path) fround(exact *Term) *Term {
	if p.exactFloat {
		return exact
	}
	p.floatVars++
	d := Var(fmt.Sprintf("fd!%d", p.floatVars), SReal)
	eps := RealConst("(/ 1.0 9007199254740992.0)")
	p.assume(And(Op("<=", SBool, Op("-", SReal, eps), d), Op("<=", SBool, d, eps)))
	return Op("*", SReal, exact, Op("+", SReal, RealConst("1.0"), d))
}

func stringBinop(fr *frame, op token.Token, x, y value) value {
	xs, okx := x.(string)
	ys, oky := y.(string)
	if okx && oky {
		switch op {
		case token.ADD:
			return xs + ys
		case token.LSS:
			return xs < ys
		case token.LEQ:
			return xs <= ys
		case token.GTR:
			return xs > ys
		case token.GEQ:
			return xs >= ys
		}
	}
	if op == token.ADD {
		return concatStr(x, y)
	}
	// ordered comparison on symbolic strings: via cells
	c := compareCells(fr, strCells(fr, x), strCells(fr, y))
	ct, _ := toTerm(c)
	z := IntConst64(0)
	switch op {
	case token.LSS:
		return simp(Lt(ct, z))
	case token.LEQ:
		return simp(Le(ct, z))
	case token.GTR:
		return simp(Gt(ct, z))
	case token.GEQ:
		return simp(Ge(ct, z))
	}
	panic("stringBinop")
}

func unop(fr *frame, instr *ssa.UnOp, x value) value {
	switch instr.Op {
	case token.ARROW:
		ch := x.(*chanVal)
		if ch == nil || len(ch.buf) == 0 {
			abort("unmodelled", "blocking channel receive in %s", fr.fn)
		}
		v := ch.buf[0]
		ch.buf = ch.buf[1:]
		if instr.CommaOk {
			return tuple{v, true}
		}
		return v
	case token.SUB:
		b := basicOf(instr.Type())
		switch x := x.(type) {
		case int64:
			return wrapI(-x, intBits(b))
		case uint64:
			return wrapUc(-x, intBits(b))
		case float64:
			return -x
		case *Term:
			if x.sort == SReal {
				return Op("-", SReal, x)
			}
			return wrapTerm(Neg(x), b)
		case spanByte:
			return wrapTerm(Neg(x.term()), b)
		}
	case token.MUL:
		ptr := x.(*value)
		if ptr == nil {
			rtPanic(fr, "invalid memory address or nil pointer dereference")
		}
		return load(derefType(instr.X.Type()), ptr)
	case token.NOT:
		return notValue(x)
	case token.XOR:
		b := basicOf(instr.Type())
		switch x := x.(type) {
		case int64:
			return wrapI(^x, intBits(b))
		case uint64:
			return wrapUc(^x, intBits(b))
		case *Term:
			if isSigned(b) {
				return Sub(Neg(x), IntConst64(1))
			}
			return Sub(IntConst(new(big.Int).Sub(pow2(intBits(b)), big1)), x)
		}
	}
	panic(fmt.Sprintf("invalid unary op %s %T", instr.Op, x))
}

// ---- equality ------------------------------------------------------------------

// eqValue implements == for static type t; the result is bool or *Term.
func eqValue(fr *frame, t types.Type, x, y value) value {
	switch tt := t.Underlying().(type) {
	case *types.Map:
		xm, _ := x.(*gomap)
		ym, _ := y.(*gomap)
		return (xm == nil) == (ym == nil) && (xm == nil || xm == ym)
	case *types.Slice:
		xs, _ := x.([]value)
		ys, _ := y.([]value)
		return (xs == nil) == (ys == nil)
	case *types.Signature:
		return isNilFunc(x) == isNilFunc(y) && (isNilFunc(x) || sameFunc(x, y))
	case *types.Interface:
		xi, yi := x.(iface), y.(iface)
		if xi.t == nil || yi.t == nil {
			return xi.t == nil && yi.t == nil
		}
		if !types.Identical(xi.t, yi.t) {
			return false
		}
		return eqValue(fr, xi.t, xi.v, yi.v)
	case *types.Struct:
		if opaqueKind(t) != "" {
			return eqOpaque(fr, t, x, y)
		}
		xs, ys := x.(structure), y.(structure)
		var acc value = true
		for i := 0; i < tt.NumFields(); i++ {
			if tt.Field(i).Name() == "_" {
				continue
			}
			acc = andValue(acc, eqValue(fr, tt.Field(i).Type(), xs[i], ys[i]))
			if b, ok := acc.(bool); ok && !b {
				return false
			}
		}
		return acc
	case *types.Array:
		xs, ys := x.(array), y.(array)
		if b := basicOf(tt.Elem()); b != nil && b.Kind() == types.Uint8 {
			return eqCells(fr, xs, ys)
		}
		var acc value = true
		for i := range xs {
			acc = andValue(acc, eqValue(fr, tt.Elem(), xs[i], ys[i]))
			if b, ok := acc.(bool); ok && !b {
				return false
			}
		}
		return acc
	case *types.Pointer:
		if rx, ok := x.(reflType); ok {
			ry, ok := y.(reflType)
			return ok && types.Identical(rx.t, ry.t)
		}
		return x.(*value) == y.(*value)
	case *types.Chan:
		return x.(*chanVal) == y.(*chanVal)
	case *types.Basic:
		if tt.Kind() == types.UnsafePointer {
			return x.(*value) == y.(*value)
		}
		info := tt.Info()
		switch {
		case info&types.IsString != 0:
			xs, okx := x.(string)
			ys, oky := y.(string)
			if okx && oky {
				return xs == ys
			}
			return eqStr(fr, x, y)
		case info&types.IsBoolean != 0, info&types.IsInteger != 0:
			if !isSym(x) && !isSym(y) {
				return x == y
			}
			tx, _ := toTerm(x)
			ty, _ := toTerm(y)
			return simp(Eq(tx, ty))
		case info&types.IsFloat != 0:
			xf, okx := x.(float64)
			yf, oky := y.(float64)
			if okx && oky {
				return xf == yf
			}
			tx, _ := toTerm(x)
			ty, _ := toTerm(y)
			return simp(Eq(tx, ty))
		case info&types.IsComplex != 0:
			return x == y
		}
	}
	panic(fmt.Sprintf("eqValue: unsupported type %s (%T, %T)", t, x, y))
}

func isNilFunc(v value) bool {
	switch v := v.(type) {
	case *ssa.Function:
		return v == nil
	case *closure:
		return v == nil
	case *hostFunc:
		return v == nil
	case *ssa.Builtin:
		return v == nil
	}
	return v == nil
}

func sameFunc(x, y value) bool { return x == y }

func andValue(a, b value) value {
	ab, aok := a.(bool)
	bb, bok := b.(bool)
	if aok && bok {
		return ab && bb
	}
	if aok {
		if ab {
			return b
		}
		return false
	}
	if bok {
		if bb {
			return a
		}
		return false
	}
	return simp(And(a.(*Term), b.(*Term)))
}

func orValue(a, b value) value {
	return notValue(andValue(notValue(a), notValue(b)))
}

func eqOpaque(fr *frame, t types.Type, x, y value) value {
	switch opaqueKind(t) {
	case "time.Time":
		xt, yt := x.(timeVal), y.(timeVal)
		if xt.zero || yt.zero {
			return xt.zero == yt.zero
		}
		tx, _ := toTerm(xt.ns)
		ty, _ := toTerm(yt.ns)
		return simp(Eq(tx, ty))
	case "big.Int":
		// struct comparison of big.Int values is not meaningful in Go either
		abort("unmodelled", "== on big.Int values")
	}
	abort("unmodelled", "== on opaque type %s", t)
	return nil
}

// ---- conversions -----------------------------------------------------------------

func conv(fr *frame, tDst, tSrc types.Type, x value) value {
	ud := tDst.Underlying()
	us := tSrc.Underlying()

	switch us := us.(type) {
	case *types.Pointer:
		switch ud := ud.(type) {
		case *types.Pointer:
			return x
		case *types.Basic:
			if ud.Kind() == types.UnsafePointer {
				return x
			}
		}
	case *types.Slice:
		// []byte/[]rune -> string, or slice -> slice (same underlying)
		if bd, ok := ud.(*types.Basic); ok && bd.Info()&types.IsString != 0 {
			eb := basicOf(us.Elem())
			if eb != nil && eb.Kind() == types.Uint8 {
				return cellsToString(x.([]value))
			}
			// []rune -> string
			var sb strings.Builder
			for _, r := range x.([]value) {
				sb.WriteRune(rune(r.(int64)))
			}
			return sb.String()
		}
		return x
	case *types.Basic:
		if us.Kind() == types.UnsafePointer {
			return x
		}
		if us.Info()&types.IsString != 0 {
			switch ud := ud.(type) {
			case *types.Slice:
				eb := basicOf(ud.Elem())
				if eb.Kind() == types.Uint8 {
					return strCells(fr, x)
				}
				// []rune
				s, ok := x.(string)
				if !ok {
					abort("unmodelled", "[]rune of symbolic string")
				}
				var out []value
				for _, r := range s {
					out = append(out, int64(r))
				}
				if out == nil {
					out = []value{}
				}
				return out
			case *types.Basic:
				if ud.Info()&types.IsString != 0 {
					return x
				}
			}
		}
		bd, ok := ud.(*types.Basic)
		if !ok {
			break
		}
		return convBasic(fr, bd, us, x)
	case *types.Array, *types.Struct, *types.Map, *types.Signature, *types.Interface, *types.Chan:
		return x
	}
	// slice to array conversion
	if ad, ok := ud.(*types.Array); ok {
		if xs, ok := x.([]value); ok {
			if int64(len(xs)) < ad.Len() {
				rtPanic(fr, "cannot convert slice to array: length too short")
			}
			a := make(array, ad.Len())
			for i := range a {
				a[i] = copyDyn(xs[i])
			}
			return a
		}
	}
	panic(fmt.Sprintf("unsupported conversion: %s -> %s (%T)", tSrc, tDst, x))
}

func convBasic(fr *frame, bd, bs *types.Basic, x value) value {
	di, si := bd.Info(), bs.Info()
	switch {
	case si&types.IsInteger != 0 && di&types.IsInteger != 0:
		bits := intBits(bd)
		switch x := x.(type) {
		case int64:
			if isSigned(bd) {
				return wrapI(x, bits)
			}
			return wrapUc(uint64(x), bits)
		case uint64:
			if isSigned(bd) {
				return wrapI(int64(x), bits)
			}
			return wrapUc(x, bits)
		case *Term:
			return wrapTerm(x, bd)
		case spanByte:
			if bits >= 8 && !isSigned(bd) || bits > 8 {
				if bd.Kind() == types.Uint8 {
					return x
				}
				return x.term()
			}
			return wrapTerm(x.term(), bd)
		}
	case si&types.IsInteger != 0 && di&types.IsFloat != 0:
		switch x := x.(type) {
		case int64:
			if bd.Kind() == types.Float32 {
				return float64(float32(x))
			}
			return float64(x)
		case uint64:
			if bd.Kind() == types.Float32 {
				return float64(float32(x))
			}
			return float64(x)
		case *Term:
			r := ToReal(x)
			// exact below 2^53
			lim := pow2(53)
			if x.lo != nil && x.hi != nil && new(big.Int).Abs(x.lo).Cmp(lim) <= 0 && x.hi.Cmp(lim) <= 0 {
				return r
			}
			return fr.p.fround(r)
		case spanByte:
			return ToReal(x.term())
		}
	case si&types.IsFloat != 0 && di&types.IsInteger != 0:
		switch x := x.(type) {
		case float64:
			if math.IsNaN(x) || math.IsInf(x, 0) {
				// implementation-specific in Go; amd64 gives min int64
				if isSigned(bd) {
					return int64(math.MinInt64)
				}
				return uint64(1 << 63)
			}
			if isSigned(bd) {
				return wrapI(int64(x), intBits(bd))
			}
			return wrapUc(uint64(x), intBits(bd))
		case *Term:
			// truncation toward zero; out-of-range is implementation-defined → require in range
			fl := Op("to_int", SInt, x) // floor
			tr := Ite(Op(">=", SBool, x, RealConst("0.0")), fl, Neg(Op("to_int", SInt, Op("-", SReal, x))))
			lo, hi := intRange(bd)
			inRange := And(Ge(tr, IntConst(lo)), Le(tr, IntConst(hi)))
			if !fr.p.branch(fr, inRange, nil) {
				abort("unmodelled", "float→int conversion out of range (implementation-defined) in %s", fr.fn)
			}
			tr2 := Ite(Op(">=", SBool, x, RealConst("0.0")), fl, Neg(Op("to_int", SInt, Op("-", SReal, x))))
			tr2.lo, tr2.hi = lo, hi
			return tr2
		}
	case si&types.IsFloat != 0 && di&types.IsFloat != 0:
		if f, ok := x.(float64); ok && bd.Kind() == types.Float32 {
			return float64(float32(f))
		}
		return x
	case si&types.IsInteger != 0 && di&types.IsString != 0:
		switch x := x.(type) {
		case int64:
			return string(rune(x))
		case uint64:
			return string(rune(x))
		}
		abort("unmodelled", "string(symbolic rune)")
	case si&types.IsString != 0 && di&types.IsString != 0:
		return x
	case si&types.IsBoolean != 0 && di&types.IsBoolean != 0:
		return x
	case si&types.IsComplex != 0 && di&types.IsComplex != 0:
		return x
	}
	panic(fmt.Sprintf("convBasic: %s -> %s (%T)", bs, bd, x))
}

func intRange(b *types.Basic) (*big.Int, *big.Int) {
	bits := intBits(b)
	if isSigned(b) {
		h := pow2(bits - 1)
		return new(big.Int).Neg(h), new(big.Int).Sub(h, big1)
	}
	return big0, new(big.Int).Sub(pow2(bits), big1)
}

// ---- slices, lookup, type assertion -------------------------------------------

func sliceOp(fr *frame, instr *ssa.Slice, x, lo, hi, max value) value {
	p := fr.p
	var Len, Cap int
	switch x := x.(type) {
	case string:
		Len, Cap = len(x), len(x)
	case *SymStr:
		Len = x.length(fr)
		Cap = Len
	case []value:
		Len, Cap = len(x), cap(x)
	case *value:
		if x == nil {
			rtPanic(fr, "invalid memory address or nil pointer dereference")
		}
		a := (*x).(array)
		Len, Cap = len(a), cap(a)
	}
	l := 0
	if lo != nil {
		l = int(p.concretizeInt(fr, lo, "slice low"))
	}
	h := Len
	if hi != nil {
		h = int(p.concretizeInt(fr, hi, "slice high"))
	}
	m := Cap
	if max != nil {
		m = int(p.concretizeInt(fr, max, "slice max"))
	}
	switch x := x.(type) {
	case string:
		if l < 0 || h < l || h > Len {
			rtPanic(fr, fmt.Sprintf("slice bounds out of range [%d:%d] with length %d", l, h, Len))
		}
		return x[l:h]
	case *SymStr:
		if l < 0 || h < l || h > Len {
			rtPanic(fr, fmt.Sprintf("slice bounds out of range [%d:%d] with length %d", l, h, Len))
		}
		return cellsToString(x.toCells(fr)[l:h])
	case []value:
		if l < 0 || h < l || h > Cap || m > Cap || m < h {
			rtPanic(fr, fmt.Sprintf("slice bounds out of range [%d:%d:%d] with capacity %d", l, h, m, Cap))
		}
		if x == nil {
			return x
		}
		return x[l:h:m]
	case *value:
		a := (*x).(array)
		if l < 0 || h < l || h > Cap || m > Cap || m < h {
			rtPanic(fr, fmt.Sprintf("slice bounds out of range [%d:%d:%d] with capacity %d", l, h, m, Cap))
		}
		return []value(a)[l:h:m]
	}
	panic(fmt.Sprintf("slice: unexpected X type: %T", x))
}

func lookup(fr *frame, instr *ssa.Lookup, x, idx value) value {
	switch x := x.(type) {
	case *gomap:
		var v value
		var ok bool
		if x != nil {
			v, ok = x.lookup(fr, idx)
		}
		if !ok {
			v = zero(instr.X.Type().Underlying().(*types.Map).Elem())
		}
		if instr.CommaOk {
			return tuple{v, ok}
		}
		return v
	case string:
		i := fr.p.indexCheck(fr, idx, len(x))
		return uint64(x[i])
	case *SymStr:
		cells := x.toCells(fr)
		i := fr.p.indexCheck(fr, idx, len(cells))
		return cells[i]
	}
	panic(fmt.Sprintf("unexpected x type in Lookup: %T", x))
}

func typeAssert(fr *frame, instr *ssa.TypeAssert, itf iface) value {
	var v value
	err := ""
	if itf.t == nil {
		err = fmt.Sprintf("interface conversion: interface is nil, not %s", instr.AssertedType)
	} else if idst, ok := instr.AssertedType.Underlying().(*types.Interface); ok {
		v = itf
		if meth, _ := types.MissingMethod(itf.t, idst, true); meth != nil {
			err = fmt.Sprintf("interface conversion: %v is not %v: missing method %s", itf.t, idst, meth.Name())
		}
	} else if types.Identical(itf.t, instr.AssertedType) {
		v = itf.v
	} else {
		err = fmt.Sprintf("interface conversion: interface is %s, not %s", itf.t, instr.AssertedType)
	}
	if err != "" {
		if !instr.CommaOk {
			panic(targetPanic{iface{fr.p.eng.runtimeErrorString, err}})
		}
		return tuple{zero(instr.AssertedType), false}
	}
	if instr.CommaOk {
		return tuple{v, true}
	}
	return v
}

// ---- iteration ---------------------------------------------------------------------

type iter interface {
	next() tuple
}

type stringIter struct {
	s string
	i int
}

func (it *stringIter) next() tuple {
	if it.i >= len(it.s) {
		return tuple{false, int64(0), int64(0)}
	}
	r, n := utf8.DecodeRuneInString(it.s[it.i:])
	res := tuple{true, int64(it.i), int64(r)}
	it.i += n
	return res
}

type mapIter struct {
	entries []mapEntry
	i       int
}

func (it *mapIter) next() tuple {
	if it.i >= len(it.entries) {
		return tuple{false, nil, nil}
	}
	e := it.entries[it.i]
	it.i++
	return tuple{true, e.k, e.v}
}

func rangeIter(fr *frame, x value, t types.Type) iter {
	switch x := x.(type) {
	case *gomap:
		if x == nil {
			return &mapIter{}
		}
		es := make([]mapEntry, len(x.entries))
		copy(es, x.entries)
		es = fr.p.mapOrder(fr, x, es)
		return &mapIter{entries: es}
	case string:
		return &stringIter{s: x}
	case *SymStr:
		abort("unmodelled", "range over symbolic string")
	}
	panic(fmt.Sprintf("cannot range over %T", x))
}

// ---- maps ----------------------------------------------------------------------------

// canonKey returns a canonical string for fully concrete keys.
func canonKey(v value) (string, bool) {
	switch v := v.(type) {
	case bool:
		if v {
			return "T", true
		}
		return "F", true
	case int64:
		return fmt.Sprintf("i%d", v), true
	case uint64:
		return fmt.Sprintf("u%d", v), true
	case float64:
		return fmt.Sprintf("f%v", v), true
	case string:
		return "s" + v, true
	case *value:
		return fmt.Sprintf("p%p", v), true
	case iface:
		if v.t == nil {
			return "nil", true
		}
		s, ok := canonKey(v.v)
		return "I" + v.t.String() + ":" + s, ok
	case structure:
		var sb strings.Builder
		sb.WriteString("{")
		for _, f := range v {
			s, ok := canonKey(f)
			if !ok {
				return "", false
			}
			fmt.Fprintf(&sb, "%d:%s,", len(s), s)
		}
		return sb.String(), true
	case array:
		var sb strings.Builder
		sb.WriteString("[")
		for _, f := range v {
			s, ok := canonKey(f)
			if !ok {
				return "", false
			}
			fmt.Fprintf(&sb, "%d:%s,", len(s), s)
		}
		return sb.String(), true
	case *chanVal:
		return fmt.Sprintf("c%p", v), true
	case timeVal:
		if v.zero {
			return "t0", true
		}
		if n, ok := v.ns.(int64); ok {
			return fmt.Sprintf("t%d%s", n, v.zone), true
		}
	}
	return "", false
}

func (m *gomap) find(fr *frame, k value) int {
	ck, conc := canonKey(k)
	if conc {
		if i, ok := m.idx[ck]; ok {
			return i
		}
		if m.nsym == 0 {
			return -1
		}
	}
	// linear scan with solver-decided equality for symbolic keys
	for i, e := range m.entries {
		if conc {
			if _, ec := canonKey(e.k); ec {
				continue // concrete vs concrete already handled by idx
			}
		}
		eq := eqValue(fr, m.keyType, e.k, k)
		if fr.p.branch(fr, eq, nil) {
			return i
		}
	}
	return -1
}

func (m *gomap) lookup(fr *frame, k value) (value, bool) {
	i := m.find(fr, k)
	if i < 0 {
		return nil, false
	}
	return m.entries[i].v, true
}

func (m *gomap) insert(fr *frame, k, v value) {
	i := m.find(fr, k)
	if i >= 0 {
		m.entries[i].v = v
		return
	}
	m.entries = append(m.entries, mapEntry{k, v})
	if ck, ok := canonKey(k); ok {
		m.idx[ck] = len(m.entries) - 1
	} else {
		m.nsym++
	}
}

func (m *gomap) delete(fr *frame, k value) {
	i := m.find(fr, k)
	if i < 0 {
		return
	}
	if _, ok := canonKey(m.entries[i].k); !ok {
		m.nsym--
	}
	m.entries = append(m.entries[:i:i], m.entries[i+1:]...)
	m.idx = map[string]int{}
	for j, e := range m.entries {
		if ck, ok := canonKey(e.k); ok {
			m.idx[ck] = j
		}
	}
}
