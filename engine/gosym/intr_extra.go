package main

import (
	"go/types"
)

type ctxData struct{}

func registerExtra(e *Engine) {
	registerLogging(e)
	registerPalomaHelpers(e)
	registerSDK(e)
	registerAddr(e)
	registerHashObjects(e)
	registerAtomic(e)
	registerEth(e)
	registerRegexp(e)
	registerABI(e)
}

// loggerValue returns the universal no-op logger object (*liblog.lgwr).
func loggerValue(e *Engine) value {
	t := e.namedType(modPath+"/util/liblog", "lgwr")
	var cell value = zero(t)
	return iface{t: types.NewPointer(t), v: &cell}
}

func registerPalomaHelpers(e *Engine) {
	// x/skyway/types.convertByteArrToString: per-byte UTF-8 encoding (injective)
	e.reg(modPath+"/x/skyway/types.convertByteArrToString", func(fr *frame, args []value) value {
		cells := args[0].([]value)
		if b, ok := concBytes(cells); ok {
			var sb []rune
			for _, c := range b {
				sb = append(sb, rune(c))
			}
			return string(sb)
		}
		cp := make([]value, len(cells))
		copy(cp, cells)
		return &SymStr{parts: []strPart{{s: "utf8~"}, {kind: "b", cells: cp}}}
	})
}

func registerLogging(e *Engine) {
	if e.pkg(modPath+"/util/liblog") == nil {
		return
	}
	lg := modPath + "/util/liblog."
	mk := func(fr *frame, args []value) value { return loggerValue(e) }
	e.reg(lg+"FromKeeper", mk)
	e.reg(lg+"FromSDKLogger", mk)
	m := "(*" + modPath + "/util/liblog.lgwr)."
	self := func(fr *frame, args []value) value {
		return iface{t: types.NewPointer(e.namedType(modPath+"/util/liblog", "lgwr")), v: args[0]}
	}
	for _, n := range []string{"With", "WithFields", "WithComponent", "WithChain", "WithValidator", "WithError"} {
		e.reg(m+n, self)
	}
	for _, n := range []string{"Debug", "Info", "Warn", "Error"} {
		e.reg(m+n, nop)
	}
	e.reg(m+"Impl", func(fr *frame, args []value) value { return iface{} })
	e.reg("cosmossdk.io/log.NewNopLogger", mk)
	e.reg("cosmossdk.io/log.NewLogger", mk)
	e.reg("cosmossdk.io/log.NewTestLogger", mk)
}
