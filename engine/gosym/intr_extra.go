package main

import (
	"go/types"
	"math/big"

	"golang.org/x/tools/go/ssa"
)

type ctxData struct{}

func registerExtra(e *Engine) {
	registerLogging(e)
	registerParams(e)
	registerPalomaHelpers(e)
	registerSDK(e)
	registerAddr(e)
	registerHashObjects(e)
	registerAtomic(e)
	registerEth(e)
	registerRegexp(e)
	registerABI(e)
	registerABIJSON(e)
	registerEthTx(e)
	registerSkiplist(e)
	registerCrypto(e)
}

// loggerValue returns the universal no-op logger object (*liblog.lgwr).
func loggerValue(e *Engine) value {
	t := e.namedType(modPath+"/util/liblog", "lgwr")
	var cell value = zero(t)
	return iface{t: types.NewPointer(t), v: &cell}
}

func registerPalomaHelpers(e *Engine) {
	// util/palomath.BigIntDiv: a/b through big.Float, printed with 8 decimals and
	// parsed into a LegacyDec (raw value * 10^18)
	mkDec := func(fr *frame, raw bigVal) value {
		dt := e.namedType("cosmossdk.io/math", "LegacyDec")
		s := zero(dt).(structure)
		s[0] = newBigCell(raw)
		return s
	}
	e.reg(modPath+"/util/palomath.BigIntDiv", func(fr *frame, args []value) value {
		a, b := bigOf(fr, args[0]), bigOf(fr, args[1])
		if a.isConc() && b.isConc() {
			if a.conc().Sign() == 0 && b.conc().Sign() == 0 {
				panic(targetPanic{errValue(fr, "division of zero by zero or infinity by infinity")})
			}
			if b.conc().Sign() == 0 {
				abort("unmodelled", "BigIntDiv by zero (infinite big.Float)")
			}
			q := new(big.Float).Quo(new(big.Float).SetInt(a.conc()), new(big.Float).SetInt(b.conc()))
			txt := q.Text('f', 8)
			r, ok := new(big.Rat).SetString(txt)
			if !ok {
				abort("unmodelled", "BigIntDiv text %s", txt)
			}
			raw := new(big.Int).Mul(r.Num(), new(big.Int).Exp(big.NewInt(10), big.NewInt(18), nil))
			raw.Quo(raw, r.Denom())
			return mkDec(fr, bigConc(raw))
		}
		if fr.p.branch(fr, eqZero(b), nil) {
			abort("unmodelled", "BigIntDiv by symbolic zero")
		}
		// nearest multiple of 10^-8 (ties rounded up; float rounding of the quotient ignored)
		num := Add(Mul(Mul(a.term(), IntConst64(2)), IntConst64(100_000_000)), b.term())
		q8 := EDiv(num, Mul(b.term(), IntConst64(2)))
		return mkDec(fr, mkBig(Mul(q8, IntConst64(10_000_000_000))))
	})
	e.reg(modPath+"/util/palomath.LegacyDecFromFloat64", func(fr *frame, args []value) value {
		f, ok := args[0].(float64)
		if !ok {
			abort("unmodelled", "LegacyDecFromFloat64 of symbolic float")
		}
		txt := big.NewFloat(f).Text('f', 8)
		r, ok := new(big.Rat).SetString(txt)
		if !ok {
			abort("unmodelled", "LegacyDecFromFloat64 text %s", txt)
		}
		raw := new(big.Int).Mul(r.Num(), new(big.Int).Exp(big.NewInt(10), big.NewInt(18), nil))
		raw.Quo(raw, r.Denom())
		return mkDec(fr, bigConc(raw))
	})
	// util/libvalid.IsNil peeks at the interface data word through unsafe: true for
	// a nil interface and for nil values of pointer-shaped types (pointer, map,
	// chan, func); every other kind is boxed, so its data word is never zero.
	e.reg(modPath+"/util/libvalid.IsNil", func(fr *frame, args []value) value {
		x := args[0].(iface)
		if x.t == nil {
			return true
		}
		switch x.t.Underlying().(type) {
		case *types.Pointer:
			p, _ := x.v.(*value)
			return p == nil
		case *types.Map:
			m, _ := x.v.(*gomap)
			return m == nil
		case *types.Chan:
			c, _ := x.v.(*chanVal)
			return c == nil
		case *types.Signature:
			return isNilFunc(x.v)
		}
		return false
	})
	// util/libeth.ValidateEthAddress on the opaque rendering of a symbolic address
	// (always a well-formed 20-byte address); concrete strings run the real code.
	if e.pkg(modPath+"/util/libeth") != nil {
		real := e.pkg(modPath + "/util/libeth").Func("ValidateEthAddress")
		e.reg(modPath+"/util/libeth.ValidateEthAddress", func(fr *frame, args []value) value {
			if ss, ok := args[0].(*SymStr); ok {
				if len(ss.parts) == 2 && ss.parts[0].s == "0x~" && ss.parts[1].kind == "b" && len(ss.parts[1].cells) == 20 {
					return nilErr()
				}
				abort("unmodelled", "ValidateEthAddress of symbolic string %s", ss)
			}
			return runBody(fr, real, args)
		})
	}
	// x/skyway/types.convertByteArrToString: per-byte UTF-8 encoding (injective)
	e.reg(modPath+"/x/skyway/types.convertByteArrToString", func(fr *frame, args []value) value {
		cells := args[0].([]value)
		if b, ok := concBytes(cells); ok {
			var sb []rune
			for _, c := range b {
				sb = append(sb, rune(c))
			}
			return string(sb)
		}
		cp := make([]value, len(cells))
		copy(cp, cells)
		return &SymStr{parts: []strPart{{s: "utf8~"}, {kind: "b", cells: cp}}}
	})
}

func registerParams(e *Engine) {
	ss := "(github.com/cosmos/cosmos-sdk/x/params/types.Subspace)."
	pss := "(*github.com/cosmos/cosmos-sdk/x/params/types.Subspace)."
	e.reg(ss+"HasKeyTable", func(fr *frame, args []value) value { return true })
	e.reg(ss+"WithKeyTable", func(fr *frame, args []value) value { return args[0] })
	e.reg(ss+"Name", func(fr *frame, args []value) value { return "params" })
	set := func(fr *frame, args []value) value {
		ps := args[2].(iface)
		fr.p.hostState["paramset:"+ps.t.String()] = deepCopy(ps.v, map[*value]*value{})
		return nil
	}
	get := func(fr *frame, args []value) value {
		ps := args[2].(iface)
		snap, ok := fr.p.hostState["paramset:"+ps.t.String()]
		if !ok {
			panic(targetPanic{errValue(fr, "params not set (UnmarshalJSON cannot decode empty bytes)")})
		}
		src := snap.(*value)
		dst := ps.v.(*value)
		store(derefType(ps.t), dst, deepCopy(*src, map[*value]*value{}))
		return nil
	}
	e.reg(ss+"SetParamSet", set)
	e.reg(ss+"GetParamSet", get)
	e.reg(pss+"SetParamSet", set)
	e.reg(pss+"GetParamSet", get)
}

func registerLogging(e *Engine) {
	if e.pkg(modPath+"/util/liblog") == nil {
		return
	}
	lg := modPath + "/util/liblog."
	mk := func(fr *frame, args []value) value { return loggerValue(e) }
	e.reg(lg+"FromKeeper", mk)
	e.reg(lg+"FromSDKLogger", mk)
	m := "(*" + modPath + "/util/liblog.lgwr)."
	self := func(fr *frame, args []value) value {
		return iface{t: types.NewPointer(e.namedType(modPath+"/util/liblog", "lgwr")), v: args[0]}
	}
	for _, n := range []string{"With", "WithFields", "WithComponent", "WithChain", "WithValidator", "WithError"} {
		e.reg(m+n, self)
	}
	for _, n := range []string{"Debug", "Info", "Warn", "Error"} {
		e.reg(m+n, nop)
	}
	e.reg(m+"Impl", func(fr *frame, args []value) value { return iface{} })
	e.reg("cosmossdk.io/log.NewNopLogger", mk)
	e.reg("cosmossdk.io/log.NewLogger", mk)
	e.reg("cosmossdk.io/log.NewTestLogger", mk)
}

// runBody executes fn's SSA body, bypassing its intrinsic.
func runBody(fr *frame, fn *ssa.Function, args []value) value {
	p := fr.p
	nf := &frame{p: p, caller: fr.caller, fn: fn, callpos: fr.callpos}
	nf.env = make(map[ssa.Value]value, 16)
	nf.block = fn.Blocks[0]
	nf.locals = make([]value, len(fn.Locals))
	for i, l := range fn.Locals {
		nf.locals[i] = zero(derefType(l.Type()))
		nf.env[l] = &nf.locals[i]
	}
	for i, prm := range fn.Params {
		nf.env[prm] = args[i]
	}
	for nf.block != nil {
		runFrame(nf)
	}
	return nf.result
}
