package main

import (
	"encoding/json"
	"fmt"
	"go/types"
	"strings"
)

// go-ethereum accounts/abi: standard ABI encoding is injective for a fixed
// type signature (stated assumption). Pack returns an opaque blob holding the
// signature and a snapshot of the argument values; two blobs are equal iff
// signatures and all argument values are equal.

const abiPkg = "github.com/ethereum/go-ethereum/accounts/abi"

func abiTypeString(fr *frame, t string, comps []value) string {
	e := fr.p.eng
	if !strings.HasPrefix(t, "tuple") {
		return t
	}
	amT := e.namedType(abiPkg, "ArgumentMarshaling")
	var parts []string
	for _, c := range comps {
		cs := c.(structure)
		ct, _ := cs[fieldIndex(amT, "Type")].(string)
		sub, _ := cs[fieldIndex(amT, "Components")].([]value)
		parts = append(parts, abiTypeString(fr, ct, sub))
	}
	return "(" + strings.Join(parts, ",") + ")" + strings.TrimPrefix(t, "tuple")
}

func registerABI(e *Engine) {
	e.reg(abiPkg+".NewType", func(fr *frame, args []value) value {
		t, ok := args[0].(string)
		if !ok {
			abort("unmodelled", "abi.NewType with symbolic type string")
		}
		comps, _ := args[2].([]value)
		tt := e.namedType(abiPkg, "Type")
		s := zero(tt).(structure)
		s[fieldIndex(tt, "stringKind")] = abiTypeString(fr, t, comps)
		return tuple{s, nilErr()}
	})
	e.reg("("+abiPkg+".Type).String", func(fr *frame, args []value) value {
		tt := e.namedType(abiPkg, "Type")
		return args[0].(structure)[fieldIndex(tt, "stringKind")]
	})
	sigOf := func(fr *frame, arguments []value) string {
		at := e.namedType(abiPkg, "Argument")
		tt := e.namedType(abiPkg, "Type")
		var parts []string
		for _, a := range arguments {
			ty := a.(structure)[fieldIndex(at, "Type")].(structure)
			sk, _ := ty[fieldIndex(tt, "stringKind")].(string)
			parts = append(parts, sk)
		}
		return strings.Join(parts, ",")
	}
	e.reg(abiPkg+".NewMethod", func(fr *frame, args []value) value {
		mt := e.namedType(abiPkg, "Method")
		s := zero(mt).(structure)
		name, _ := args[0].(string)
		raw, _ := args[1].(string)
		inputs, _ := args[6].([]value)
		outputs, _ := args[7].([]value)
		s[fieldIndex(mt, "Name")] = name
		s[fieldIndex(mt, "RawName")] = raw
		s[fieldIndex(mt, "Type")] = args[2]
		s[fieldIndex(mt, "StateMutability")] = args[3]
		s[fieldIndex(mt, "Constant")] = args[4]
		s[fieldIndex(mt, "Payable")] = args[5]
		s[fieldIndex(mt, "Inputs")] = inputs
		s[fieldIndex(mt, "Outputs")] = outputs
		sig := raw + "(" + sigOf(fr, inputs) + ")"
		s[fieldIndex(mt, "Sig")] = sig
		s[fieldIndex(mt, "ID")] = bytesToCells(keccak256([]byte(sig))[:4])
		return s
	})
	pack := func(fr *frame, sig string, vals []value) value {
		memo := map[*value]*value{}
		snap := make(structure, 0, len(vals)+1)
		snap = append(snap, sig)
		for _, v := range vals {
			snap = append(snap, deepCopy(abiNorm(anyType, v), memo))
		}
		return []value{blobByte{kind: "abi", v: snap}}
	}
	e.reg("("+abiPkg+".Arguments).Pack", func(fr *frame, args []value) value {
		arguments, _ := args[0].([]value)
		vals, _ := args[1].([]value)
		if len(vals) != len(arguments) {
			return tuple{[]value(nil), errValue(fr, "argument count mismatch: got %d for %d", len(vals), len(arguments))}
		}
		return tuple{pack(fr, sigOf(fr, arguments), vals), nilErr()}
	})
	e.reg("("+abiPkg+".Arguments).PackValues", func(fr *frame, args []value) value {
		arguments, _ := args[0].([]value)
		vals, _ := args[1].([]value)
		if len(vals) != len(arguments) {
			return tuple{[]value(nil), errValue(fr, "argument count mismatch: got %d for %d", len(vals), len(arguments))}
		}
		return tuple{pack(fr, sigOf(fr, arguments), vals), nilErr()}
	})
}

// ---- abi.JSON / ABI.Pack -------------------------------------------------------
//
// abi.JSON on a concrete JSON document is parsed natively; the resulting
// abi.ABI value carries methods, events and errors with their argument type
// strings. ABI.Pack(name, args...) yields selector ++ injective blob of the
// arguments (arity checked against the parsed definition; conformance of Go
// argument types to the ABI types is not modelled — the repo's own tests pin
// it). Arguments.Unpack of canonical input is the inverse of Pack: it returns
// one opaque value wrapping the bytes, and packing that value gives the bytes
// back.

type abiRaw struct{ cells []value }

type abiJSONArg struct {
	Name         string
	Type         string
	InternalType string
	Components   []abiJSONArg
	Indexed      bool
}

type abiJSONField struct {
	Type            string
	Name            string
	Inputs          []abiJSONArg
	Outputs         []abiJSONArg
	StateMutability string
	Constant        bool
	Payable         bool
	Anonymous       bool
}

func abiArgTypeString(a abiJSONArg) string {
	if !strings.HasPrefix(a.Type, "tuple") {
		return a.Type
	}
	var parts []string
	for _, c := range a.Components {
		parts = append(parts, abiArgTypeString(c))
	}
	return "(" + strings.Join(parts, ",") + ")" + strings.TrimPrefix(a.Type, "tuple")
}

func readerString(fr *frame, v value) (string, bool) {
	it, ok := v.(iface)
	if !ok || it.v == nil {
		return "", false
	}
	ptr, ok := it.v.(*value)
	if !ok || ptr == nil {
		return "", false
	}
	st, ok := (*ptr).(structure)
	if !ok || len(st) == 0 {
		return "", false
	}
	switch s := st[0].(type) {
	case string:
		return s, true
	case []value: // bytes.Reader
		b := make([]byte, len(s))
		for i, c := range s {
			n, ok := c.(uint64)
			if !ok {
				return "", false
			}
			b[i] = byte(n)
		}
		return string(b), true
	}
	return "", false
}

func registerABIJSON(e *Engine) {
	mkArgs := func(fr *frame, in []abiJSONArg) []value {
		at := e.namedType(abiPkg, "Argument")
		tt := e.namedType(abiPkg, "Type")
		out := make([]value, 0, len(in))
		for _, a := range in {
			s := zero(at).(structure)
			s[fieldIndex(at, "Name")] = a.Name
			ty := zero(tt).(structure)
			ty[fieldIndex(tt, "stringKind")] = abiArgTypeString(a)
			s[fieldIndex(at, "Type")] = ty
			s[fieldIndex(at, "Indexed")] = a.Indexed
			out = append(out, s)
		}
		return out
	}
	sigOf := func(in []abiJSONArg) string {
		var parts []string
		for _, a := range in {
			parts = append(parts, abiArgTypeString(a))
		}
		return strings.Join(parts, ",")
	}
	e.reg(abiPkg+".JSON", func(fr *frame, args []value) value {
		abiT := e.namedType(abiPkg, "ABI")
		mt := e.namedType(abiPkg, "Method")
		et := e.namedType(abiPkg, "Event")
		ert := e.namedType(abiPkg, "Error")
		res := zero(abiT).(structure)
		doc, ok := readerString(fr, args[0])
		if !ok {
			abort("unmodelled", "abi.JSON of a symbolic or unsupported reader")
		}
		var fields []abiJSONField
		if err := json.Unmarshal([]byte(doc), &fields); err != nil {
			return tuple{res, errValue(fr, "%s", err.Error())}
		}
		strT := types.Typ[types.String]
		methods := &gomap{keyType: strT, idx: map[string]int{}}
		events := &gomap{keyType: strT, idx: map[string]int{}}
		errs := &gomap{keyType: strT, idx: map[string]int{}}
		mkMethod := func(name, raw string, kind int64, f abiJSONField) structure {
			s := zero(mt).(structure)
			s[fieldIndex(mt, "Name")] = name
			s[fieldIndex(mt, "RawName")] = raw
			s[fieldIndex(mt, "Type")] = kind
			s[fieldIndex(mt, "StateMutability")] = f.StateMutability
			s[fieldIndex(mt, "Constant")] = f.Constant
			s[fieldIndex(mt, "Payable")] = f.Payable
			s[fieldIndex(mt, "Inputs")] = mkArgs(fr, f.Inputs)
			s[fieldIndex(mt, "Outputs")] = mkArgs(fr, f.Outputs)
			sig := raw + "(" + sigOf(f.Inputs) + ")"
			s[fieldIndex(mt, "Sig")] = sig
			s[fieldIndex(mt, "ID")] = bytesToCells(keccak256([]byte(sig))[:4])
			return s
		}
		resolve := func(m *gomap, raw string) string {
			name := raw
			for i := 0; ; i++ {
				if _, taken := m.idx[name]; !taken {
					return name
				}
				name = fmt.Sprintf("%s%d", raw, i)
			}
		}
		for _, f := range fields {
			switch f.Type {
			case "constructor":
				res[fieldIndex(abiT, "Constructor")] = mkMethod("", "", 1, f)
			case "function":
				name := resolve(methods, f.Name)
				methods.insert(fr, name, mkMethod(name, f.Name, 0, f))
			case "fallback":
				res[fieldIndex(abiT, "Fallback")] = mkMethod("", "", 2, f)
			case "receive":
				res[fieldIndex(abiT, "Receive")] = mkMethod("", "", 3, f)
			case "event":
				name := resolve(events, f.Name)
				s := zero(et).(structure)
				s[fieldIndex(et, "Name")] = name
				s[fieldIndex(et, "RawName")] = f.Name
				s[fieldIndex(et, "Anonymous")] = f.Anonymous
				s[fieldIndex(et, "Inputs")] = mkArgs(fr, f.Inputs)
				sig := f.Name + "(" + sigOf(f.Inputs) + ")"
				s[fieldIndex(et, "Sig")] = sig
				s[fieldIndex(et, "ID")] = array(bytesToCells(keccak256([]byte(sig))))
				events.insert(fr, name, s)
			case "error":
				s := zero(ert).(structure)
				s[fieldIndex(ert, "Name")] = f.Name
				s[fieldIndex(ert, "Inputs")] = mkArgs(fr, f.Inputs)
				sig := f.Name + "(" + sigOf(f.Inputs) + ")"
				s[fieldIndex(ert, "Sig")] = sig
				s[fieldIndex(ert, "ID")] = array(bytesToCells(keccak256([]byte(sig))))
				errs.insert(fr, f.Name, s)
			default:
				return tuple{res, errValue(fr, "abi: could not recognize type %v of field %v", f.Type, f.Name)}
			}
		}
		res[fieldIndex(abiT, "Methods")] = methods
		res[fieldIndex(abiT, "Events")] = events
		res[fieldIndex(abiT, "Errors")] = errs
		return tuple{res, nilErr()}
	})
	packVals := func(fr *frame, sig string, vals []value) []value {
		// canonical input that went through Unpack packs back to itself
		if len(vals) == 1 {
			if it, ok := vals[0].(iface); ok {
				if raw, ok := it.v.(abiRaw); ok {
					return append([]value(nil), raw.cells...)
				}
			}
		}
		memo := map[*value]*value{}
		snap := make(structure, 0, len(vals)+1)
		snap = append(snap, sig)
		for _, v := range vals {
			snap = append(snap, deepCopy(abiNorm(anyType, v), memo))
		}
		return []value{blobByte{kind: "abi", v: snap}}
	}
	methodSig := func(m structure) (string, []value, []value) {
		mt := e.namedType(abiPkg, "Method")
		sig, _ := m[fieldIndex(mt, "Sig")].(string)
		id, _ := m[fieldIndex(mt, "ID")].([]value)
		inputs, _ := m[fieldIndex(mt, "Inputs")].([]value)
		return sig, id, inputs
	}
	e.reg("("+abiPkg+".ABI).Pack", func(fr *frame, args []value) value {
		abiT := e.namedType(abiPkg, "ABI")
		a := args[0].(structure)
		name, ok := args[1].(string)
		if !ok {
			abort("unmodelled", "ABI.Pack with a symbolic method name")
		}
		vals, _ := args[2].([]value)
		if name == "" {
			cons := a[fieldIndex(abiT, "Constructor")].(structure)
			sig, _, inputs := methodSig(cons)
			if len(vals) == 1 {
				if it, ok := vals[0].(iface); ok {
					if _, ok := it.v.(abiRaw); ok {
						return tuple{packVals(fr, sig, vals), nilErr()}
					}
				}
			}
			if len(vals) != len(inputs) {
				return tuple{[]value(nil), errValue(fr, "argument count mismatch: got %d for %d", len(vals), len(inputs))}
			}
			return tuple{packVals(fr, sig, vals), nilErr()}
		}
		methods, _ := a[fieldIndex(abiT, "Methods")].(*gomap)
		if methods == nil {
			return tuple{[]value(nil), errValue(fr, "method '%s' not found", name)}
		}
		mv, found := methods.lookup(fr, name)
		if !found {
			return tuple{[]value(nil), errValue(fr, "method '%s' not found", name)}
		}
		sig, id, inputs := methodSig(mv.(structure))
		if len(vals) != len(inputs) {
			return tuple{[]value(nil), errValue(fr, "argument count mismatch: got %d for %d", len(vals), len(inputs))}
		}
		out := append([]value(nil), id...)
		out = append(out, packVals(fr, sig, vals)...)
		return tuple{out, nilErr()}
	})
	e.reg("("+abiPkg+".Arguments).Unpack", func(fr *frame, args []value) value {
		data, _ := args[1].([]value)
		arguments, _ := args[0].([]value)
		if len(data) == 0 && len(arguments) != 0 {
			return tuple{[]value(nil), errValue(fr, "abi: attempting to unmarshal an empty string while arguments are expected")}
		}
		if len(arguments) == 0 {
			return tuple{[]value{}, nilErr()}
		}
		// stated assumption: the harness supplies canonical (decodable) input
		return tuple{[]value{iface{t: abiRawType, v: abiRaw{cells: append([]value(nil), data...)}}}, nilErr()}
	})
}

// abiNorm keeps what the ABI encoder looks at: exported struct fields only,
// pointers followed, dynamic types of interfaces resolved.
func abiNorm(t types.Type, v value) value {
	if v == nil || t == nil {
		return v
	}
	if opaqueKind(t) != "" {
		return v
	}
	switch tt := t.Underlying().(type) {
	case *types.Struct:
		st, ok := v.(structure)
		if !ok {
			return v
		}
		out := make(structure, 0, len(st))
		for i := 0; i < tt.NumFields() && i < len(st); i++ {
			if !tt.Field(i).Exported() {
				continue
			}
			out = append(out, abiNorm(tt.Field(i).Type(), st[i]))
		}
		return out
	case *types.Pointer:
		p, ok := v.(*value)
		if !ok || p == nil {
			return v
		}
		if opaqueKind(tt.Elem()) != "" {
			return v
		}
		n := abiNorm(tt.Elem(), *p)
		return &n
	case *types.Slice:
		xs, ok := v.([]value)
		if !ok {
			return v
		}
		if b, ok := tt.Elem().Underlying().(*types.Basic); ok && b.Kind() == types.Uint8 {
			return v
		}
		out := make([]value, len(xs))
		for i := range xs {
			out[i] = abiNorm(tt.Elem(), xs[i])
		}
		return out
	case *types.Array:
		xs, ok := v.(array)
		if !ok {
			return v
		}
		if b, ok := tt.Elem().Underlying().(*types.Basic); ok && b.Kind() == types.Uint8 {
			return v
		}
		out := make(array, len(xs))
		for i := range xs {
			out[i] = abiNorm(tt.Elem(), xs[i])
		}
		return out
	case *types.Interface:
		it, ok := v.(iface)
		if !ok || it.t == nil {
			return v
		}
		return iface{t: it.t, v: abiNorm(it.t, it.v)}
	}
	return v
}

var anyType types.Type = types.NewInterfaceType(nil, nil)

var abiRawType = types.NewNamed(types.NewTypeName(0, nil, "abiRaw", nil), types.NewStruct(nil, nil), nil)
