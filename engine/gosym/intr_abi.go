package main

import (
	"strings"
)

// go-ethereum accounts/abi: standard ABI encoding is injective for a fixed
// type signature (stated assumption). Pack returns an opaque blob holding the
// signature and a snapshot of the argument values; two blobs are equal iff
// signatures and all argument values are equal.

const abiPkg = "github.com/ethereum/go-ethereum/accounts/abi"

func abiTypeString(fr *frame, t string, comps []value) string {
	e := fr.p.eng
	if !strings.HasPrefix(t, "tuple") {
		return t
	}
	amT := e.namedType(abiPkg, "ArgumentMarshaling")
	var parts []string
	for _, c := range comps {
		cs := c.(structure)
		ct, _ := cs[fieldIndex(amT, "Type")].(string)
		sub, _ := cs[fieldIndex(amT, "Components")].([]value)
		parts = append(parts, abiTypeString(fr, ct, sub))
	}
	return "(" + strings.Join(parts, ",") + ")" + strings.TrimPrefix(t, "tuple")
}

func registerABI(e *Engine) {
	e.reg(abiPkg+".NewType", func(fr *frame, args []value) value {
		t, ok := args[0].(string)
		if !ok {
			abort("unmodelled", "abi.NewType with symbolic type string")
		}
		comps, _ := args[2].([]value)
		tt := e.namedType(abiPkg, "Type")
		s := zero(tt).(structure)
		s[fieldIndex(tt, "stringKind")] = abiTypeString(fr, t, comps)
		return tuple{s, nilErr()}
	})
	e.reg("("+abiPkg+".Type).String", func(fr *frame, args []value) value {
		tt := e.namedType(abiPkg, "Type")
		return args[0].(structure)[fieldIndex(tt, "stringKind")]
	})
	sigOf := func(fr *frame, arguments []value) string {
		at := e.namedType(abiPkg, "Argument")
		tt := e.namedType(abiPkg, "Type")
		var parts []string
		for _, a := range arguments {
			ty := a.(structure)[fieldIndex(at, "Type")].(structure)
			sk, _ := ty[fieldIndex(tt, "stringKind")].(string)
			parts = append(parts, sk)
		}
		return strings.Join(parts, ",")
	}
	e.reg(abiPkg+".NewMethod", func(fr *frame, args []value) value {
		mt := e.namedType(abiPkg, "Method")
		s := zero(mt).(structure)
		name, _ := args[0].(string)
		raw, _ := args[1].(string)
		inputs, _ := args[6].([]value)
		outputs, _ := args[7].([]value)
		s[fieldIndex(mt, "Name")] = name
		s[fieldIndex(mt, "RawName")] = raw
		s[fieldIndex(mt, "Type")] = args[2]
		s[fieldIndex(mt, "StateMutability")] = args[3]
		s[fieldIndex(mt, "Constant")] = args[4]
		s[fieldIndex(mt, "Payable")] = args[5]
		s[fieldIndex(mt, "Inputs")] = inputs
		s[fieldIndex(mt, "Outputs")] = outputs
		sig := raw + "(" + sigOf(fr, inputs) + ")"
		s[fieldIndex(mt, "Sig")] = sig
		s[fieldIndex(mt, "ID")] = bytesToCells(keccak256([]byte(sig))[:4])
		return s
	})
	pack := func(fr *frame, sig string, vals []value) value {
		memo := map[*value]*value{}
		snap := make(structure, 0, len(vals)+1)
		snap = append(snap, sig)
		for _, v := range vals {
			snap = append(snap, deepCopy(v, memo))
		}
		return []value{blobByte{kind: "abi", v: snap}}
	}
	e.reg("("+abiPkg+".Arguments).Pack", func(fr *frame, args []value) value {
		arguments, _ := args[0].([]value)
		vals, _ := args[1].([]value)
		if len(vals) != len(arguments) {
			return tuple{[]value(nil), errValue(fr, "argument count mismatch: got %d for %d", len(vals), len(arguments))}
		}
		return tuple{pack(fr, sigOf(fr, arguments), vals), nilErr()}
	})
	e.reg("("+abiPkg+".Arguments).PackValues", func(fr *frame, args []value) value {
		arguments, _ := args[0].([]value)
		vals, _ := args[1].([]value)
		if len(vals) != len(arguments) {
			return tuple{[]value(nil), errValue(fr, "argument count mismatch: got %d for %d", len(vals), len(arguments))}
		}
		return tuple{pack(fr, sigOf(fr, arguments), vals), nilErr()}
	})
}
