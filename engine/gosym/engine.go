package main

import (
	"fmt"
	"go/types"
	"os"
	"path/filepath"
	"strings"
	"sync"
	"time"

	"golang.org/x/tools/go/packages"
	"golang.org/x/tools/go/ssa"
	"golang.org/x/tools/go/ssa/ssautil"
)

type intrinsic func(fr *frame, args []value) value

type Engine struct {
	prog  *ssa.Program
	pkgs  []*packages.Package
	spkgs map[string]*ssa.Package

	intrinsics      map[string]intrinsic
	intrinsicPrefix []prefixIntr
	globalOverrides map[string]func(p *Path, pkg *ssa.Package)
	intrCache       sync.Map

	runtimeErrorString types.Type
	protoName          map[string]string
	protoType          map[string]types.Type

	maxSteps      int
	maxDecisions  int
	maxConcretize int
	unwind        int
	trace         bool
	traceInstr    bool
	verbose       bool

	solverKind string
	tier       string
	fixedModel map[string]string
	timeoutMs  int

	loadTime time.Duration
	tmpl     *Path
	tmplMu   sync.Mutex
	repo     string
}

type prefixIntr struct {
	prefix string
	f      func(fn *ssa.Function) intrinsic
}

const modPath = "github.com/palomachain/paloma/v2"

// overlayFor builds the go/packages overlay: harness files are added to /repo
// packages (never replacing a file), plus the virtual zzverif packages.
func overlayFor(repo string, harnessDirs []string, verifRoot string) (map[string][]byte, error) {
	ov := map[string][]byte{}
	add := func(dst, src string) error {
		b, err := os.ReadFile(src)
		if err != nil {
			return err
		}
		if _, err := os.Stat(dst); err == nil {
			return fmt.Errorf("overlay would replace existing file %s", dst)
		}
		ov[dst] = b
		return nil
	}
	// virtual packages
	for _, vp := range []string{"sym", "models"} {
		dir := filepath.Join(verifRoot, "harness", "zzverif", vp)
		ents, err := os.ReadDir(dir)
		if err != nil {
			continue
		}
		for _, e := range ents {
			name := e.Name()
			if !strings.HasSuffix(name, ".go") || strings.HasSuffix(name, "_native.go") || strings.HasSuffix(name, "_test.go") {
				continue
			}
			if err := add(filepath.Join(repo, "zzverif", vp, name), filepath.Join(dir, name)); err != nil {
				return nil, err
			}
		}
	}
	// harness dirs: /verif/harness/<id>/<pkg path with __>/file.go → /repo/<pkg path>/file.go
	for _, hd := range harnessDirs {
		err := filepath.Walk(hd, func(path string, info os.FileInfo, err error) error {
			if err != nil || info.IsDir() {
				return err
			}
			if !strings.HasSuffix(path, ".go") || strings.HasSuffix(path, "_native_test.go") {
				return nil
			}
			rel, _ := filepath.Rel(hd, path)
			return add(filepath.Join(repo, rel), path)
		})
		if err != nil {
			return nil, err
		}
	}
	return ov, nil
}

func LoadEngine(repo string, patterns []string, overlay map[string][]byte) (*Engine, error) {
	start := time.Now()
	cfg := &packages.Config{
		Mode:    packages.LoadAllSyntax,
		Dir:     repo,
		Overlay: overlay,
		Env:     append(os.Environ(), "GOFLAGS=-mod=mod", "GOPROXY=off", "GOSUMDB=off", "GOTOOLCHAIN=local"),
		Tests:   false,
	}
	// never let `go list` tidy the go.mod of the tree under test (harness imports can
	// turn an indirect requirement into a direct one): work on a private copy
	if md, err := os.MkdirTemp("", "gosym-mod-*"); err == nil {
		defer os.RemoveAll(md)
		if mf := privateModfile(repo, md); mf != "" {
			cfg.BuildFlags = append(cfg.BuildFlags, "-modfile="+mf)
		}
	}
	pkgs, err := packages.Load(cfg, patterns...)
	if err != nil {
		return nil, err
	}
	nerr := 0
	packages.Visit(pkgs, nil, func(p *packages.Package) {
		for _, e := range p.Errors {
			if nerr < 20 {
				fmt.Fprintf(os.Stderr, "load error: %s: %v\n", p.PkgPath, e)
			}
			nerr++
		}
	})
	if nerr > 0 {
		return nil, fmt.Errorf("%d package load errors (harness does not compile against /repo?)", nerr)
	}
	prog, _ := ssautil.AllPackages(pkgs, ssa.InstantiateGenerics)
	prog.Build()
	e := &Engine{
		prog: prog, pkgs: pkgs, spkgs: map[string]*ssa.Package{},
		intrinsics: map[string]intrinsic{}, globalOverrides: map[string]func(*Path, *ssa.Package){},
		maxSteps: 50_000_000, maxDecisions: 5000, maxConcretize: 64, unwind: 64,
		solverKind: "z3", timeoutMs: 10000, tier: "quick", repo: repo,
	}
	for _, sp := range prog.AllPackages() {
		e.spkgs[sp.Pkg.Path()] = sp
	}
	rt := e.spkgs["runtime"]
	if rt == nil {
		return nil, fmt.Errorf("runtime package not in program")
	}
	e.runtimeErrorString = rt.Type("errorString").Object().Type()
	registerIntrinsics(e)
	e.loadTime = time.Since(start)
	return e, nil
}

func (e *Engine) pkg(path string) *ssa.Package { return e.spkgs[path] }

func (e *Engine) namedType(pkg, name string) types.Type {
	sp := e.spkgs[pkg]
	if sp == nil {
		panic("package not loaded: " + pkg)
	}
	m := sp.Type(name)
	if m == nil {
		panic("type not found: " + pkg + "." + name)
	}
	return m.Type()
}

// intrinsicFor resolves the engine implementation of fn, if any.
func (e *Engine) intrinsicFor(fn *ssa.Function) intrinsic {
	if v, ok := e.intrCache.Load(fn); ok {
		in, _ := v.(intrinsic)
		return in
	}
	in := e.resolveIntrinsic(fn)
	if in == nil {
		e.intrCache.Store(fn, nil)
	} else {
		e.intrCache.Store(fn, in)
	}
	return in
}

func (e *Engine) resolveIntrinsic(fn *ssa.Function) intrinsic {
	name := fn.String()
	if in, ok := e.intrinsics[name]; ok {
		return in
	}
	if o := fn.Origin(); o != nil {
		if in, ok := e.intrinsics[o.String()]; ok {
			return in
		}
	}
	for _, pi := range e.intrinsicPrefix {
		if strings.HasPrefix(name, pi.prefix) {
			if in := pi.f(fn); in != nil {
				return in
			}
		}
	}
	return nil
}

func (e *Engine) skipInInit(f *ssa.Function) bool {
	name := f.String()
	for _, pre := range initSkipPrefixes {
		if strings.HasPrefix(name, pre) {
			return true
		}
	}
	return false
}

var initSkipPrefixes = []string{
	"github.com/cosmos/gogoproto/proto.Register",
	"github.com/cosmos/gogoproto/proto.GoGoProtoPackageIsVersion",
	"github.com/golang/protobuf/proto.Register",
	"google.golang.org/protobuf/",
	"github.com/cosmos/cosmos-sdk/types/msgservice.",
	"(*github.com/cosmos/cosmos-sdk/codec.LegacyAmino).",
	"github.com/cosmos/cosmos-sdk/codec/legacy.",
	"(*github.com/cosmos/cosmos-sdk/codec/types.interfaceRegistry).",
	"github.com/cosmos/cosmos-sdk/crypto/codec.",
	"github.com/cosmos/cosmos-sdk/codec.NewLegacyAmino",
	"(*github.com/cosmos/cosmos-sdk/codec.LegacyAmino).Seal",
	"github.com/cosmos/cosmos-sdk/codec/types.NewInterfaceRegistry",
	"github.com/cosmos/cosmos-sdk/codec.NewProtoCodec",
	"github.com/cosmos/cosmos-sdk/codec.NewAminoCodec",
	"github.com/cosmos/cosmos-sdk/x/authz/codec.",
	"github.com/cosmos/cosmos-sdk/x/gov/codec.",
	"github.com/cosmos/cosmos-sdk/x/group/codec.",
}
