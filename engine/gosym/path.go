package main

import (
	"fmt"
	"go/types"
	"math/big"
	"os"
	"sort"
	"strings"

	"golang.org/x/tools/go/ssa"
)

type decision struct {
	Kind   byte   // 'b' branch, 'c' concretize
	B      bool   // branch taken / value chosen
	V      string // concretize: value
	Forced bool   // other side infeasible: nothing to assert
}

func (d decision) String() string {
	f := ""
	if d.Forced {
		f = "!"
	}
	if d.Kind == 'b' {
		if d.B {
			return "T" + f
		}
		return "F" + f
	}
	if d.B {
		return "=" + d.V + f
	}
	return "≠" + d.V
}

type assertResult struct {
	Label   string
	Status  string // discharged | violated | unknown
	Model   map[string]string
	Trace   []string
	Pos     string
	Detail  string
	PathLen int
}

type Path struct {
	eng *Engine
	sol *Solver

	prefix    []decision
	pos       int
	decisions []decision
	alts      [][]decision

	globals map[*ssa.Global]*value
	inited  map[*ssa.Package]bool

	inputs    []*Term // declared symbolic inputs, in order
	inputSeen map[string]int
	floatVars int
	exactFloat bool
	usedStrings bool

	steps   int
	depth   int
	unwind  map[ssa.Instruction]int
	nBranch int

	asserts []assertResult
	reached map[string]map[string]string // label -> model
	notes   []string
	mapPerm bool
	conform *conformSample
	labels  []string // ordered assertion / reachability labels met on this path
	unwindLimit int

	funcs map[*ssa.Function]bool // executed from SSA
	intr  map[string]int         // intrinsics used

	hostState map[string]interface{} // per-path state for intrinsics
	isTemplate bool
	memo       *copyMemo
}

func newPath(eng *Engine, sol *Solver, prefix []decision) *Path {
	return &Path{
		eng: eng, sol: sol, prefix: prefix,
		globals: map[*ssa.Global]*value{}, inited: map[*ssa.Package]bool{},
		inputSeen: map[string]int{}, unwind: map[ssa.Instruction]int{},
		reached: map[string]map[string]string{},
		funcs:   map[*ssa.Function]bool{}, intr: map[string]int{},
		hostState: map[string]interface{}{},
		unwindLimit: eng.unwind,
	}
}

func (p *Path) noteFunc(fn *ssa.Function, intrinsic bool) {
	if intrinsic {
		p.intr[fn.String()]++
	} else {
		p.funcs[fn] = true
	}
}

func (p *Path) note(format string, args ...interface{}) {
	p.notes = append(p.notes, fmt.Sprintf(format, args...))
}

// assume adds a constraint without checking feasibility.
func (p *Path) assume(t *Term) {
	if t.isConst() {
		if !t.bval {
			abort("infeasible", "assumption false")
		}
		return
	}
	p.sol.Assert(t)
}

// newInput declares a fresh symbolic input variable.
func (p *Path) newInput(name string, sort Sort, lo, hi *big.Int) *Term {
	n := p.inputSeen[name]
	p.inputSeen[name] = n + 1
	full := fmt.Sprintf("%s#%d", name, n)
	smtName := "|" + full + "|"
	if mv, ok := p.eng.fixedModel[full]; ok {
		// debugging aid: replay a model inside the engine
		switch sort {
		case SInt:
			v, _ := new(big.Int).SetString(mv, 10)
			return IntConst(v)
		case SBool:
			return BoolConst(mv == "true")
		case SStr:
			return StrConst(mv)
		}
	}
	var t *Term
	if sort == SInt {
		t = VarRange(smtName, lo, hi)
	} else {
		t = Var(smtName, sort)
	}
	p.inputs = append(p.inputs, t)
	p.sol.Declare(t)
	return t
}

// branch decides a (possibly symbolic) condition, forking when both sides are feasible.
func (p *Path) branch(fr *frame, cond value, site ssa.Instruction) bool {
	switch c := cond.(type) {
	case bool:
		return c
	case *Term:
		if c.isConst() {
			return c.bval
		}
		return p.decide(fr, c, site)
	}
	panic(fmt.Sprintf("branch on %T", cond))
}

func (p *Path) decide(fr *frame, c *Term, site ssa.Instruction) bool {
	p.nBranch++
	if site != nil {
		p.unwind[site]++
		if p.unwind[site] > p.unwindLimit {
			abort("unwind", "more than %d symbolic decisions at %s in %s", p.unwindLimit, p.eng.prog.Fset.Position(site.Pos()), fr.fn)
		}
	}
	if len(p.decisions) > p.eng.maxDecisions {
		abort("budget", "more than %d decisions on one path", p.eng.maxDecisions)
	}
	if p.pos < len(p.prefix) {
		d := p.prefix[p.pos]
		p.pos++
		if d.Kind != 'b' {
			abort("engine", "decision prefix out of sync (expected branch, got %v)", d)
		}
		if !d.Forced {
			if d.B {
				p.sol.Assert(c)
			} else {
				p.sol.Assert(Not(c))
			}
		}
		p.decisions = append(p.decisions, d)
		return d.B
	}
	rT := p.sol.Check(c)
	p.sol.Done()
	if rT == Unsat {
		p.decisions = append(p.decisions, decision{Kind: 'b', B: false, Forced: true})
		return false
	}
	rF := p.sol.Check(Not(c))
	p.sol.Done()
	if rF == Unsat {
		p.decisions = append(p.decisions, decision{Kind: 'b', B: true, Forced: true})
		return true
	}
	if rT == Unknown || rF == Unknown {
		p.note("feasibility unknown at %s", p.where(fr, site))
	}
	// both feasible: schedule the false side, continue with true
	alt := append(append([]decision{}, p.decisions...), decision{Kind: 'b', B: false})
	p.alts = append(p.alts, alt)
	p.decisions = append(p.decisions, decision{Kind: 'b', B: true})
	p.sol.Assert(c)
	return true
}

func (p *Path) where(fr *frame, site ssa.Instruction) string {
	if site != nil && site.Pos().IsValid() {
		return p.eng.prog.Fset.Position(site.Pos()).String()
	}
	if fr != nil {
		return fr.fn.String()
	}
	return "?"
}

// concretizeInt case-splits a symbolic integer over its feasible values.
func (p *Path) concretizeInt(fr *frame, v value, why string) int64 {
	switch v := v.(type) {
	case int64:
		return v
	case uint64:
		return int64(v)
	case spanByte:
		return p.concretizeTerm(fr, v.term(), why).Int64()
	case *Term:
		return p.concretizeTerm(fr, v, why).Int64()
	}
	panic(fmt.Sprintf("concretizeInt: %T", v))
}

func (p *Path) concretizeTerm(fr *frame, t *Term, why string) *big.Int {
	if t.isConst() {
		return t.ival
	}
	for n := 0; ; n++ {
		if n > p.eng.maxConcretize {
			abort("unwind", "more than %d values when concretizing %s in %s", p.eng.maxConcretize, why, fr.fn)
		}
		if p.pos < len(p.prefix) {
			d := p.prefix[p.pos]
			p.pos++
			if d.Kind != 'c' {
				abort("engine", "decision prefix out of sync (expected concretize, got %v)", d)
			}
			val, _ := new(big.Int).SetString(d.V, 10)
			p.decisions = append(p.decisions, d)
			eq := Eq(t, IntConst(val))
			if d.B {
				if !d.Forced {
					p.sol.Assert(eq)
				}
				return val
			}
			p.sol.Assert(Not(eq))
			continue
		}
		if r := p.sol.Check(nil); r != Sat {
			abort("infeasible", "path condition not satisfiable (%s) while concretizing %s", r, why)
		}
		val, ok := p.sol.EvalInt(t)
		if !ok {
			abort("engine", "cannot evaluate %s in model", t)
		}
		eq := Eq(t, IntConst(val))
		rAlt := p.sol.Check(Not(eq))
		p.sol.Done()
		d := decision{Kind: 'c', B: true, V: val.String(), Forced: rAlt == Unsat}
		if rAlt != Unsat {
			alt := append(append([]decision{}, p.decisions...), decision{Kind: 'c', B: false, V: val.String()})
			p.alts = append(p.alts, alt)
			p.sol.Assert(eq)
		}
		p.decisions = append(p.decisions, d)
		return val
	}
}

func (p *Path) indexCheck(fr *frame, idx value, n int) int {
	switch i := idx.(type) {
	case int64:
		if i < 0 || i >= int64(n) {
			rtPanic(fr, fmt.Sprintf("index out of range [%d] with length %d", i, n))
		}
		return int(i)
	case uint64:
		if i >= uint64(n) {
			rtPanic(fr, fmt.Sprintf("index out of range [%d] with length %d", i, n))
		}
		return int(i)
	}
	t, _ := toTerm(idx)
	in := And(Ge(t, IntConst64(0)), Lt(t, IntConst64(int64(n))))
	if !p.branch(fr, simp(in), nil) {
		rtPanic(fr, fmt.Sprintf("index out of range [symbolic] with length %d", n))
	}
	return int(p.concretizeTerm(fr, t, "index").Int64())
}

// choose returns a symbolic choice in [0,k) made concrete (internal nondeterminism).
func (p *Path) choose(fr *frame, k int, label string) int {
	if k <= 1 {
		return 0
	}
	t := p.newInput(label, SInt, big0, big.NewInt(int64(k-1)))
	return int(p.concretizeTerm(fr, t, label).Int64())
}

func (p *Path) mapOrder(fr *frame, m *gomap, es []mapEntry) []mapEntry {
	if !p.mapPerm || len(es) < 2 {
		return es
	}
	p.note("map order chosen (%d entries) in %s", len(es), fr.fn)
	out := make([]mapEntry, 0, len(es))
	rest := append([]mapEntry{}, es...)
	for len(rest) > 0 {
		i := p.choose(fr, len(rest), "maporder")
		out = append(out, rest[i])
		rest = append(rest[:i], rest[i+1:]...)
	}
	return out
}

// ---- globals and package initialisation ---------------------------------------------

func (p *Path) globalAddr(g *ssa.Global) *value {
	if c, ok := p.globals[g]; ok {
		return c
	}
	if p.isTemplate {
		p.initPkg(g.Pkg)
	} else {
		p.cloneFromTemplate(g.Pkg)
	}
	if c, ok := p.globals[g]; ok {
		return c
	}
	cell := zero(derefType(g.Type()))
	p.globals[g] = &cell
	return &cell
}

// cloneFromTemplate copies the initialised globals of pkg from the engine's
// template path (package initialisers run once per engine, not once per path).
func (p *Path) cloneFromTemplate(pkg *ssa.Package) {
	if pkg == nil || p.inited[pkg] {
		return
	}
	p.inited[pkg] = true
	e := p.eng
	e.tmplMu.Lock()
	defer e.tmplMu.Unlock()
	if e.tmpl == nil {
		e.tmpl = newPath(e, nil, nil)
		e.tmpl.isTemplate = true
	}
	func() {
		defer func() {
			if r := recover(); r != nil {
				e.tmpl.note("template init of %s failed: %v", pkg.Pkg.Path(), firstLine(fmt.Sprint(r)))
			}
		}()
		e.tmpl.initPkg(pkg)
	}()
	if p.memo == nil {
		p.memo = newCopyMemo()
	}
	for _, m := range pkg.Members {
		if g, ok := m.(*ssa.Global); ok {
			if tc, ok := e.tmpl.globals[g]; ok {
				p.globals[g] = deepCopyM(tc, p.memo).(*value)
			}
		}
	}
	for n, c := range e.tmpl.notes {
		_ = n
		p.notes = append(p.notes, c)
	}
	e.tmpl.notes = nil
}

var noInitPkgs = map[string]bool{
	"github.com/cosmos/gogoproto/proto": true, "github.com/golang/protobuf/proto": true,
	"github.com/cosmos/gogoproto/jsonpb": true, "github.com/cosmos/gogoproto/types": true,
	"runtime": true, "os": true, "syscall": true, "reflect": true, "internal/reflectlite": true,
	"sync": true, "sync/atomic": true, "unsafe": true, "internal/poll": true, "net": true,
	"testing": true, "log": true, "internal/godebug": true, "time": true,
}

func (p *Path) initPkg(pkg *ssa.Package) {
	if pkg == nil || p.inited[pkg] {
		return
	}
	p.inited[pkg] = true
	for _, m := range pkg.Members {
		if g, ok := m.(*ssa.Global); ok {
			if _, ok := p.globals[g]; !ok {
				cell := zero(derefType(g.Type()))
				p.globals[g] = &cell
			}
		}
	}
	path := pkg.Pkg.Path()
	if noInitPkgs[path] {
		return
	}
	if pre := p.eng.globalOverrides[path]; pre != nil {
		pre(p, pkg)
	}
	init := pkg.Func("init")
	if init == nil || init.Blocks == nil {
		return
	}
	// run the initializer in tolerant mode
	fr := &frame{p: p, fn: init, initMode: true}
	fr.env = make(map[ssa.Value]value)
	fr.block = init.Blocks[0]
	fr.locals = make([]value, len(init.Locals))
	for i, l := range init.Locals {
		fr.locals[i] = zero(derefType(l.Type()))
		fr.env[l] = &fr.locals[i]
	}
	savedDepth := p.depth
	func() {
		defer func() {
			if r := recover(); r != nil {
				p.depth = savedDepth
				if pa, ok := r.(pathAbort); ok && (pa.kind == "infeasible" || pa.kind == "stop") {
					panic(r)
				}
				p.note("init of %s aborted: %v", path, firstLine(fmt.Sprint(r)))
				if p.eng.verbose {
					fmt.Fprintf(os.Stderr, "init of %s aborted: %v\n", path, r)
				}
			}
		}()
		for fr.block != nil {
			runFrame(fr)
		}
	}()
}

func firstLine(s string) string {
	if i := strings.IndexByte(s, '\n'); i >= 0 {
		return s[:i]
	}
	return s
}

// initCall runs a call made directly from a package initializer, tolerating
// unmodelled callees (their result becomes the zero value).
func initCall(fr *frame, instr *ssa.Call, fn value, args []value) (res value) {
	p := fr.p
	if f, ok := fn.(*ssa.Function); ok && f != nil {
		if f.Synthetic == "package initializer" {
			return nil // dependencies are initialised lazily, on first touch
		}
		if f.Name() == "init" && f.Pkg != nil && f.Pkg != fr.fn.Pkg {
			return nil
		}
		if p.eng.skipInInit(f) {
			return zeroOfCall(instr)
		}
	}
	savedDepth := p.depth
	savedSteps := p.steps
	defer func() {
		if r := recover(); r != nil {
			p.depth = savedDepth
			switch r := r.(type) {
			case pathAbort:
				if r.kind == "infeasible" || r.kind == "stop" {
					panic(r)
				}
				p.steps = savedSteps
				p.note("init %s: call %s skipped: %s", fr.fn.Pkg.Pkg.Path(), callName(fn), firstLine(r.msg))
				if p.eng.verbose {
					fmt.Fprintf(os.Stderr, "init %s: call %s skipped: %s\n", fr.fn.Pkg.Pkg.Path(), callName(fn), r.msg)
				}
				res = zeroOfCall(instr)
			case targetPanic:
				p.note("init %s: call %s panicked: %s", fr.fn.Pkg.Pkg.Path(), callName(fn), toString(r.v))
				if p.eng.verbose {
					fmt.Fprintf(os.Stderr, "init %s: call %s panicked: %s\n", fr.fn.Pkg.Pkg.Path(), callName(fn), toString(r.v))
				}
				res = zeroOfCall(instr)
			default:
				panic(r)
			}
		}
	}()
	return call(fr, instr.Pos(), fn, args)
}

func callName(fn value) string {
	switch f := fn.(type) {
	case *ssa.Function:
		return f.String()
	case *closure:
		return f.Fn.String()
	case *ssa.Builtin:
		return f.Name()
	}
	return fmt.Sprintf("%T", fn)
}

func zeroOfCall(instr *ssa.Call) value {
	res := instr.Call.Signature().Results()
	switch res.Len() {
	case 0:
		return nil
	case 1:
		return zero(res.At(0).Type())
	}
	t := make(tuple, res.Len())
	for i := range t {
		t[i] = zero(res.At(i).Type())
	}
	return t
}

// ---- assertions / reachability -----------------------------------------------------------

func (p *Path) model() map[string]string {
	m := p.sol.Model(p.inputs)
	out := map[string]string{}
	for k, v := range m {
		out[strings.Trim(k, "|")] = v
	}
	return out
}

func (p *Path) trace() []string {
	var out []string
	for _, d := range p.decisions {
		out = append(out, d.String())
	}
	return out
}

func (p *Path) doAssert(fr *frame, cond value, label string) {
	p.labels = append(p.labels, "A:"+label)
	pos := ""
	if fr != nil && fr.caller != nil {
		pos = p.eng.prog.Fset.Position(fr.callpos).String()
	}
	var c *Term
	switch cv := cond.(type) {
	case bool:
		c = BoolConst(cv)
	case *Term:
		c = cv
	}
	if os.Getenv("GOSYM_TRACEASSERT") != "" {
		fmt.Fprintf(os.Stderr, "[assert] %s cond=%s at %s decisions=%d\n", label, c, pos, len(p.decisions))
	}
	if c.isConst() && c.bval {
		p.asserts = append(p.asserts, assertResult{Label: label, Status: "discharged", Pos: pos, Detail: "concrete"})
		return
	}
	r := p.sol.Check(Not(c))
	switch r {
	case Unsat:
		p.asserts = append(p.asserts, assertResult{Label: label, Status: "discharged", Pos: pos})
	case Sat:
		m := p.model()
		p.sol.Done()
		p.asserts = append(p.asserts, assertResult{Label: label, Status: "violated", Model: m, Trace: p.trace(), Pos: pos, PathLen: len(p.decisions)})
		// continue exploring under the assumption that the assertion holds, if possible
		if c.isConst() {
			abort("stop", "assertion %s concretely false", label)
		}
		if p.sol.Check(c) != Sat {
			p.sol.Done()
			abort("stop", "assertion %s cannot hold on this path", label)
		}
		p.sol.Done()
		p.sol.Assert(c)
	default:
		p.sol.Done()
		p.asserts = append(p.asserts, assertResult{Label: label, Status: "unknown", Pos: pos})
	}
}

func (p *Path) doReach(label string) {
	p.labels = append(p.labels, "R:"+label)
	if _, ok := p.reached[label]; ok {
		return
	}
	if p.sol.Check(nil) == Sat {
		p.reached[label] = p.model()
	}
}

func sortedFuncNames(m map[*ssa.Function]bool) []string {
	var out []string
	for f := range m {
		out = append(out, f.String())
	}
	sort.Strings(out)
	return out
}

var _ = types.Typ
