package main

import (
	"fmt"
	"math/big"
	"strings"
)

func registerIntrinsics(e *Engine) {
	registerSym(e)
	registerStd(e)
	registerBig(e)
	registerExtra(e)
}

func (e *Engine) reg(name string, f intrinsic) { e.intrinsics[name] = f }

func strArg(v value) string {
	switch v := v.(type) {
	case string:
		return v
	case *SymStr:
		return v.String()
	}
	return fmt.Sprint(v)
}

func registerSym(e *Engine) {
	for path := range e.spkgs {
		if !strings.HasSuffix(path, "zzverif/sym") {
			continue
		}
		pre := path + "."
		e.reg(pre+"Bool", func(fr *frame, args []value) value {
			return simp(fr.p.newInput(strArg(args[0]), SBool, nil, nil))
		})
		e.reg(pre+"Fault", func(fr *frame, args []value) value {
			return simp(fr.p.newInput("fault:"+strArg(args[0]), SBool, nil, nil))
		})
		e.reg(pre+"Str", func(fr *frame, args []value) value {
			t := fr.p.newInput(strArg(args[0]), SStr, nil, nil)
			fr.p.usedStrings = true
			return &SymStr{parts: []strPart{{kind: "s", t: t}}}
		})
		e.reg(pre+"Uint64", func(fr *frame, args []value) value {
			return fr.p.newInput(strArg(args[0]), SInt, big0, new(big.Int).Sub(pow2(64), big1))
		})
		e.reg(pre+"Int64", func(fr *frame, args []value) value {
			return fr.p.newInput(strArg(args[0]), SInt, new(big.Int).Neg(pow2(63)), new(big.Int).Sub(pow2(63), big1))
		})
		e.reg(pre+"Uint32", func(fr *frame, args []value) value {
			return fr.p.newInput(strArg(args[0]), SInt, big0, new(big.Int).Sub(pow2(32), big1))
		})
		e.reg(pre+"Byte", func(fr *frame, args []value) value {
			return fr.p.newInput(strArg(args[0]), SInt, big0, big.NewInt(255))
		})
		e.reg(pre+"IntRange", func(fr *frame, args []value) value {
			lo, hi := args[1].(int64), args[2].(int64)
			if lo == hi {
				// still consume a name so native replay stays aligned
				fr.p.newInput(strArg(args[0]), SInt, big.NewInt(lo), big.NewInt(hi))
				return lo
			}
			return fr.p.newInput(strArg(args[0]), SInt, big.NewInt(lo), big.NewInt(hi))
		})
		e.reg(pre+"Uint64Range", func(fr *frame, args []value) value {
			lo, hi := args[1].(uint64), args[2].(uint64)
			t := fr.p.newInput(strArg(args[0]), SInt, new(big.Int).SetUint64(lo), new(big.Int).SetUint64(hi))
			if lo == hi {
				return lo
			}
			return t
		})
		e.reg(pre+"Choice", func(fr *frame, args []value) value {
			k := args[1].(int64)
			t := fr.p.newInput(strArg(args[0]), SInt, big0, big.NewInt(k-1))
			if k <= 1 {
				return int64(0)
			}
			return fr.p.concretizeTerm(fr, t, "choice "+strArg(args[0])).Int64()
		})
		e.reg(pre+"BigInt", func(fr *frame, args []value) value {
			bits := args[1].(int64)
			t := fr.p.newInput(strArg(args[0]), SInt, big0, new(big.Int).Sub(pow2(uint(bits)), big1))
			var cell value = bigVal{t: t}
			return &cell
		})
		e.reg(pre+"BigIntSigned", func(fr *frame, args []value) value {
			bits := args[1].(int64)
			lim := new(big.Int).Sub(pow2(uint(bits)), big1)
			t := fr.p.newInput(strArg(args[0]), SInt, new(big.Int).Neg(lim), lim)
			var cell value = bigVal{t: t}
			return &cell
		})
		e.reg(pre+"Assume", func(fr *frame, args []value) value {
			switch c := args[0].(type) {
			case bool:
				if !c {
					abort("infeasible", "assume(false)")
				}
			case *Term:
				if c.isConst() {
					if !c.bval {
						abort("infeasible", "assume(false)")
					}
					return nil
				}
				r := fr.p.sol.Check(c)
				fr.p.sol.Done()
				if r == Unsat {
					abort("infeasible", "assumption infeasible")
				}
				fr.p.sol.Assert(c)
			}
			return nil
		})
		e.reg(pre+"Assert", func(fr *frame, args []value) value {
			fr.p.doAssert(fr, args[0], strArg(args[1]))
			return nil
		})
		e.reg(pre+"Reach", func(fr *frame, args []value) value {
			fr.p.doReach(strArg(args[0]))
			return nil
		})
		e.reg(pre+"Concretize", func(fr *frame, args []value) value {
			// Concretize(x int64) int64: case-split x
			return fr.p.concretizeInt(fr, args[0], "sym.Concretize")
		})
		e.reg(pre+"ConcretizeU", func(fr *frame, args []value) value {
			return uint64(fr.p.concretizeInt(fr, args[0], "sym.ConcretizeU"))
		})
		e.reg(pre+"Tier", func(fr *frame, args []value) value { return fr.p.eng.tier })
		e.reg(pre+"IsSymbolic", func(fr *frame, args []value) value { return true })
		e.reg(pre+"MapOrder", func(fr *frame, args []value) value {
			fr.p.mapPerm = args[0].(bool)
			return nil
		})
		e.reg(pre+"Setenv", func(fr *frame, args []value) value {
			fr.p.hostState["env"] = "symbolic"
			fr.p.hostState["env-explicit"] = true
			fr.p.hostState["env:"+strArg(args[0])] = [2]value{args[1], true}
			return nil
		})
		e.reg(pre+"Unsetenv", func(fr *frame, args []value) value {
			fr.p.hostState["env"] = "symbolic"
			fr.p.hostState["env-explicit"] = true
			fr.p.hostState["env:"+strArg(args[0])] = [2]value{"", false}
			return nil
		})
		e.reg(pre+"SetUnwind", func(fr *frame, args []value) value {
			fr.p.unwindLimit = int(args[0].(int64))
			return nil
		})
		e.reg(pre+"Note", func(fr *frame, args []value) value {
			fr.p.note("note: %s", strArg(args[0]))
			return nil
		})
		e.reg(pre+"Dump", func(fr *frame, args []value) value {
			fmt.Printf("[dump] %s = %s\n", strArg(args[0]), toString(args[1]))
			return nil
		})
		// Ite(c, a, b) for ints: avoids forking in harness oracles
		e.reg(pre+"IteU64", func(fr *frame, args []value) value { return iteAny(args[0], args[1], args[2]) })
		e.reg(pre+"IteI64", func(fr *frame, args []value) value { return iteAny(args[0], args[1], args[2]) })
		e.reg(pre+"And", func(fr *frame, args []value) value { return andValue(args[0], args[1]) })
		e.reg(pre+"Or", func(fr *frame, args []value) value { return orValue(args[0], args[1]) })
		e.reg(pre+"Not", func(fr *frame, args []value) value { return notValue(args[0]) })
		e.reg(pre+"Implies", func(fr *frame, args []value) value { return orValue(notValue(args[0]), args[1]) })
		e.reg(pre+"Iff", func(fr *frame, args []value) value {
			a, _ := toTerm(args[0])
			b, _ := toTerm(args[1])
			return simp(Eq(a, b))
		})
		// SymBytes(name, n): n fresh symbolic bytes
		e.reg(pre+"Bytes", func(fr *frame, args []value) value {
			n := int(args[1].(int64))
			out := make([]value, n)
			for i := range out {
				out[i] = fr.p.newInput(fmt.Sprintf("%s[%d]", strArg(args[0]), i), SInt, big0, big.NewInt(255))
			}
			return out
		})
	}
}

func iteAny(c, a, b value) value {
	switch c := c.(type) {
	case bool:
		if c {
			return a
		}
		return b
	case *Term:
		return iteValue(c, a, b)
	}
	panic("iteAny")
}
