package main

import (
	"fmt"
	"go/token"
	"os"
	"sort"
	"strings"
	"sync"
	"sync/atomic"
	"time"

	"golang.org/x/tools/go/ssa"
)

type assertAgg struct {
	Label      string
	Discharged int
	Violated   int
	Unknown    int
	Pos        string
	Samples    []assertResult // violated samples (bounded)
}

type Results struct {
	Entry        string
	Paths        int
	Completed    int
	Aborted      map[string]int
	AbortSamples map[string][]string
	Decisions    int
	Steps        int
	Asserts      map[string]*assertAgg
	Reached      map[string]map[string]string
	Funcs        map[string]bool
	Intrinsics   map[string]int
	Notes        map[string]int
	SamplePaths  []string
	Queries      int
	Sat, Unsat   int
	Unknown      int
	SolverErrors int
	SolverTime   time.Duration
	Wall         time.Duration
	Truncated    bool
	UsedStrings  bool
	Conform      []conformSample
}

// conformSample is one completed path with a concrete input following it; the
// native run of the harness on that input must meet the same labels in order.
type conformSample struct {
	Model  map[string]string
	Labels []string
}

type Explorer struct {
	eng      *Engine
	entry    *ssa.Function
	workers  int
	maxPaths int
	deadline time.Time
	mapPerm  bool
	exactFloat bool
	unwind   int
	conformK int
	nDone    int64

	mu     sync.Mutex
	cond   *sync.Cond
	queue  [][]decision
	active int
	res    *Results
}

func NewExplorer(eng *Engine, entry *ssa.Function) *Explorer {
	ex := &Explorer{eng: eng, entry: entry, workers: 16, maxPaths: 200000}
	ex.cond = sync.NewCond(&ex.mu)
	ex.res = &Results{
		Entry: entry.String(), Aborted: map[string]int{}, AbortSamples: map[string][]string{},
		Asserts: map[string]*assertAgg{}, Reached: map[string]map[string]string{},
		Funcs: map[string]bool{}, Intrinsics: map[string]int{}, Notes: map[string]int{},
	}
	return ex
}

func (ex *Explorer) Run() *Results {
	start := time.Now()
	ex.queue = [][]decision{nil}
	var wg sync.WaitGroup
	done := make(chan struct{})
	if os.Getenv("GOSYM_PROGRESS") != "" {
		go func() {
			t := time.NewTicker(10 * time.Second)
			defer t.Stop()
			for {
				select {
				case <-done:
					return
				case <-t.C:
					ex.mu.Lock()
					fmt.Fprintf(os.Stderr, "[progress] paths=%d completed=%d queue=%d active=%d aborted=%v\n", ex.res.Paths, ex.res.Completed, len(ex.queue), ex.active, ex.res.Aborted)
					ex.mu.Unlock()
				}
			}
		}()
	}
	defer close(done)
	for w := 0; w < ex.workers; w++ {
		wg.Add(1)
		go func() {
			defer wg.Done()
			sol, err := NewSolver(ex.eng.solverKind, ex.eng.timeoutMs)
			if err != nil {
				fmt.Fprintln(os.Stderr, "cannot start solver:", err)
				return
			}
			defer func() {
				ex.mu.Lock()
				ex.res.Queries += sol.queries
				ex.res.Sat += sol.nSat
				ex.res.Unsat += sol.nUnsat
				ex.res.Unknown += sol.nUnknown
				ex.res.SolverErrors += sol.nErrors
				ex.res.SolverTime += sol.solveT
				ex.mu.Unlock()
				sol.Close()
			}()
			for {
				ex.mu.Lock()
				for len(ex.queue) == 0 && ex.active > 0 {
					ex.cond.Wait()
				}
				if len(ex.queue) == 0 {
					ex.mu.Unlock()
					ex.cond.Broadcast()
					return
				}
				if ex.res.Paths >= ex.maxPaths || (!ex.deadline.IsZero() && time.Now().After(ex.deadline)) {
					ex.res.Truncated = true
					ex.queue = nil
					ex.mu.Unlock()
					ex.cond.Broadcast()
					return
				}
				prefix := ex.queue[len(ex.queue)-1]
				ex.queue = ex.queue[:len(ex.queue)-1]
				ex.active++
				ex.res.Paths++
				ex.mu.Unlock()

				p, status, msg := ex.runPath(sol, prefix)

				ex.mu.Lock()
				ex.active--
				ex.merge(p, status, msg)
				ex.mu.Unlock()
				ex.cond.Broadcast()
			}
		}()
	}
	wg.Wait()
	ex.res.Wall = time.Since(start)
	return ex.res
}

func (ex *Explorer) runPath(sol *Solver, prefix []decision) (p *Path, status, msg string) {
	sol.Reset()
	p = newPath(ex.eng, sol, prefix)
	p.mapPerm = ex.mapPerm
	p.exactFloat = ex.exactFloat
	if ex.unwind > 0 {
		p.unwindLimit = ex.unwind
	}
	status = "completed"
	defer func() {
		if r := recover(); r != nil {
			switch r := r.(type) {
			case pathAbort:
				status, msg = r.kind, r.msg
			case targetPanic:
				status = "completed"
				// a Go panic escaped the harness: candidate violation
				label := "uncaught-panic"
				detail := toString(r.v)
				if p.sol.Check(nil) == Sat {
					m := p.model()
					p.asserts = append(p.asserts, assertResult{Label: label, Status: "violated", Model: m, Trace: p.trace(), Detail: detail, PathLen: len(p.decisions)})
				} else {
					p.asserts = append(p.asserts, assertResult{Label: label, Status: "unknown", Detail: detail})
				}
			default:
				status, msg = "engine", fmt.Sprint(r)
			}
		}
	}()
	root := &frame{p: p, fn: ex.entry}
	callSSA(root, token.NoPos, ex.entry, nil, nil)
	if ex.conformK > 0 {
		n := atomic.AddInt64(&ex.nDone, 1)
		if isSampleOrdinal(n) {
			clean := true
			for _, a := range p.asserts {
				if a.Status != "discharged" {
					clean = false
				}
			}
			if clean && p.sol.Check(nil) == Sat {
				p.conform = &conformSample{Model: p.model(), Labels: append([]string(nil), p.labels...)}
			}
			p.sol.Done()
		}
	}
	return
}

// isSampleOrdinal spreads samples over the exploration order: 1,2,3,5,8,13,…
func isSampleOrdinal(n int64) bool {
	a, b := int64(1), int64(2)
	for a < n {
		a, b = b, a+b
	}
	return a == n
}

func (ex *Explorer) merge(p *Path, status, msg string) {
	r := ex.res
	// alternatives are valid regardless of how the path ended
	for i := len(p.alts) - 1; i >= 0; i-- {
		ex.queue = append(ex.queue, p.alts[i])
	}
	r.Decisions += len(p.decisions)
	r.Steps += p.steps
	if p.usedStrings {
		r.UsedStrings = true
	}
	switch status {
	case "completed", "stop":
		r.Completed++
	case "infeasible":
		r.Aborted["infeasible"]++
	default:
		r.Aborted[status]++
		dup := false
		for _, m := range r.AbortSamples[status] {
			if firstLine(m) == firstLine(msg) {
				dup = true
			}
		}
		if !dup && len(r.AbortSamples[status]) < 5 {
			r.AbortSamples[status] = append(r.AbortSamples[status], msg)
		}
	}
	for _, a := range p.asserts {
		agg := r.Asserts[a.Label]
		if agg == nil {
			agg = &assertAgg{Label: a.Label, Pos: a.Pos}
			r.Asserts[a.Label] = agg
		}
		switch a.Status {
		case "discharged":
			agg.Discharged++
		case "violated":
			agg.Violated++
			if len(agg.Samples) < 3 {
				agg.Samples = append(agg.Samples, a)
			}
		default:
			agg.Unknown++
		}
	}
	for l, m := range p.reached {
		if _, ok := r.Reached[l]; !ok {
			r.Reached[l] = m
		}
	}
	for f := range p.funcs {
		r.Funcs[f.String()] = true
	}
	for k, n := range p.intr {
		r.Intrinsics[k] += n
	}
	for _, n := range p.notes {
		r.Notes[n]++
	}
	if p.conform != nil && len(r.Conform) < ex.conformK {
		r.Conform = append(r.Conform, *p.conform)
	}
	if len(r.SamplePaths) < 5 && status == "completed" {
		r.SamplePaths = append(r.SamplePaths, strings.Join(p.trace(), ""))
	}
}

func (r *Results) Summary() string {
	var sb strings.Builder
	fmt.Fprintf(&sb, "entry %s: %d paths (%d completed", r.Entry, r.Paths, r.Completed)
	for _, k := range sortedKeys(r.Aborted) {
		fmt.Fprintf(&sb, ", %d %s", r.Aborted[k], k)
	}
	fmt.Fprintf(&sb, "), %d decisions, %d steps, %d queries (%d sat/%d unsat/%d unknown) solver %.1fs wall %.1fs\n",
		r.Decisions, r.Steps, r.Queries, r.Sat, r.Unsat, r.Unknown, r.SolverTime.Seconds(), r.Wall.Seconds())
	var labels []string
	for l := range r.Asserts {
		labels = append(labels, l)
	}
	sort.Strings(labels)
	for _, l := range labels {
		a := r.Asserts[l]
		fmt.Fprintf(&sb, "  assert %-40s discharged=%d violated=%d unknown=%d\n", l, a.Discharged, a.Violated, a.Unknown)
	}
	for _, l := range sortedKeys(r.Reached) {
		fmt.Fprintf(&sb, "  reach  %s\n", l)
	}
	for k, msgs := range r.AbortSamples {
		for _, m := range msgs {
			fmt.Fprintf(&sb, "  abort[%s] %s\n", k, m)
		}
	}
	return sb.String()
}
