package main

import (
	"crypto/md5"
	"crypto/sha256"
	"crypto/sha512"
	"go/types"
)

// streaming hash objects (md5.New / sha256.New): the digest struct is replaced
// by a host object accumulating the written cells.
type hostHash struct {
	name  string
	width int
	buf   []value
	real  func([]byte) []byte
}

func registerHashObjects(e *Engine) {
	mk := func(pkg, typ, name string, width int, real func([]byte) []byte) {
		e.reg(pkg+".New", func(fr *frame, args []value) value {
			t := e.namedType(pkg, typ)
			var cell value = &hostHash{name: name, width: width, real: real}
			return iface{t: types.NewPointer(t), v: &cell}
		})
		m := "(*" + pkg + "." + typ + ")."
		get := func(args []value) *hostHash { return (*args[0].(*value)).(*hostHash) }
		e.reg(m+"Write", func(fr *frame, args []value) value {
			h := get(args)
			h.buf = append(h.buf, args[1].([]value)...)
			return tuple{int64(len(args[1].([]value))), iface{}}
		})
		e.reg(m+"Sum", func(fr *frame, args []value) value {
			h := get(args)
			in, _ := args[1].([]value)
			return append(in, hashCells(fr, h.name, h.width, h.buf, h.real)...)
		})
		e.reg(m+"Reset", func(fr *frame, args []value) value {
			get(args).buf = nil
			return nil
		})
		e.reg(m+"Size", func(fr *frame, args []value) value { return int64(width) })
		e.reg(m+"BlockSize", func(fr *frame, args []value) value { return int64(64) })
	}
	mk("crypto/md5", "digest", "md5", 16, func(b []byte) []byte { s := md5.Sum(b); return s[:] })
	mk("crypto/sha256", "digest", "sha256", 32, func(b []byte) []byte { s := sha256.Sum256(b); return s[:] })
	e.reg("crypto/sha512.Sum512", func(fr *frame, args []value) value {
		return array(hashCells(fr, "sha512", 64, args[0].([]value), func(b []byte) []byte { s := sha512.Sum512(b); return s[:] }))
	})
	kecc := func(fr *frame, parts []value) []value {
		var all []value
		for _, p := range parts {
			all = append(all, p.([]value)...)
		}
		return hashCells(fr, "keccak256", 32, all, keccak256)
	}
	e.reg("github.com/ethereum/go-ethereum/crypto.Keccak256", func(fr *frame, args []value) value {
		return kecc(fr, args[0].([]value))
	})
	e.reg("github.com/ethereum/go-ethereum/crypto.Keccak256Hash", func(fr *frame, args []value) value {
		return array(kecc(fr, args[0].([]value)))
	})
}

func registerAtomic(e *Engine) {
	load := func(fr *frame, args []value) value {
		p := args[0].(*value)
		if p == nil {
			rtPanic(fr, "invalid memory address or nil pointer dereference")
		}
		return *p
	}
	storeF := func(fr *frame, args []value) value {
		p := args[0].(*value)
		if p == nil {
			rtPanic(fr, "invalid memory address or nil pointer dereference")
		}
		*p = args[1]
		return nil
	}
	for _, n := range []string{"Int32", "Int64", "Uint32", "Uint64", "Uintptr", "Pointer"} {
		e.reg("sync/atomic.Load"+n, load)
		e.reg("sync/atomic.Store"+n, storeF)
		n := n
		e.reg("sync/atomic.CompareAndSwap"+n, func(fr *frame, args []value) value {
			p := args[0].(*value)
			if *p == args[1] {
				*p = args[2]
				return true
			}
			return false
		})
		e.reg("sync/atomic.Swap"+n, func(fr *frame, args []value) value {
			p := args[0].(*value)
			old := *p
			*p = args[1]
			return old
		})
	}
	add := func(signed bool) intrinsic {
		return func(fr *frame, args []value) value {
			p := args[0].(*value)
			switch d := args[1].(type) {
			case int64:
				*p = (*p).(int64) + d
			case uint64:
				*p = (*p).(uint64) + d
			}
			return *p
		}
	}
	e.reg("sync/atomic.AddInt32", add(true))
	e.reg("sync/atomic.AddInt64", add(true))
	e.reg("sync/atomic.AddUint32", add(false))
	e.reg("sync/atomic.AddUint64", add(false))
}
