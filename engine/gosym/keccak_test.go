package main

import (
	"encoding/hex"
	"testing"
)

func TestKeccak(t *testing.T) {
	if got := hex.EncodeToString(keccak256(nil)); got != "c5d2460186f7233c927e7db2dcc703c0e500b653ca82273b7bfad8045d85a470" {
		t.Fatal(got)
	}
	if got := hex.EncodeToString(keccak256([]byte("abc"))); got != "4e03657aea45a94fc7d47ba826c8d667c0d1e6e33a64a036ec44f58fa12d6c45" {
		t.Fatal(got)
	}
	long := make([]byte, 300)
	for i := range long {
		long[i] = byte(i)
	}
	_ = keccak256(long)
}
