package main

import (
	"fmt"
	"strings"

	"golang.org/x/tools/go/ssa"
)

// ---- bech32 (BIP-173) -----------------------------------------------------------------

const bech32Charset = "qpzry9x8gf2tvdw0s3jn54khce6mua7l"

func bech32Polymod(values []int) int {
	gen := []int{0x3b6a57b2, 0x26508e6d, 0x1ea119fa, 0x3d4233dd, 0x2a1462b3}
	chk := 1
	for _, v := range values {
		b := chk >> 25
		chk = (chk&0x1ffffff)<<5 ^ v
		for i := 0; i < 5; i++ {
			if (b>>uint(i))&1 == 1 {
				chk ^= gen[i]
			}
		}
	}
	return chk
}

func bech32HrpExpand(hrp string) []int {
	var out []int
	for _, c := range hrp {
		out = append(out, int(c>>5))
	}
	out = append(out, 0)
	for _, c := range hrp {
		out = append(out, int(c&31))
	}
	return out
}

func convertBits(data []byte, from, to uint, pad bool) ([]byte, bool) {
	acc, bits := 0, uint(0)
	var out []byte
	maxv := (1 << to) - 1
	for _, v := range data {
		acc = (acc << from) | int(v)
		bits += from
		for bits >= to {
			bits -= to
			out = append(out, byte((acc>>bits)&maxv))
		}
	}
	if pad {
		if bits > 0 {
			out = append(out, byte((acc<<(to-bits))&maxv))
		}
	} else if bits >= from || ((acc<<(to-bits))&maxv) != 0 {
		return nil, false
	}
	return out, true
}

func bech32Encode(hrp string, data []byte) string {
	d5, _ := convertBits(data, 8, 5, true)
	values := append(bech32HrpExpand(hrp), bytesToInts(d5)...)
	pm := bech32Polymod(append(values, 0, 0, 0, 0, 0, 0)) ^ 1
	var sb strings.Builder
	sb.WriteString(hrp + "1")
	for _, b := range d5 {
		sb.WriteByte(bech32Charset[b])
	}
	for i := 0; i < 6; i++ {
		sb.WriteByte(bech32Charset[(pm>>uint(5*(5-i)))&31])
	}
	return sb.String()
}

func bytesToInts(b []byte) []int {
	out := make([]int, len(b))
	for i, x := range b {
		out[i] = int(x)
	}
	return out
}

func bech32Decode(s string) (string, []byte, error) {
	if len(s) < 8 {
		return "", nil, fmt.Errorf("decoding bech32 failed: invalid bech32 string length %d", len(s))
	}
	if strings.ToLower(s) != s && strings.ToUpper(s) != s {
		return "", nil, fmt.Errorf("decoding bech32 failed: string not all lowercase or all uppercase")
	}
	s = strings.ToLower(s)
	pos := strings.LastIndexByte(s, '1')
	if pos < 1 || pos+7 > len(s) {
		return "", nil, fmt.Errorf("decoding bech32 failed: invalid separator index %d", pos)
	}
	hrp := s[:pos]
	var data []int
	for _, c := range s[pos+1:] {
		i := strings.IndexRune(bech32Charset, c)
		if i < 0 {
			return "", nil, fmt.Errorf("decoding bech32 failed: invalid character not part of charset: %v", c)
		}
		data = append(data, i)
	}
	if bech32Polymod(append(bech32HrpExpand(hrp), data...)) != 1 {
		return "", nil, fmt.Errorf("decoding bech32 failed: invalid checksum")
	}
	d5 := make([]byte, len(data)-6)
	for i := range d5 {
		d5[i] = byte(data[i])
	}
	out, ok := convertBits(d5, 5, 8, false)
	if !ok {
		return "", nil, fmt.Errorf("decoding bech32 failed: invalid padding")
	}
	return hrp, out, nil
}

const (
	hrpAcc  = "paloma"
	hrpVal  = "palomavaloper"
	hrpCons = "palomavalcons"
)

func registerAddr(e *Engine) {
	sdkT := "github.com/cosmos/cosmos-sdk/types."
	str := func(hrp string) intrinsic {
		return func(fr *frame, args []value) value {
			cells, _ := args[0].([]value)
			if len(cells) == 0 {
				return ""
			}
			b, ok := concBytes(cells)
			if !ok {
				// symbolic address bytes: bech32 is injective, model as opaque encoding
				cp := make([]value, len(cells))
				copy(cp, cells)
				return &SymStr{parts: []strPart{{s: hrp + "1~"}, {kind: "b", cells: cp}}}
			}
			return bech32Encode(hrp, b)
		}
	}
	e.reg("("+sdkT+"AccAddress).String", str(hrpAcc))
	e.reg("("+sdkT+"ValAddress).String", str(hrpVal))
	e.reg("("+sdkT+"ConsAddress).String", str(hrpCons))
	from := func(hrp string) intrinsic {
		return func(fr *frame, args []value) value {
			switch s := args[0].(type) {
			case string:
				if len(strings.TrimSpace(s)) == 0 {
					return tuple{[]value(nil), errValue(fr, "empty address string is not allowed")}
				}
				h, b, err := bech32Decode(s)
				if err != nil {
					return tuple{[]value(nil), errValue(fr, "%s", err.Error())}
				}
				if h != hrp {
					return tuple{[]value(nil), errValue(fr, "invalid Bech32 prefix; expected %s, got %s", hrp, h)}
				}
				if len(b) == 0 || len(b) > 255 {
					return tuple{[]value(nil), errValue(fr, "invalid address length")}
				}
				return tuple{bytesToCells(b), nilErr()}
			case *SymStr:
				if len(s.parts) == 2 && s.parts[0].s == hrp+"1~" && s.parts[1].kind == "b" {
					cp := make([]value, len(s.parts[1].cells))
					copy(cp, s.parts[1].cells)
					return tuple{cp, nilErr()}
				}
				if len(s.parts) == 2 && strings.HasSuffix(s.parts[0].s, "1~") {
					return tuple{[]value(nil), errValue(fr, "invalid Bech32 prefix")}
				}
			}
			abort("unmodelled", "bech32 decode of symbolic string")
			return nil
		}
	}
	e.reg(sdkT+"AccAddressFromBech32", from(hrpAcc))
	e.reg(sdkT+"ValAddressFromBech32", from(hrpVal))
	e.reg(sdkT+"ConsAddressFromBech32", from(hrpCons))
	e.reg(sdkT+"MustAccAddressFromBech32", func(fr *frame, args []value) value {
		r := from(hrpAcc)(fr, args).(tuple)
		if r[1].(iface).t != nil {
			panic(targetPanic{r[1]})
		}
		return r[0]
	})
	e.reg(sdkT+"VerifyAddressFormat", func(fr *frame, args []value) value {
		cells, _ := args[0].([]value)
		if len(cells) == 0 {
			return errValue(fr, "addresses cannot be empty: unknown address")
		}
		if len(cells) > 255 {
			return errValue(fr, "address max length is 255")
		}
		return nilErr()
	})
	bc := "github.com/cosmos/cosmos-sdk/codec/address"
	if e.pkg(bc) != nil {
		bcT := e.namedType(bc, "Bech32Codec")
		var realS2B, realB2S *ssa.Function
		for _, name := range []string{"StringToBytes", "BytesToString"} {
			fn := e.prog.LookupMethod(bcT, e.pkg(bc).Pkg, name)
			if name == "StringToBytes" {
				realS2B = fn
			} else {
				realB2S = fn
			}
		}
		e.reg("("+bc+".Bech32Codec).StringToBytes", func(fr *frame, args []value) value {
			if ss, ok := args[1].(*SymStr); ok {
				prefix, _ := args[0].(structure)[0].(string)
				if len(ss.parts) == 2 && ss.parts[1].kind == "b" && strings.HasSuffix(ss.parts[0].s, "1~") {
					if ss.parts[0].s != prefix+"1~" {
						return tuple{[]value(nil), errValue(fr, "hrp does not match bech32 prefix: expected '%s' got '%s'", prefix, strings.TrimSuffix(ss.parts[0].s, "1~"))}
					}
					cp := make([]value, len(ss.parts[1].cells))
					copy(cp, ss.parts[1].cells)
					if len(cp) == 0 || len(cp) > 255 {
						return tuple{[]value(nil), errValue(fr, "invalid address length")}
					}
					return tuple{cp, nilErr()}
				}
				abort("unmodelled", "bech32 codec decode of symbolic string %s", ss)
			}
			return runBody(fr, realS2B, args)
		})
		e.reg("("+bc+".Bech32Codec).BytesToString", func(fr *frame, args []value) value {
			cells, _ := args[1].([]value)
			if _, ok := concBytes(cells); ok || len(cells) == 0 {
				return runBody(fr, realB2S, args)
			}
			prefix, _ := args[0].(structure)[0].(string)
			cp := make([]value, len(cells))
			copy(cp, cells)
			return tuple{&SymStr{parts: []strPart{{s: prefix + "1~"}, {kind: "b", cells: cp}}}, nilErr()}
		})
	}
	e.reg("github.com/cosmos/cosmos-sdk/types/bech32.ConvertAndEncode", func(fr *frame, args []value) value {
		hrp := args[0].(string)
		cells, _ := args[1].([]value)
		b, ok := concBytes(cells)
		if !ok {
			cp := make([]value, len(cells))
			copy(cp, cells)
			return tuple{&SymStr{parts: []strPart{{s: hrp + "1~"}, {kind: "b", cells: cp}}}, nilErr()}
		}
		return tuple{bech32Encode(hrp, b), nilErr()}
	})
	e.reg("github.com/cosmos/cosmos-sdk/types/bech32.DecodeAndConvert", func(fr *frame, args []value) value {
		switch s := args[0].(type) {
		case string:
			h, b, err := bech32Decode(s)
			if err != nil {
				return tuple{"", []value(nil), errValue(fr, "%s", err.Error())}
			}
			return tuple{h, bytesToCells(b), nilErr()}
		case *SymStr:
			if len(s.parts) == 2 && strings.HasSuffix(s.parts[0].s, "1~") && s.parts[1].kind == "b" {
				cp := make([]value, len(s.parts[1].cells))
				copy(cp, s.parts[1].cells)
				return tuple{strings.TrimSuffix(s.parts[0].s, "1~"), cp, nilErr()}
			}
		}
		abort("unmodelled", "bech32 decode of symbolic string")
		return nil
	})
}
