package main

// Value representation (KLEE-style mixed concrete/symbolic):
//
//   bool            | *Term (SBool)
//   int64 (signed)  | uint64 (unsigned, incl. uintptr) | *Term (SInt) | spanByte
//   float64         | *Term (SReal)
//   string          | *SymStr
//   *value          pointers (typed nil = (*value)(nil))
//   structure, array, []value (slices), *gomap, iface, tuple
//   *ssa.Function, *closure, *ssa.Builtin, *boundIntrinsic
//   opaque intrinsic objects: bigVal, ratVal, timeVal, ctxVal, ...

import (
	"fmt"
	"go/types"
	"math/big"
	"strings"

	"golang.org/x/tools/go/ssa"
)

type value interface{}

type tuple []value
type array []value
type structure []value

type iface struct {
	t types.Type
	v value
}

type closure struct {
	Fn  *ssa.Function
	Env []value
}

type bad struct{}

// spanByte is byte idx (0 = most significant) of the width-byte big-endian
// encoding of the non-negative integer t (t < 256^width).
type spanByte struct {
	t     *Term
	width int
	idx   int
}

func (b spanByte) term() *Term {
	sh := new(big.Int).Lsh(big1, uint(8*(b.width-1-b.idx)))
	q := EDiv(b.t, IntConst(sh))
	if b.idx == 0 {
		// top byte: no mod needed if t < 256^width
		r := q
		if r.hi == nil || r.hi.Cmp(big.NewInt(255)) > 0 {
			r = EMod(q, IntConst64(256))
		}
		return r
	}
	return EMod(q, IntConst64(256))
}

// blobByte is the single cell of an opaque marshalled blob.
type blobByte struct {
	kind string // "proto", "json", "hash", ...
	v    value  // snapshot of marshalled message (deep copy) or hash preimage description
	t    types.Type
	key  *Term // optional injective term for equality
}

// SymStr is a string with symbolic parts.
type SymStr struct {
	parts []strPart
}
type strPart struct {
	s     string // concrete part
	t     *Term  // symbolic int rendered in decimal (kind "d"), or SMT string term (kind "s")
	kind  string
	cells []value // kind "b": raw bytes (cells) converted to string
}

// ---- opaque intrinsic values -------------------------------------------------

type bigVal struct { // content of a math/big.Int object
	c *big.Int
	t *Term
}

func (b bigVal) term() *Term {
	if b.t != nil {
		return b.t
	}
	if b.c == nil {
		return IntConst64(0)
	}
	return IntConst(b.c)
}
func (b bigVal) isConc() bool { return b.t == nil }
func (b bigVal) conc() *big.Int {
	if b.c == nil {
		return new(big.Int)
	}
	return b.c
}

type ratVal struct {
	num, den bigVal
	unnorm   bool
}

// ctxVal is the engine-native sdk.Context (immutable value).
type ctxVal struct {
	c *ctxData
}

type timeVal struct {
	ns   value  // int64 | *Term: unix nanoseconds
	zero bool   // Go zero time (year 1)
	zone string // "" = UTC; otherwise the process-local zone (value of TZ) the time was created in
}

// ---- maps ------------------------------------------------------------------------

type mapEntry struct {
	k, v value
}

type gomap struct {
	keyType types.Type
	entries []mapEntry
	idx     map[string]int // canonical concrete key -> entries index
	nsym    int
}

// ---- helpers ---------------------------------------------------------------------

func isNamed(t types.Type, pkg, name string) bool {
	t = types.Unalias(t)
	n, ok := t.(*types.Named)
	if !ok {
		return false
	}
	o := n.Obj()
	return o.Name() == name && o.Pkg() != nil && o.Pkg().Path() == pkg
}

// opaqueKind reports whether values of (named) type t use an engine-native
// representation instead of the structural one.
func opaqueKind(t types.Type) string {
	n, ok := types.Unalias(t).(*types.Named)
	if !ok {
		return ""
	}
	o := n.Obj()
	if o.Pkg() == nil {
		return ""
	}
	switch o.Pkg().Path() {
	case "math/big":
		switch o.Name() {
		case "Int":
			return "big.Int"
		case "Rat":
			return "big.Rat"
		}
	case "time":
		if o.Name() == "Time" {
			return "time.Time"
		}
	case "reflect":
		if o.Name() == "Value" {
			return "reflect.Value"
		}
	case "sync":
		switch o.Name() {
		case "Mutex", "RWMutex", "Once", "WaitGroup":
			return "sync"
		}
	case "crypto/ecdsa":
		if o.Name() == "PublicKey" {
			return "ecdsa.PublicKey"
		}
	case "regexp":
		if o.Name() == "Regexp" {
			return "regexp"
		}
	}
	return ""
}

func zeroOpaque(kind string) value {
	switch kind {
	case "big.Int":
		return bigVal{}
	case "big.Rat":
		return ratVal{den: bigVal{c: big.NewInt(1)}}
	case "time.Time":
		return timeVal{zero: true, ns: int64(0)}
	case "sdk.Context":
		return ctxVal{}
	case "sync":
		return structure{}
	case "reflect.Value":
		return reflVal{}
	case "regexp":
		return hostRegexp{}
	case "ecdsa.PublicKey":
		return hostPubKey{}
	}
	panic("zeroOpaque " + kind)
}

func isSigned(b *types.Basic) bool {
	return b.Info()&types.IsInteger != 0 && b.Info()&types.IsUnsigned == 0
}

func intBits(b *types.Basic) uint {
	switch b.Kind() {
	case types.Int8, types.Uint8:
		return 8
	case types.Int16, types.Uint16:
		return 16
	case types.Int32, types.Uint32, types.UntypedRune:
		return 32
	}
	return 64
}

func zero(t types.Type) value {
	if k := opaqueKind(t); k != "" {
		return zeroOpaque(k)
	}
	switch t := t.(type) {
	case *types.Basic:
		if t.Kind() == types.UntypedNil {
			panic("untyped nil has no zero value")
		}
		info := t.Info()
		switch {
		case info&types.IsBoolean != 0:
			return false
		case info&types.IsInteger != 0:
			if info&types.IsUnsigned != 0 {
				return uint64(0)
			}
			return int64(0)
		case info&types.IsFloat != 0:
			return float64(0)
		case info&types.IsString != 0:
			return ""
		case info&types.IsComplex != 0:
			return complex128(0)
		case t.Kind() == types.UnsafePointer:
			return (*value)(nil)
		}
		panic(fmt.Sprint("zero for unexpected basic type: ", t))
	case *types.Pointer:
		return (*value)(nil)
	case *types.Array:
		a := make(array, t.Len())
		for i := range a {
			a[i] = zero(t.Elem())
		}
		return a
	case *types.Named:
		return zero(t.Underlying())
	case *types.Alias:
		return zero(types.Unalias(t))
	case *types.Interface:
		return iface{}
	case *types.Slice:
		return []value(nil)
	case *types.Struct:
		s := make(structure, t.NumFields())
		for i := range s {
			s[i] = zero(t.Field(i).Type())
		}
		return s
	case *types.Tuple:
		if t.Len() == 1 {
			return zero(t.At(0).Type())
		}
		s := make(tuple, t.Len())
		for i := range s {
			s[i] = zero(t.At(i).Type())
		}
		return s
	case *types.Chan:
		return (*chanVal)(nil)
	case *types.Map:
		return (*gomap)(nil)
	case *types.Signature:
		return (*ssa.Function)(nil)
	case *types.TypeParam:
		panic("zero of type parameter " + t.String())
	}
	panic(fmt.Sprint("zero: unexpected ", t))
}

type chanVal struct {
	buf []value
	cap int
}

// load returns a copy of the value of type T in *addr.
func load(T types.Type, addr *value) value {
	if opaqueKind(T) != "" {
		return *addr
	}
	switch T := T.Underlying().(type) {
	case *types.Struct:
		v := (*addr).(structure)
		a := make(structure, len(v))
		for i := range a {
			a[i] = load(T.Field(i).Type(), &v[i])
		}
		return a
	case *types.Array:
		v := (*addr).(array)
		a := make(array, len(v))
		for i := range a {
			a[i] = load(T.Elem(), &v[i])
		}
		return a
	default:
		return *addr
	}
}

// store stores value v of type T into *addr (copying aggregates in place so
// that pointers to fields stay valid).
func store(T types.Type, addr *value, v value) {
	if opaqueKind(T) != "" {
		*addr = v
		return
	}
	switch T := T.Underlying().(type) {
	case *types.Struct:
		lhs, ok := (*addr).(structure)
		rhs := v.(structure)
		if !ok || len(lhs) != len(rhs) {
			*addr = copyVal(T, v)
			return
		}
		for i := range lhs {
			store(T.Field(i).Type(), &lhs[i], rhs[i])
		}
	case *types.Array:
		lhs, ok := (*addr).(array)
		rhs := v.(array)
		if !ok || len(lhs) != len(rhs) {
			*addr = copyVal(T, v)
			return
		}
		for i := range lhs {
			store(T.Elem(), &lhs[i], rhs[i])
		}
	default:
		*addr = v
	}
}

func copyVal(T types.Type, v value) value {
	cell := v
	return load(T, &cell)
}

// copyDyn copies aggregates without type information (structures/arrays are
// the only by-value aggregates).
func copyDyn(v value) value {
	switch v := v.(type) {
	case structure:
		a := make(structure, len(v))
		for i := range v {
			a[i] = copyDyn(v[i])
		}
		return a
	case array:
		a := make(array, len(v))
		for i := range v {
			a[i] = copyDyn(v[i])
		}
		return a
	}
	return v
}

// ---- printing --------------------------------------------------------------------

func toString(v value) string {
	var b strings.Builder
	writeValue(&b, v, 0)
	return b.String()
}

func writeValue(buf *strings.Builder, v value, depth int) {
	if depth > 4 {
		buf.WriteString("…")
		return
	}
	switch v := v.(type) {
	case nil:
		buf.WriteString("<nil>")
	case bool, int64, uint64, float64, string:
		fmt.Fprintf(buf, "%v", v)
	case *Term:
		buf.WriteString(v.String())
	case spanByte:
		fmt.Fprintf(buf, "byte[%d/%d](%s)", v.idx, v.width, v.t)
	case *SymStr:
		buf.WriteString(v.String())
	case *gomap:
		buf.WriteString("map[")
		if v != nil {
			for i, e := range v.entries {
				if i > 0 {
					buf.WriteString(" ")
				}
				writeValue(buf, e.k, depth+1)
				buf.WriteString(":")
				writeValue(buf, e.v, depth+1)
			}
		}
		buf.WriteString("]")
	case *value:
		if v == nil {
			buf.WriteString("<nil>")
		} else {
			buf.WriteString("&")
			writeValue(buf, *v, depth+1)
		}
	case iface:
		if v.t == nil {
			buf.WriteString("nil")
			return
		}
		fmt.Fprintf(buf, "(%s, ", v.t)
		writeValue(buf, v.v, depth+1)
		buf.WriteString(")")
	case structure:
		buf.WriteString("{")
		for i, e := range v {
			if i > 0 {
				buf.WriteString(" ")
			}
			writeValue(buf, e, depth+1)
		}
		buf.WriteString("}")
	case array:
		buf.WriteString("[")
		for i, e := range v {
			if i > 0 {
				buf.WriteString(" ")
			}
			if i > 40 {
				buf.WriteString("…")
				break
			}
			writeValue(buf, e, depth+1)
		}
		buf.WriteString("]")
	case []value:
		buf.WriteString("[")
		for i, e := range v {
			if i > 0 {
				buf.WriteString(" ")
			}
			if i > 40 {
				buf.WriteString("…")
				break
			}
			writeValue(buf, e, depth+1)
		}
		buf.WriteString("]")
	case tuple:
		buf.WriteString("(")
		for i, e := range v {
			if i > 0 {
				buf.WriteString(", ")
			}
			writeValue(buf, e, depth+1)
		}
		buf.WriteString(")")
	case *ssa.Function:
		if v == nil {
			buf.WriteString("func(nil)")
		} else {
			buf.WriteString(v.String())
		}
	case *closure:
		buf.WriteString("closure " + v.Fn.String())
	case bigVal:
		if v.t != nil {
			buf.WriteString("big:" + v.t.String())
		} else {
			buf.WriteString("big:" + v.conc().String())
		}
	case blobByte:
		fmt.Fprintf(buf, "blob<%s>", v.kind)
	default:
		fmt.Fprintf(buf, "<%T>", v)
	}
}

func (s *SymStr) String() string {
	var b strings.Builder
	for _, p := range s.parts {
		switch p.kind {
		case "":
			b.WriteString(p.s)
		case "b":
			b.WriteString("<bytes>")
		default:
			b.WriteString("<" + p.t.String() + ">")
		}
	}
	return b.String()
}
