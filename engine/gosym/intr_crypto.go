package main

import (
	"encoding/hex"
	"fmt"
	"go/types"
	"math/big"
	"strings"
)

// secp256k1 signatures: ecrecover is an uninterpreted function of (digest,
// r, s, v) returning a 160-bit address; validity of a byte string as a
// signature is an uninterpreted predicate. models.SignDigest(i, d) returns a
// fresh signature constrained to recover to the fixed address of key i.
// Unforgeability is not modelled (out of scope of every property).

type hostPubKey struct {
	addr *Term // 160-bit address recovered
}

func sigTerms(fr *frame, digest, sig []value) (d, r, s, v *Term) {
	d = intOf(digest, 0, len(digest))
	r = intOf(sig, 0, 32)
	s = intOf(sig, 32, 32)
	vt, _ := toTerm(sig[64])
	return d, r, s, vt
}

func ethAddrInt(hexAddr string) *big.Int {
	b, _ := hex.DecodeString(strings.TrimPrefix(hexAddr, "0x"))
	return new(big.Int).SetBytes(b)
}

func registerCrypto(e *Engine) {
	var modelAddrs = []string{
		"0x708658D98346cAf7714aCad4CdCD6541bbA0C27F",
		"0x07A6b95457d3115346A512b7458D6C43dBB7B39B",
		"0x507f2C23277B725D3A63b52c958f55A500A3397A",
		"0x23A7289eC2E06c8AD1fFFBe88718644fF6CB94a0",
		"0xc9E69270D0CEDA79379eBF46432D19B26bCD4b12",
		"0x7999aa37a5F49A0dd8Bc557E46285EaB08877119",
	}
	recoverT := func(d, r, s, v *Term) *Term {
		t := App("ecrecover", SInt, d, r, s, v)
		return t
	}
	// unforgeable: a signature that was not produced by models.SignDigest (arbitrary
	// bytes) never recovers to one of the model keys. Signatures made by SignDigest
	// are recognised by their r component, a fresh variable named sig_r!n.
	unforgeable := func(fr *frame, d, r, s, v *Term) {
		rec := recoverT(d, r, s, v)
		if r.op == "var" && strings.HasPrefix(r.name, "sig_r!") {
			// a genuine signature: it says nothing about any other digest
			signed, _ := fr.p.hostState["sigdigest"].(map[string]*Term)
			if ds, ok := signed[r.name]; ok && ds != d {
				for _, a := range modelAddrs {
					fr.p.assume(Or(Eq(d, ds), Not(Eq(rec, IntConst(ethAddrInt(a))))))
				}
			}
			return
		}
		for _, a := range modelAddrs {
			fr.p.assume(Not(Eq(rec, IntConst(ethAddrInt(a)))))
		}
	}
	addrRange := func(fr *frame, t *Term) *Term {
		// constrain the UF result to 160 bits via a wrapper variable
		fr.p.floatVars++
		a := VarRange(fmt.Sprintf("recaddr!%d", fr.p.floatVars), big0, new(big.Int).Sub(pow2(160), big1))
		fr.p.assume(Eq(a, t))
		return a
	}
	for path := range e.spkgs {
		if !strings.HasSuffix(path, "zzverif/models") {
			continue
		}
		e.reg(path+".SignDigest", func(fr *frame, args []value) value {
			i := int(fr.p.concretizeInt(fr, args[0], "SignDigest index"))
			digest := args[1].([]value)
			p := fr.p
			p.floatVars++
			n := p.floatVars
			max256 := new(big.Int).Sub(pow2(256), big1)
			r := VarRange(fmt.Sprintf("sig_r!%d", n), big0, max256)
			s := VarRange(fmt.Sprintf("sig_s!%d", n), big0, max256)
			sig := append(beCells(r, 32), beCells(s, 32)...)
			sig = append(sig, uint64(0))
			d := intOf(digest, 0, len(digest))
			signed, _ := p.hostState["sigdigest"].(map[string]*Term)
			if signed == nil {
				signed = map[string]*Term{}
				p.hostState["sigdigest"] = signed
			}
			signed[r.name] = d
			p.assume(Eq(recoverT(d, r, s, IntConst64(0)), IntConst(ethAddrInt(modelAddrs[i]))))
			p.assume(App("validsig", SBool, d, r, s, IntConst64(0)))
			return sig
		})
	}
	cr := "github.com/ethereum/go-ethereum/crypto."
	e.reg(cr+"SigToPub", func(fr *frame, args []value) value {
		digest, sig := args[0].([]value), args[1].([]value)
		if len(sig) != 65 {
			return tuple{(*value)(nil), errValue(fr, "invalid signature length")}
		}
		d, r, s, v := sigTerms(fr, digest, sig)
		valid := App("validsig", SBool, d, r, s, v)
		inRange := simp(Le(v, IntConst64(3)))
		if !fr.p.branch(fr, inRange, nil) {
			return tuple{(*value)(nil), errValue(fr, "invalid signature recovery id")}
		}
		if !fr.p.branch(fr, valid, nil) {
			return tuple{(*value)(nil), errValue(fr, "recovery failed")}
		}
		unforgeable(fr, d, r, s, v)
		var cell value = hostPubKey{addr: addrRange(fr, recoverT(d, r, s, v))}
		return tuple{&cell, nilErr()}
	})
	e.reg(cr+"PubkeyToAddress", func(fr *frame, args []value) value {
		pk, ok := args[0].(hostPubKey)
		if !ok {
			abort("unmodelled", "PubkeyToAddress of a key not produced by SigToPub")
		}
		return array(beCells(pk.addr, 20))
	})
	// Ecrecover returns the raw public key; it is only ever passed on to
	// UnmarshalPubkey, so it is modelled as one opaque cell carrying the address
	e.reg(cr+"Ecrecover", func(fr *frame, args []value) value {
		digest, sig := args[0].([]value), args[1].([]value)
		if len(sig) != 65 {
			return tuple{[]value(nil), errValue(fr, "invalid signature length")}
		}
		d, r, s, v := sigTerms(fr, digest, sig)
		if !fr.p.branch(fr, simp(Le(v, IntConst64(3))), nil) {
			return tuple{[]value(nil), errValue(fr, "invalid signature recovery id")}
		}
		if !fr.p.branch(fr, App("validsig", SBool, d, r, s, v), nil) {
			return tuple{[]value(nil), errValue(fr, "recovery failed")}
		}
		unforgeable(fr, d, r, s, v)
		return tuple{[]value{blobByte{kind: "pubkey", key: addrRange(fr, recoverT(d, r, s, v))}}, nilErr()}
	})
	e.reg(cr+"UnmarshalPubkey", func(fr *frame, args []value) value {
		cells := args[0].([]value)
		if b, ok := hasBlob(cells); ok && b.kind == "pubkey" {
			var cell value = hostPubKey{addr: b.key}
			return tuple{&cell, nilErr()}
		}
		return tuple{(*value)(nil), errValue(fr, "invalid secp256k1 public key")}
	})
	_ = types.Typ
}

