package main

import (
	"fmt"
	"go/token"
	"go/types"
	"math/big"
	"os"
	"strconv"
	"unsafe"
	"runtime"
	"runtime/debug"
	"strings"

	"golang.org/x/tools/go/ssa"
)

type continuation int

const (
	kNext continuation = iota
	kReturn
	kJump
)

// targetPanic is a Go panic of the interpreted program.
type targetPanic struct {
	v value
}

// pathAbort ends the current symbolic path (not a Go panic of the target).
type pathAbort struct {
	kind     string // infeasible | unmodelled | unwind | budget | engine | stop
	msg      string
	hasStack bool
}

func abort(kind, format string, args ...interface{}) {
	panic(pathAbort{kind: kind, msg: fmt.Sprintf(format, args...)})
}

type deferred struct {
	fn    value
	args  []value
	instr *ssa.Defer
	tail  *deferred
}

type frame struct {
	p                *Path
	caller           *frame
	fn               *ssa.Function
	block, prevBlock *ssa.BasicBlock
	env              map[ssa.Value]value
	locals           []value
	defers           *deferred
	result           value
	panicking        bool
	panic            interface{}
	phitemps         []value
	initMode         bool
	callpos          token.Pos
}

func (fr *frame) get(key ssa.Value) value {
	switch key := key.(type) {
	case nil:
		return nil
	case *ssa.Function, *ssa.Builtin:
		return key
	case *ssa.Const:
		return constValue(key)
	case *ssa.Global:
		return fr.p.globalAddr(key)
	}
	if r, ok := fr.env[key]; ok {
		return r
	}
	panic(fmt.Sprintf("get: no value for %T: %v in %s", key, key.Name(), fr.fn))
}

func (fr *frame) stack() string {
	var sb strings.Builder
	n := 0
	for f := fr; f != nil && n < 40; f = f.caller {
		pos := ""
		if f.callpos != token.NoPos {
			pos = " (called at " + f.p.eng.prog.Fset.Position(f.callpos).String() + ")"
		}
		fmt.Fprintf(&sb, "    %s%s\n", f.fn.String(), pos)
		n++
	}
	return sb.String()
}

func (fr *frame) runDefer(d *deferred) {
	var ok bool
	defer func() {
		if !ok {
			r := recover()
			if pa, isAbort := r.(pathAbort); isAbort {
				panic(pa)
			}
			if _, isRT := r.(runtime.Error); isRT {
				panic(r)
			}
			fr.panicking = true
			fr.panic = r
		}
	}()
	call(fr, d.instr.Pos(), d.fn, d.args)
	ok = true
}

func (fr *frame) runDefers() {
	for d := fr.defers; d != nil; d = d.tail {
		fr.runDefer(d)
	}
	fr.defers = nil
	if fr.panicking {
		panic(fr.panic)
	}
}

func rtPanic(fr *frame, msg string) {
	panic(targetPanic{iface{fr.p.eng.runtimeErrorString, "runtime error: " + msg}})
}

func derefType(t types.Type) types.Type {
	if p, ok := t.Underlying().(*types.Pointer); ok {
		return p.Elem()
	}
	panic("derefType: not a pointer: " + t.String())
}

var profileEvery = func() int {
	n, _ := strconv.Atoi(os.Getenv("GOSYM_PROFILE"))
	return n
}()

func visitInstr(fr *frame, instr ssa.Instruction) continuation {
	p := fr.p
	p.steps++
	if profileEvery > 0 && p.steps%profileEvery == 0 {
		fmt.Fprintf(os.Stderr, "[profile] steps=%d\n%s", p.steps, fr.stack())
	}
	if p.steps > p.eng.maxSteps {
		abort("budget", "step budget exceeded (%d)", p.eng.maxSteps)
	}
	switch instr := instr.(type) {
	case *ssa.DebugRef:

	case *ssa.UnOp:
		fr.env[instr] = unop(fr, instr, fr.get(instr.X))

	case *ssa.BinOp:
		fr.env[instr] = binop(fr, instr.Op, instr.X.Type(), instr.Y.Type(), fr.get(instr.X), fr.get(instr.Y))

	case *ssa.Call:
		fn, args := prepareCall(fr, &instr.Call)
		if fr.initMode {
			fr.env[instr] = initCall(fr, instr, fn, args)
		} else {
			fr.env[instr] = call(fr, instr.Pos(), fn, args)
		}

	case *ssa.ChangeInterface:
		fr.env[instr] = fr.get(instr.X)

	case *ssa.ChangeType:
		fr.env[instr] = fr.get(instr.X)

	case *ssa.Convert:
		fr.env[instr] = conv(fr, instr.Type(), instr.X.Type(), fr.get(instr.X))

	case *ssa.MultiConvert:
		fr.env[instr] = conv(fr, instr.Type(), instr.X.Type(), fr.get(instr.X))

	case *ssa.SliceToArrayPointer:
		x := fr.get(instr.X).([]value)
		n := derefType(instr.Type()).Underlying().(*types.Array).Len()
		if int64(len(x)) < n {
			rtPanic(fr, "cannot convert slice to array pointer: length too short")
		}
		if x == nil {
			fr.env[instr] = (*value)(nil)
		} else {
			// aliasing is lost for the array header but elements alias through arrayView
			var v value = arrayView(x[:n])
			fr.env[instr] = &v
		}

	case *ssa.MakeInterface:
		fr.env[instr] = iface{t: instr.X.Type(), v: fr.get(instr.X)}

	case *ssa.Extract:
		fr.env[instr] = fr.get(instr.Tuple).(tuple)[instr.Index]

	case *ssa.Slice:
		fr.env[instr] = sliceOp(fr, instr, fr.get(instr.X), fr.get(instr.Low), fr.get(instr.High), fr.get(instr.Max))

	case *ssa.Return:
		switch len(instr.Results) {
		case 0:
		case 1:
			fr.result = fr.get(instr.Results[0])
		default:
			var res []value
			for _, r := range instr.Results {
				res = append(res, fr.get(r))
			}
			fr.result = tuple(res)
		}
		fr.block = nil
		return kReturn

	case *ssa.RunDefers:
		fr.runDefers()

	case *ssa.Panic:
		panic(targetPanic{fr.get(instr.X)})

	case *ssa.Store:
		addr := fr.get(instr.Addr).(*value)
		if addr == nil {
			rtPanic(fr, "invalid memory address or nil pointer dereference")
		}
		store(derefType(instr.Addr.Type()), addr, fr.get(instr.Val))

	case *ssa.If:
		succ := 1
		if p.branch(fr, fr.get(instr.Cond), instr) {
			succ = 0
		}
		fr.prevBlock, fr.block = fr.block, fr.block.Succs[succ]
		return kJump

	case *ssa.Jump:
		fr.prevBlock, fr.block = fr.block, fr.block.Succs[0]
		return kJump

	case *ssa.Defer:
		fn, args := prepareCall(fr, &instr.Call)
		defers := &fr.defers
		if instr.DeferStack != nil {
			if into := fr.get(instr.DeferStack); into != nil {
				defers = into.(**deferred)
			}
		}
		*defers = &deferred{fn: fn, args: args, instr: instr, tail: *defers}

	case *ssa.Go:
		abort("unmodelled", "go statement in %s", fr.fn)

	case *ssa.MakeChan:
		fr.env[instr] = &chanVal{cap: int(p.concretizeInt(fr, fr.get(instr.Size), "makechan"))}

	case *ssa.Send:
		ch := fr.get(instr.Chan).(*chanVal)
		if ch == nil || len(ch.buf) >= ch.cap {
			abort("unmodelled", "blocking channel send in %s", fr.fn)
		}
		ch.buf = append(ch.buf, fr.get(instr.X))

	case *ssa.Alloc:
		var addr *value
		if instr.Heap {
			addr = new(value)
			fr.env[instr] = addr
		} else {
			addr = fr.env[instr].(*value)
		}
		*addr = zero(derefType(instr.Type()))

	case *ssa.MakeSlice:
		n := p.concretizeInt(fr, fr.get(instr.Len), "makeslice len")
		c := p.concretizeInt(fr, fr.get(instr.Cap), "makeslice cap")
		if n < 0 || c < n {
			rtPanic(fr, "makeslice: len out of range")
		}
		if c > 1<<22 {
			abort("unmodelled", "makeslice of %d elements", c)
		}
		slice := make([]value, c)
		tElt := instr.Type().Underlying().(*types.Slice).Elem()
		for i := range slice {
			slice[i] = zero(tElt)
		}
		fr.env[instr] = slice[:n]

	case *ssa.MakeMap:
		fr.env[instr] = &gomap{keyType: instr.Type().Underlying().(*types.Map).Key(), idx: map[string]int{}}

	case *ssa.Range:
		fr.env[instr] = rangeIter(fr, fr.get(instr.X), instr.X.Type())

	case *ssa.Next:
		fr.env[instr] = fr.get(instr.Iter).(iter).next()

	case *ssa.FieldAddr:
		x := fr.get(instr.X).(*value)
		if x == nil {
			rtPanic(fr, "invalid memory address or nil pointer dereference")
		}
		s, ok := (*x).(structure)
		if !ok {
			abort("unmodelled", "field access into opaque value %T (%s) in %s", *x, derefType(instr.X.Type()), fr.fn)
		}
		fr.env[instr] = &s[instr.Field]

	case *ssa.Field:
		s, ok := fr.get(instr.X).(structure)
		if !ok {
			abort("unmodelled", "field access into opaque value (%s) in %s", instr.X.Type(), fr.fn)
		}
		fr.env[instr] = s[instr.Field]

	case *ssa.IndexAddr:
		x := fr.get(instr.X)
		switch x := x.(type) {
		case []value:
			i := p.indexCheck(fr, fr.get(instr.Index), len(x))
			fr.env[instr] = &x[i]
		case *value:
			if x == nil {
				rtPanic(fr, "invalid memory address or nil pointer dereference")
			}
			a := asArray(*x)
			i := p.indexCheck(fr, fr.get(instr.Index), len(a))
			fr.env[instr] = &a[i]
		default:
			panic(fmt.Sprintf("unexpected x type in IndexAddr: %T", x))
		}

	case *ssa.Index:
		x := fr.get(instr.X)
		switch x := x.(type) {
		case array:
			i := p.indexCheck(fr, fr.get(instr.Index), len(x))
			fr.env[instr] = x[i]
		case string:
			i := p.indexCheck(fr, fr.get(instr.Index), len(x))
			fr.env[instr] = uint64(x[i])
		case *SymStr:
			cells := x.toCells(fr)
			i := p.indexCheck(fr, fr.get(instr.Index), len(cells))
			fr.env[instr] = cells[i]
		default:
			panic(fmt.Sprintf("unexpected x type in Index: %T", x))
		}

	case *ssa.Lookup:
		fr.env[instr] = lookup(fr, instr, fr.get(instr.X), fr.get(instr.Index))

	case *ssa.MapUpdate:
		m := fr.get(instr.Map).(*gomap)
		if m == nil {
			panic(targetPanic{iface{p.eng.runtimeErrorString, "assignment to entry in nil map"}})
		}
		m.insert(fr, fr.get(instr.Key), fr.get(instr.Value))

	case *ssa.TypeAssert:
		fr.env[instr] = typeAssert(fr, instr, fr.get(instr.X).(iface))

	case *ssa.MakeClosure:
		var bindings []value
		for _, binding := range instr.Bindings {
			bindings = append(bindings, fr.get(binding))
		}
		fr.env[instr] = &closure{instr.Fn.(*ssa.Function), bindings}

	case *ssa.Phi:
		panic("unreachable phi")

	case *ssa.Select:
		abort("unmodelled", "select in %s", fr.fn)

	default:
		panic(fmt.Sprintf("unexpected instruction: %T", instr))
	}
	return kNext
}

// arrayView makes an array value that aliases slice cells.
func arrayView(x []value) array { return array(x) }

func asArray(v value) array {
	switch v := v.(type) {
	case array:
		return v
	}
	panic(fmt.Sprintf("asArray: %T", v))
}

func prepareCall(fr *frame, call *ssa.CallCommon) (fn value, args []value) {
	v := fr.get(call.Value)
	if call.Method == nil {
		fn = v
	} else {
		recv := v.(iface)
		if recv.t == nil {
			rtPanic(fr, "invalid memory address or nil pointer dereference (method "+call.Method.Name()+" invoked on nil interface)")
		}
		f := fr.p.eng.lookupMethod(recv.t, call.Method)
		if f == nil {
			panic(fmt.Sprintf("method set for dynamic type %v does not contain %s", recv.t, call.Method))
		}
		fn = f
		args = append(args, recv.v)
	}
	for _, arg := range call.Args {
		args = append(args, fr.get(arg))
	}
	return
}

func (e *Engine) lookupMethod(typ types.Type, meth *types.Func) *ssa.Function {
	return e.prog.LookupMethod(typ, meth.Pkg(), meth.Name())
}

func call(caller *frame, callpos token.Pos, fn value, args []value) value {
	switch fn := fn.(type) {
	case *ssa.Function:
		if fn == nil {
			rtPanic(caller, "invalid memory address or nil pointer dereference (call of nil func)")
		}
		return callSSA(caller, callpos, fn, args, nil)
	case *closure:
		return callSSA(caller, callpos, fn.Fn, args, fn.Env)
	case *ssa.Builtin:
		return callBuiltin(caller, callpos, fn, args)
	case *hostFunc:
		return fn.f(caller, args)
	}
	panic(fmt.Sprintf("cannot call %T", fn))
}

// hostFunc is a function value implemented by the engine.
type hostFunc struct {
	name string
	f    func(fr *frame, args []value) value
}

func callSSA(caller *frame, callpos token.Pos, fn *ssa.Function, args []value, env []value) value {
	p := caller.p
	fr := &frame{p: p, caller: caller, fn: fn, callpos: callpos}
	p.depth++
	defer func() { p.depth-- }()
	if p.depth > 400 {
		abort("budget", "call depth exceeded in %s", fn)
	}
	if in := p.eng.intrinsicFor(fn); in != nil {
		p.noteFunc(fn, true)
		return in(fr, args)
	}
	if fn.Blocks == nil {
		abort("unmodelled", "no code for function %s\n%s", fn, fr.stack())
	}
	if fn.TypeParams().Len() > 0 && len(fn.TypeArgs()) == 0 {
		abort("unmodelled", "uninstantiated generic %s", fn)
	}
	if p.eng.trace {
		fmt.Fprintf(os.Stderr, "%*s-> %s\n", p.depth, "", fn)
	}
	p.noteFunc(fn, false)
	fr.env = make(map[ssa.Value]value, 16)
	fr.block = fn.Blocks[0]
	fr.locals = make([]value, len(fn.Locals))
	for i, l := range fn.Locals {
		fr.locals[i] = zero(derefType(l.Type()))
		fr.env[l] = &fr.locals[i]
	}
	for i, prm := range fn.Params {
		fr.env[prm] = args[i]
	}
	for i, fv := range fn.FreeVars {
		fr.env[fv] = env[i]
	}
	for fr.block != nil {
		runFrame(fr)
	}
	return fr.result
}

func runFrame(fr *frame) {
	defer func() {
		if fr.block == nil {
			return
		}
		r := recover()
		switch r := r.(type) {
		case pathAbort:
			if !r.hasStack && r.kind != "infeasible" && r.kind != "stop" {
				r.msg += "\n" + fr.stack()
				r.hasStack = true
			}
			panic(r)
		case targetPanic:
		case runtime.Error:
			// a bug in the engine (or an unexpected value shape): not a target panic
			panic(pathAbort{kind: "engine", msg: fmt.Sprintf("engine error in %s: %v\n%s\n%s", fr.fn, r, fr.stack(), debug.Stack()), hasStack: true})
		default:
			panic(pathAbort{kind: "engine", msg: fmt.Sprintf("engine panic in %s: %v\n%s\n%s", fr.fn, r, fr.stack(), debug.Stack()), hasStack: true})
		}
		fr.panicking = true
		fr.panic = r
		fr.runDefers()
		fr.block = fr.fn.Recover
		if fr.block == nil {
			// recovered, no named results: return zero values
			fr.result = zeroResults(fr.fn)
		}
	}()
	for {
		nonPhis := executePhis(fr)
		for _, instr := range nonPhis {
			if fr.p.eng.traceInstr {
				if v, ok := instr.(ssa.Value); ok {
					fmt.Fprintln(os.Stderr, "\t", v.Name(), "=", instr)
				} else {
					fmt.Fprintln(os.Stderr, "\t", instr)
				}
			}
			if fr.initMode {
				if tolerantInstr(fr, instr) == kReturn {
					return
				}
				continue
			}
			if visitInstr(fr, instr) == kReturn {
				return
			}
		}
	}
}

// tolerantInstr executes one instruction of a package initializer; if it
// panics or is unmodelled its result becomes the zero value.
func tolerantInstr(fr *frame, instr ssa.Instruction) (k continuation) {
	defer func() {
		if r := recover(); r != nil {
			if pa, ok := r.(pathAbort); ok && (pa.kind == "infeasible" || pa.kind == "stop") {
				panic(r)
			}
			if v, ok := instr.(ssa.Value); ok {
				func() {
					defer func() { recover() }()
					fr.env[v] = zero(v.Type())
				}()
			}
			fr.p.note("init %s: instruction skipped: %s", fr.fn.Pkg.Pkg.Path(), firstLine(fmt.Sprint(r)))
			k = kNext
		}
	}()
	return visitInstr(fr, instr)
}

func zeroResults(fn *ssa.Function) value {
	res := fn.Signature.Results()
	switch res.Len() {
	case 0:
		return nil
	case 1:
		return zero(res.At(0).Type())
	}
	t := make(tuple, res.Len())
	for i := range t {
		t[i] = zero(res.At(i).Type())
	}
	return t
}

func executePhis(fr *frame) []ssa.Instruction {
	firstNonPhi := -1
	for i, instr := range fr.block.Instrs {
		if _, ok := instr.(*ssa.Phi); !ok {
			firstNonPhi = i
			break
		}
	}
	nonPhis := fr.block.Instrs[firstNonPhi:]
	if firstNonPhi > 0 {
		phis := fr.block.Instrs[:firstNonPhi]
		predIndex := -1
		for i, b := range fr.block.Preds {
			if b == fr.prevBlock {
				predIndex = i
				break
			}
		}
		fr.phitemps = fr.phitemps[:0]
		for _, phi := range phis {
			phi := phi.(*ssa.Phi)
			fr.phitemps = append(fr.phitemps, fr.get(phi.Edges[predIndex]))
		}
		for i, phi := range phis {
			fr.env[phi.(*ssa.Phi)] = fr.phitemps[i]
		}
	}
	return nonPhis
}

func doRecover(caller *frame) value {
	if caller != nil && !caller.panicking && caller.caller != nil && caller.caller.panicking {
		caller.caller.panicking = false
		p := caller.caller.panic
		caller.caller.panic = nil
		switch p := p.(type) {
		case targetPanic:
			return p.v
		default:
			panic(fmt.Sprintf("unexpected panic type %T in target call to recover()", p))
		}
	}
	return iface{}
}

func constValue(c *ssa.Const) value {
	if c.Value == nil {
		return zero(c.Type())
	}
	if t, ok := c.Type().Underlying().(*types.Basic); ok {
		info := t.Info()
		switch {
		case info&types.IsBoolean != 0:
			return constantBool(c)
		case info&types.IsInteger != 0:
			if info&types.IsUnsigned != 0 {
				return c.Uint64()
			}
			return c.Int64()
		case info&types.IsFloat != 0:
			return c.Float64()
		case info&types.IsString != 0:
			return constantString(c)
		case info&types.IsComplex != 0:
			return c.Complex128()
		}
	}
	panic(fmt.Sprintf("constValue: %s", c))
}

// ---- builtins ---------------------------------------------------------------------

func callBuiltin(caller *frame, callpos token.Pos, fn *ssa.Builtin, args []value) value {
	p := caller.p
	switch fn.Name() {
	case "append":
		if len(args) == 1 {
			return args[0]
		}
		switch s := args[1].(type) {
		case string:
			arg0 := args[0].([]value)
			for i := 0; i < len(s); i++ {
				arg0 = append(arg0, uint64(s[i]))
			}
			return arg0
		case *SymStr:
			return append(args[0].([]value), s.toCells(caller)...)
		}
		// copy aggregates element-wise so appended structs do not alias the source
		src := args[1].([]value)
		dst := args[0].([]value)
		for _, e := range src {
			dst = append(dst, copyDyn(e))
		}
		return dst

	case "copy":
		var src []value
		switch s := args[1].(type) {
		case string:
			src = stringCells(s)
		case *SymStr:
			src = s.toCells(caller)
		default:
			src = s.([]value)
		}
		dst := args[0].([]value)
		n := len(dst)
		if len(src) < n {
			n = len(src)
		}
		tmp := make([]value, n)
		for i := 0; i < n; i++ {
			tmp[i] = copyDyn(src[i])
		}
		copy(dst, tmp)
		return int64(n)

	case "close":
		return nil

	case "delete":
		m := args[0].(*gomap)
		if m != nil {
			m.delete(caller, args[1])
		}
		return nil

	case "print", "println":
		var parts []string
		for _, a := range args {
			parts = append(parts, toString(a))
		}
		fmt.Fprintln(os.Stderr, "[target print]", strings.Join(parts, " "))
		return nil

	case "len":
		switch x := args[0].(type) {
		case string:
			return int64(len(x))
		case *SymStr:
			return int64(x.length(caller))
		case array:
			return int64(len(x))
		case *value:
			if x == nil {
				// len of nil *array is the array length; need static type
				t := fn.Type().(*types.Signature).Params().At(0).Type()
				return derefType(t).Underlying().(*types.Array).Len()
			}
			return int64(len((*x).(array)))
		case []value:
			return int64(len(x))
		case *gomap:
			if x == nil {
				return int64(0)
			}
			return int64(len(x.entries))
		case *chanVal:
			if x == nil {
				return int64(0)
			}
			return int64(len(x.buf))
		}
		panic(fmt.Sprintf("len: illegal operand: %T", args[0]))

	case "cap":
		switch x := args[0].(type) {
		case array:
			return int64(len(x))
		case *value:
			return int64(len((*x).(array)))
		case []value:
			return int64(cap(x))
		case *chanVal:
			return int64(x.cap)
		}
		panic(fmt.Sprintf("cap: illegal operand: %T", args[0]))

	case "min", "max":
		t := fn.Type().(*types.Signature).Params().At(0).Type()
		res := args[0]
		for _, a := range args[1:] {
			op := token.LSS
			if fn.Name() == "max" {
				op = token.GTR
			}
			c := binop(caller, op, t, t, a, res)
			switch c := c.(type) {
			case bool:
				if c {
					res = a
				}
			case *Term:
				res = iteValue(c, a, res)
			}
		}
		return res

	case "clear":
		switch x := args[0].(type) {
		case *gomap:
			if x != nil {
				x.entries = nil
				x.idx = map[string]int{}
			}
		case []value:
			t := fn.Type().(*types.Signature).Params().At(0).Type().Underlying().(*types.Slice).Elem()
			for i := range x {
				x[i] = zero(t)
			}
		}
		return nil

	case "panic":
		panic(targetPanic{args[0]})

	case "recover":
		return doRecover(caller)

	case "ssa:wrapnilchk":
		recv := args[0]
		if recv.(*value) == nil {
			rtPanic(caller, fmt.Sprintf("value method (%s).%s called using nil pointer", toString(args[1]), toString(args[2])))
		}
		return recv

	case "ssa:deferstack":
		return &caller.defers

	case "String": // unsafe.String(&b[0], n): element pointers point into the cell array
		ptr, _ := args[0].(*value)
		n, ok := args[1].(int64)
		if !ok {
			abort("unmodelled", "unsafe.String with symbolic length")
		}
		if n == 0 || ptr == nil {
			return ""
		}
		return cellsToString(append([]value(nil), unsafe.Slice(ptr, int(n))...))

	case "Slice": // unsafe.Slice(ptr, n)
		ptr, _ := args[0].(*value)
		n, ok := args[1].(int64)
		if !ok {
			abort("unmodelled", "unsafe.Slice with symbolic length")
		}
		if n == 0 || ptr == nil {
			return []value(nil)
		}
		return unsafe.Slice(ptr, int(n))

	case "SliceData":
		xs, _ := args[0].([]value)
		if len(xs) == 0 {
			return (*value)(nil)
		}
		return &xs[0]
	}
	_ = p
	panic("unknown built-in: " + fn.Name())
}

func iteValue(c *Term, a, b value) value {
	ta, oka := toTerm(a)
	tb, okb := toTerm(b)
	if oka && okb {
		return Ite(c, ta, tb)
	}
	panic(fmt.Sprintf("iteValue: unsupported operands %T %T", a, b))
}

// toTerm converts a scalar value to a Term.
func toTerm(v value) (*Term, bool) {
	switch v := v.(type) {
	case *Term:
		return v, true
	case bool:
		return BoolConst(v), true
	case int64:
		return IntConst64(v), true
	case uint64:
		return IntConstU64(v), true
	case spanByte:
		return v.term(), true
	case float64:
		r := new(big.Rat)
		if r.SetFloat64(v) == nil {
			return nil, false
		}
		return RealConst(ratLit(r)), true
	}
	return nil, false
}

func ratLit(r *big.Rat) string {
	n, d := r.Num(), r.Denom()
	s := "(/ " + new(big.Int).Abs(n).String() + ".0 " + d.String() + ".0)"
	if n.Sign() < 0 {
		return "(- " + s + ")"
	}
	return s
}

func stringCells(s string) []value {
	out := make([]value, len(s))
	for i := 0; i < len(s); i++ {
		out[i] = uint64(s[i])
	}
	return out
}
