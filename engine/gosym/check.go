package main

import (
	"encoding/json"
	"flag"
	"fmt"
	"os"
	"os/exec"
	"path/filepath"
	"sort"
	"strings"
	"time"
)

type EntryCfg struct {
	Func       string   `json:"func"`        // <pkgpath>.<Func> (pkgpath relative to module allowed)
	Tiers      []string `json:"tiers"`       // empty = both
	TierAs     string   `json:"tier_as"`     // run this entry at this tier's bound whatever the check's tier (sibling-property entries)
	Reach      []string `json:"reach"`       // required reachability witnesses
	MaxPaths   int      `json:"max_paths"`   // 0 = default
	MapPerm    bool     `json:"map_perm"`    // explore map iteration orders
	ExactFloat bool     `json:"exact_float"` // no float rounding model (pure real arithmetic)
	Unwind     int      `json:"unwind"`
	Note       string   `json:"note"`
}

type CheckCfg struct {
	Property    string     `json:"property"`
	Harness     []string   `json:"harness"`  // dirs under /verif/harness
	Packages    []string   `json:"packages"` // patterns relative to /repo
	Entries     []EntryCfg `json:"entries"`
	Bounds      map[string]string `json:"bounds"` // tier -> text
	Stubs       []string   `json:"stubs"`
	Assumptions []string   `json:"assumptions"`
	Outside     []string   `json:"outside"`
	TimeoutMs   map[string]int `json:"timeout_ms"`
	BudgetS     map[string]int `json:"budget_s"`
}

type KnownFinding struct {
	Property string `json:"property"`
	Status   string `json:"status"` // known | fixed
	Entry    string `json:"entry"`
	Label    string `json:"label"`
	What     string `json:"what"`
	Commit   string `json:"commit,omitempty"`
}

func loadKnown(verif string) []KnownFinding {
	var doc struct {
		Findings []KnownFinding `json:"findings"`
	}
	b, err := os.ReadFile(filepath.Join(verif, "known_findings.json"))
	if err != nil {
		return nil
	}
	json.Unmarshal(b, &doc)
	return doc.Findings
}

func inTier(e EntryCfg, tier string) bool {
	if len(e.Tiers) == 0 {
		return true
	}
	for _, t := range e.Tiers {
		if t == tier {
			return true
		}
	}
	return false
}

func fullFunc(f string) string {
	if strings.HasPrefix(f, modPath) || !strings.Contains(f, "/") && !strings.Contains(f, ".") {
		return f
	}
	if strings.HasPrefix(f, "./") {
		f = f[2:]
	}
	if strings.HasPrefix(f, "github.com/") {
		return f
	}
	return modPath + "/" + f
}

type violationOut struct {
	Entry     string            `json:"entry"`
	Label     string            `json:"label"`
	Model     map[string]string `json:"model"`
	Trace     []string          `json:"trace,omitempty"`
	Detail    string            `json:"detail,omitempty"`
	Replay    string            `json:"replay"`
	Status    string            `json:"status"` // confirmed | spurious | known
	ReplayOut string            `json:"replay_output,omitempty"`
}

func cmdCheck(args []string) int {
	fs := flag.NewFlagSet("check", flag.ExitOnError)
	tier := fs.String("tier", "", "quick|thorough")
	repo := fs.String("repo", "/repo", "repository")
	verif := fs.String("verif", "/verif", "verif root")
	workers := fs.Int("workers", 16, "workers")
	solver := fs.String("solver", "z3", "solver back end")
	only := fs.String("only", "", "run only entries whose name contains this")
	verbose := fs.Bool("v", false, "verbose")
	conformN := fs.Int("conform", -1, "per entry, replay this many completed paths natively and compare the labels met (default: 3 quick, 8 thorough)")
	noReplay := fs.Bool("noreplay", false, "skip native replay (debugging only; violations then count as unconfirmed)")
	fs.Parse(args[1:])
	id := args[0]
	if *tier == "" {
		*tier = os.Getenv("VERIF_TIER")
	}
	if *tier == "" {
		*tier = "quick"
	}
	seed := 0
	fmt.Sscan(os.Getenv("VERIF_SEED"), &seed)
	start := time.Now()

	b, err := os.ReadFile(filepath.Join(*verif, "checks", id+".json"))
	if err != nil {
		fmt.Fprintln(os.Stderr, "BROKEN-CHECK", err)
		return 2
	}
	var cfg CheckCfg
	if err := json.Unmarshal(b, &cfg); err != nil {
		fmt.Fprintln(os.Stderr, "BROKEN-CHECK bad config:", err)
		return 2
	}
	var hd []string
	for _, h := range cfg.Harness {
		hd = append(hd, filepath.Join(*verif, "harness", h))
	}
	ov, err := overlayFor(*repo, hd, *verif)
	if err != nil {
		fmt.Fprintln(os.Stderr, "BROKEN-CHECK", err)
		return 2
	}
	eng, err := LoadEngine(*repo, cfg.Packages, ov)
	if err != nil {
		fmt.Fprintln(os.Stderr, "BROKEN-CHECK load:", err)
		return 2
	}
	eng.verbose = *verbose
	eng.solverKind = *solver
	eng.tier = *tier
	eng.timeoutMs = 10000
	if t, ok := cfg.TimeoutMs[*tier]; ok {
		eng.timeoutMs = t
	}
	budget := 900
	if *tier == "thorough" {
		budget = 3600
	}
	if t, ok := cfg.BudgetS[*tier]; ok {
		budget = t
	}
	deadline := time.Now().Add(time.Duration(budget) * time.Second)
	fmt.Fprintf(os.Stderr, "[%s] loaded %d packages in %.1fs\n", id, len(eng.spkgs), eng.loadTime.Seconds())

	known := loadKnown(*verif)
	var all []*Results
	var viol []violationOut
	missingReach := []string{}
	inconclusive := 0
	outDir := filepath.Join(*verif, "out", "replays", id)
	os.MkdirAll(outDir, 0o755)
	nReplay := 0
	replayed := 0
	replayErrors := 0
	bins := map[string]*replayBin{}
	defer func() {
		for _, rb := range bins {
			rb.close()
		}
	}()
	if *conformN < 0 {
		*conformN = 3
		if *tier == "thorough" {
			*conformN = 8
		}
	}
	conformDir := filepath.Join(*verif, "out", "conform", id)
	var conform conformStats
	for _, ent := range cfg.Entries {
		if !inTier(ent, *tier) {
			continue
		}
		if *only != "" && !strings.Contains(ent.Func, *only) {
			continue
		}
		fn, err := findFunc(eng, fullFunc(ent.Func))
		if err != nil {
			fmt.Fprintln(os.Stderr, "BROKEN-CHECK", err)
			return 2
		}
		eng.tier = *tier
		if ent.TierAs != "" {
			eng.tier = ent.TierAs
		}
		ex := NewExplorer(eng, fn)
		ex.workers = *workers
		ex.deadline = deadline
		ex.mapPerm = ent.MapPerm
		ex.exactFloat = ent.ExactFloat
		ex.unwind = ent.Unwind
		if ent.MaxPaths > 0 {
			ex.maxPaths = ent.MaxPaths
		}
		if !*noReplay && !ent.MapPerm {
			ex.conformK = *conformN
		}
		res := ex.Run()
		all = append(all, res)
		fmt.Fprint(os.Stderr, res.Summary())
		if *verbose {
			for _, n := range sortedKeys(res.Notes) {
				fmt.Fprintf(os.Stderr, "  note x%d: %s\n", res.Notes[n], n)
			}
		}
		// an exploration cut short by the check's time budget is a reduced bound
		// (inconclusive), not a vacuous harness
		budgetOut := res.Truncated && time.Now().After(deadline)
		for _, r := range ent.Reach {
			if _, ok := res.Reached[r]; !ok {
				if budgetOut {
					fmt.Fprintf(os.Stderr, "INCONCLUSIVE property=%s time budget of %d s exhausted in %s before witness %q was met\n", id, budget, ent.Func, r)
					inconclusive++
					continue
				}
				missingReach = append(missingReach, ent.Func+":"+r)
			}
		}
		for k, n := range res.Aborted {
			if k != "infeasible" {
				inconclusive += n
			}
		}
		if res.Truncated {
			inconclusive++
		}
		// translator validation: completed paths replayed natively, labels compared
		if len(res.Conform) > 0 {
			os.MkdirAll(conformDir, 0o755)
			full := fullFunc(ent.Func)
			k := strings.LastIndex(full, ".")
			rb := bins[full[:k]]
			if rb == nil {
				rb = buildReplayBin(*repo, *verif, hd, full[:k])
				bins[full[:k]] = rb
			}
			for i, smp := range res.Conform {
				path := filepath.Join(conformDir, fmt.Sprintf("%s-%d.json", shortName(ent.Func), i))
				jb, _ := json.MarshalIndent(map[string]interface{}{"property": id, "entry": full, "label": "", "model": smp.Model, "labels": smp.Labels, "tier": eng.tier}, "", " ")
				os.WriteFile(path, jb, 0o644)
				out := rb.run(path, full[k+1:], eng.tier)
				conform.Samples++
				got, okTrace := "", false
				for _, line := range strings.Split(out, "\n") {
					if strings.HasPrefix(line, "VERIF-REPLAY: TRACE") {
						got = strings.TrimSpace(strings.TrimPrefix(line, "VERIF-REPLAY: TRACE"))
						okTrace = true
					}
				}
				want := strings.Join(smp.Labels, " ")
				switch {
				case !okTrace || strings.Contains(out, "VERIF-REPLAY: PANIC") || strings.Contains(out, "ASSUME-FAILED") || strings.Contains(out, "SYM-ASSERT-FAILED"):
					conform.Mismatch++
					inconclusive++ // engine and native run disagree on this path: nothing is concluded from it
					conform.Details = append(conform.Details, fmt.Sprintf("%s: native run diverged (%s)", path, tailStr(strings.TrimSpace(out), 300)))
					fmt.Fprintf(os.Stderr, "CONFORMANCE-MISMATCH %s (native run failed an assumption/assertion or panicked)\n", path)
				case got != want:
					conform.Mismatch++
					inconclusive++ // engine and native run disagree on this path: nothing is concluded from it
					conform.Details = append(conform.Details, fmt.Sprintf("%s: engine met [%s], native met [%s]", path, want, got))
					fmt.Fprintf(os.Stderr, "CONFORMANCE-MISMATCH %s\n  engine: %s\n  native: %s\n", path, want, got)
				default:
					conform.Match++
				}
			}
		}
		var labels []string
		for l := range res.Asserts {
			labels = append(labels, l)
		}
		sort.Strings(labels)
		for _, l := range labels {
			a := res.Asserts[l]
			inconclusive += a.Unknown
			if a.Violated == 0 {
				continue
			}
			// replay up to 2 samples per label until one is confirmed
			confirmed := false
			var last violationOut
			for i, s := range a.Samples {
				if i >= 2 || confirmed {
					break
				}
				nReplay++
				path := filepath.Join(outDir, fmt.Sprintf("%s-%s-%d.json", shortName(ent.Func), sanitizeFile(l), i))
				doc := map[string]interface{}{
					"property": id, "entry": fullFunc(ent.Func), "label": l, "model": s.Model,
					"trace": s.Trace, "detail": s.Detail, "tier": eng.tier,
				}
				jb, _ := json.MarshalIndent(doc, "", " ")
				os.WriteFile(path, jb, 0o644)
				v := violationOut{Entry: ent.Func, Label: l, Model: s.Model, Detail: s.Detail, Replay: path}
				if len(s.Trace) <= 64 {
					v.Trace = s.Trace
				}
				if *noReplay {
					v.Status = "unconfirmed"
				} else {
					ok, out := nativeReplayWith(bins, *repo, *verif, hd, path)
					replayed++
					v.ReplayOut = tailStr(out, 600)
					if ok {
						v.Status = "confirmed"
						confirmed = true
					} else if !strings.Contains(out, "VERIF-REPLAY: DONE") && !strings.Contains(out, "VERIF-REPLAY: ASSUME-FAILED") {
						// the native run never got through the harness: nothing can be concluded
						v.Status = "replay-error"
						replayErrors++
						fmt.Fprintf(os.Stderr, "REPLAY-ERROR %s: %s\n", path, tailStr(strings.TrimSpace(out), 400))
					} else {
						v.Status = "spurious"
					}
				}
				last = v
				if v.Status != "confirmed" {
					viol = append(viol, v)
				}
			}
			if confirmed {
				viol = append(viol, last)
			}
		}
	}

	// classify
	exit := 0
	nViol := 0
	printed := map[string]bool{}
	for i := range viol {
		v := &viol[i]
		if v.Status != "confirmed" {
			continue
		}
		isKnown := false
		for _, k := range known {
			if k.Property == id && k.Status == "known" && k.Label == v.Label && (k.Entry == "" || strings.HasSuffix(fullFunc(v.Entry), k.Entry)) {
				isKnown = true
				if !printed[k.Label+k.Entry] {
					fmt.Printf("KNOWN-FINDING: property=%s %s\n", id, k.What)
					printed[k.Label+k.Entry] = true
				}
				v.Status = "known"
			}
		}
		if !isKnown {
			nViol++
			fmt.Printf("VIOLATION property=%s replay=%s\n", id, v.Replay)
			fmt.Printf("  entry=%s label=%s model=%v %s\n", v.Entry, v.Label, v.Model, v.Detail)
			exit = 1
		}
	}
	broken := false
	for _, v := range viol {
		if v.Status == "spurious" {
			// the engine's counterexample does not reproduce: encoding or stub too weak on that path
			inconclusive++
			fmt.Fprintf(os.Stderr, "SPURIOUS property=%s entry=%s label=%s (engine counterexample not reproduced natively; counted as inconclusive)\n", id, v.Entry, v.Label)
		}
	}
	if replayErrors > 0 {
		fmt.Fprintf(os.Stderr, "BROKEN-CHECK property=%s %d counterexample(s) could not be replayed natively\n", id, replayErrors)
		broken = true
	}
	if len(missingReach) > 0 {
		fmt.Fprintf(os.Stderr, "BROKEN-CHECK property=%s vacuous: reachability witnesses not met: %v\n", id, missingReach)
		broken = true
	}
	writeEvidence(*verif, id, *tier, seed, &cfg, eng, all, viol, nViol, inconclusive, missingReach, replayed+conform.Samples, &conform, time.Since(start))
	if exit == 0 && broken {
		return 2
	}
	if exit == 0 {
		fmt.Printf("OK property=%s tier=%s paths=%d inconclusive=%d wall=%.1fs\n", id, *tier, totalPaths(all), inconclusive, time.Since(start).Seconds())
	}
	return exit
}

func totalPaths(all []*Results) int {
	n := 0
	for _, r := range all {
		n += r.Paths
	}
	return n
}

func shortName(f string) string {
	if i := strings.LastIndex(f, "."); i >= 0 {
		return f[i+1:]
	}
	return f
}

func sanitizeFile(s string) string {
	var sb strings.Builder
	for _, c := range s {
		if c >= 'a' && c <= 'z' || c >= 'A' && c <= 'Z' || c >= '0' && c <= '9' || c == '-' || c == '_' {
			sb.WriteRune(c)
		} else {
			sb.WriteByte('_')
		}
	}
	return sb.String()
}

func tailStr(s string, n int) string {
	if len(s) <= n {
		return s
	}
	return "…" + s[len(s)-n:]
}

type conformStats struct {
	Samples  int      `json:"samples"`
	Match    int      `json:"matched"`
	Mismatch int      `json:"mismatched"`
	Details  []string `json:"details,omitempty"`
}

// ---- native replay ----------------------------------------------------------------

const replayTestSrc = `package %s

import (
	"fmt"
	"os"
	"strings"
	"testing"

	"%s/zzverif/sym"
)

func TestVerifReplay(t *testing.T) {
	name := os.Getenv("VERIF_ENTRY")
	f := VerifEntries[name]
	if f == nil {
		t.Fatalf("VERIF-REPLAY: unknown entry %%s", name)
	}
	func() {
		defer func() {
			if r := recover(); r != nil {
				if _, ok := r.(sym.AssumeFailed); ok {
					fmt.Println("VERIF-REPLAY: ASSUME-FAILED")
					return
				}
				fmt.Printf("VERIF-REPLAY: PANIC %%v\n", r)
			}
		}()
		f()
	}()
	fmt.Printf("VERIF-REPLAY: DONE failures=%%q missing=%%d\n", sym.Failures, len(sym.Missing))
	fmt.Printf("VERIF-REPLAY: TRACE %%s\n", strings.Join(sym.Trace, " "))
}
`

// replayBin is a compiled native test binary of one harness package.
type replayBin struct {
	bin, tmp string
	runDir   string
	env      []string
	err      string
}

func (rb *replayBin) close() {
	if rb != nil && rb.tmp != "" {
		os.RemoveAll(rb.tmp)
	}
}

// buildReplayBin compiles the harness package of pkgPath natively (go test -c -overlay).
// timeOverlay prepares an overlay of the standard library's time package in which
// time.Now() consults an exported hook, so that a replay can dictate the wall clock.
func timeOverlay(tmp string, repl map[string]string) error {
	out, err := exec.Command("go", "env", "GOROOT").Output()
	if err != nil {
		return err
	}
	goroot := strings.TrimSpace(string(out))
	src, err := os.ReadFile(filepath.Join(goroot, "src", "time", "time.go"))
	if err != nil {
		return err
	}
	const anchor = "func Now() Time {\n"
	if !strings.Contains(string(src), anchor) {
		return fmt.Errorf("time.Now not found in %s", goroot)
	}
	patched := strings.Replace(string(src), anchor, anchor+"\tif NowHook != nil {\n\t\tif t, ok := NowHook(); ok {\n\t\t\treturn t\n\t\t}\n\t}\n", 1)
	pf := filepath.Join(tmp, "time_go_patched.txt")
	hf := filepath.Join(tmp, "time_hook.txt")
	os.WriteFile(pf, []byte(patched), 0o644)
	os.WriteFile(hf, []byte("package time\n\n// NowHook, when set, replaces the wall clock (verification replays only).\nvar NowHook func() (Time, bool)\n"), 0o644)
	repl[filepath.Join(goroot, "src", "time", "time.go")] = pf
	repl[filepath.Join(goroot, "src", "time", "zz_verif_hook.go")] = hf
	return nil
}

func buildReplayBin(repo, verif string, harnessDirs []string, pkgPath string) *replayBin {
	return buildReplayBinOpt(repo, verif, harnessDirs, pkgPath, false)
}

func buildReplayBinOpt(repo, verif string, harnessDirs []string, pkgPath string, clock bool) *replayBin {
	rel := strings.TrimPrefix(strings.TrimPrefix(pkgPath, modPath), "/")
	tmp, err := os.MkdirTemp("", "gosym-replay-")
	if err != nil {
		return &replayBin{err: err.Error()}
	}
	rb := &replayBin{tmp: tmp, runDir: tmp}
	// run where `go test` would run it (the repo's own tests of the package read testdata/ relative to it)
	if st, err := os.Stat(filepath.Join(repo, rel)); err == nil && st.IsDir() {
		rb.runDir = filepath.Join(repo, rel)
	}
	repl := map[string]string{}
	addDir := func(srcDir, dstDir string, native bool) {
		filepath.Walk(srcDir, func(path string, info os.FileInfo, err error) error {
			if err != nil || info.IsDir() || !strings.HasSuffix(path, ".go") {
				return nil
			}
			if strings.HasSuffix(path, "_engine.go") {
				return nil
			}
			r, _ := filepath.Rel(srcDir, path)
			repl[filepath.Join(dstDir, r)] = path
			return nil
		})
	}
	addDir(filepath.Join(verif, "harness", "zzverif"), filepath.Join(repo, "zzverif"), true)
	for _, hd := range harnessDirs {
		addDir(hd, repo, true)
	}
	// package name of the target package
	pkgName := ""
	for dst, src := range repl {
		if filepath.Dir(dst) == filepath.Join(repo, rel) && !strings.HasSuffix(dst, "_test.go") {
			sb, _ := os.ReadFile(src)
			for _, line := range strings.Split(string(sb), "\n") {
				if strings.HasPrefix(line, "package ") {
					pkgName = strings.TrimSpace(strings.TrimPrefix(line, "package "))
					break
				}
			}
		}
	}
	if pkgName == "" {
		rb.err = "cannot determine package name for " + rel
		return rb
	}
	testFile := filepath.Join(tmp, "zz_verif_replay_test.go")
	os.WriteFile(testFile, []byte(fmt.Sprintf(replayTestSrc, pkgName, modPath)), 0o644)
	repl[filepath.Join(repo, rel, "zz_verif_replay_test.go")] = testFile
	if clock {
		if err := timeOverlay(tmp, repl); err != nil {
			rb.err = "cannot overlay the time package: " + err.Error()
			return rb
		}
	}
	ovb, _ := json.Marshal(map[string]interface{}{"Replace": repl})
	ovPath := filepath.Join(tmp, "overlay.json")
	os.WriteFile(ovPath, ovb, 0o644)
	// build the test binary (no chdir into the package: overlay-only packages have
	// no directory on disk), then run it
	rb.bin = filepath.Join(tmp, "replay.test")
	rb.env = append(os.Environ(), "GOFLAGS=-mod=mod", "GOPROXY=off", "GOSUMDB=off", "GOTOOLCHAIN=local")
	buildArgs := []string{"test", "-c", "-vet=off", "-overlay", ovPath, "-o", rb.bin}
	// the harness imports may turn an indirect requirement into a direct one; with
	// -mod=mod the go tool would rewrite /repo/go.mod — give it a private copy instead
	if mf := privateModfile(repo, tmp); mf != "" {
		buildArgs = append(buildArgs, "-modfile="+mf)
	}
	if clock {
		buildArgs = append(buildArgs, "-tags", "verifclock")
	}
	buildArgs = append(buildArgs, "./"+rel)
	build := exec.Command("go", buildArgs...)
	build.Dir = repo
	build.Env = rb.env
	if bout, err := build.CombinedOutput(); err != nil {
		rb.err = "replay build failed: " + string(bout)
	}
	return rb
}

// privateModfile copies go.mod / go.sum of the repository into dir and returns the
// copy's path (for -modfile), so that nothing the go tool decides to tidy up is
// written into the working tree under test.
func privateModfile(repo, dir string) string {
	mod, err := os.ReadFile(filepath.Join(repo, "go.mod"))
	if err != nil {
		return ""
	}
	mf := filepath.Join(dir, "go.mod")
	if os.WriteFile(mf, mod, 0o644) != nil {
		return ""
	}
	if sum, err := os.ReadFile(filepath.Join(repo, "go.sum")); err == nil {
		os.WriteFile(filepath.Join(dir, "go.sum"), sum, 0o644)
	}
	return mf
}

// run executes one entry natively on the model stored in replayPath.
func (rb *replayBin) run(replayPath, fn, tier string) string {
	if rb.err != "" {
		return rb.err
	}
	cmd := exec.Command(rb.bin, "-test.run", "^TestVerifReplay$", "-test.v", "-test.count=1", "-test.timeout=10m")
	cmd.Dir = rb.runDir
	cmd.Env = append(append([]string{}, rb.env...), "VERIF_REPLAY="+replayPath, "VERIF_ENTRY="+fn, "VERIF_TIER="+tier)
	out, _ := cmd.CombinedOutput()
	return string(out)
}

// nativeReplay runs the harness natively (go test -overlay) with the model.
func nativeReplay(repo, verif string, harnessDirs []string, replayPath string) (bool, string) {
	return nativeReplayWith(nil, repo, verif, harnessDirs, replayPath)
}

func nativeReplayWith(cache map[string]*replayBin, repo, verif string, harnessDirs []string, replayPath string) (bool, string) {
	return nativeReplayClock(cache, repo, verif, harnessDirs, replayPath, false, false)
}

func nativeReplayClock(cache map[string]*replayBin, repo, verif string, harnessDirs []string, replayPath string, forceClock, inner bool) (bool, string) {
	b, err := os.ReadFile(replayPath)
	if err != nil {
		return false, err.Error()
	}
	var doc struct {
		Entry string `json:"entry"`
		Label string `json:"label"`
		Tier  string `json:"tier"`
	}
	json.Unmarshal(b, &doc)
	i := strings.LastIndex(doc.Entry, ".")
	pkgPath, fn := doc.Entry[:i], doc.Entry[i+1:]
	// a counterexample whose model contains wall-clock readings is first replayed with the
	// real clock; only if that does not reproduce is it replayed with a dictated clock
	// (that build overlays the standard library's time package and is slow)
	hasClock := strings.Contains(string(b), "\"wallclock@")
	if !inner && hasClock {
		if ok, out := nativeReplayClock(cache, repo, verif, harnessDirs, replayPath, false, true); ok {
			return true, out
		}
		return nativeReplayClock(cache, repo, verif, harnessDirs, replayPath, true, true)
	}
	clock := forceClock
	key := pkgPath
	if clock {
		key += "#clock"
	}
	var rb *replayBin
	if cache != nil {
		rb = cache[key]
	}
	if rb == nil {
		rb = buildReplayBinOpt(repo, verif, harnessDirs, pkgPath, clock)
		if cache != nil {
			cache[key] = rb
		} else {
			defer rb.close()
		}
	}
	if rb.err != "" {
		return false, rb.err
	}
	// Go's map iteration order cannot be dictated natively: a counterexample that
	// depends on it is replayed repeatedly until the runtime happens to pick a
	// diverging order (bounded).
	attempts := 1
	if strings.Contains(string(b), "\"maporder#") {
		attempts = 40
	}
	so := ""
	for a := 0; a < attempts; a++ {
		so = rb.run(replayPath, fn, doc.Tier)
		ok := false
		if doc.Label == "uncaught-panic" {
			ok = strings.Contains(so, "VERIF-REPLAY: PANIC")
		} else {
			ok = strings.Contains(so, "SYM-ASSERT-FAILED "+doc.Label+"\n") || strings.Contains(so, "SYM-ASSERT-FAILED "+doc.Label+"\r")
		}
		if ok {
			return true, so
		}
	}
	return false, so
}

func cmdReplay(args []string) int {
	fs := flag.NewFlagSet("replay", flag.ExitOnError)
	repo := fs.String("repo", "/repo", "repository")
	verif := fs.String("verif", "/verif", "verif root")
	fs.Parse(args[1:])
	path := args[0]
	b, err := os.ReadFile(path)
	if err != nil {
		fmt.Fprintln(os.Stderr, err)
		return 2
	}
	var doc struct {
		Property string `json:"property"`
	}
	json.Unmarshal(b, &doc)
	cb, err := os.ReadFile(filepath.Join(*verif, "checks", doc.Property+".json"))
	if err != nil {
		fmt.Fprintln(os.Stderr, err)
		return 2
	}
	var cfg CheckCfg
	json.Unmarshal(cb, &cfg)
	var hd []string
	for _, h := range cfg.Harness {
		hd = append(hd, filepath.Join(*verif, "harness", h))
	}
	ok, out := nativeReplay(*repo, *verif, hd, path)
	fmt.Println(out)
	if ok {
		fmt.Printf("VIOLATION property=%s replay=%s (reproduced natively)\n", doc.Property, path)
		return 1
	}
	fmt.Println("replay did not reproduce the violation")
	return 0
}

// ---- evidence ----------------------------------------------------------------------

func writeEvidence(verif, id, tier string, seed int, cfg *CheckCfg, eng *Engine, all []*Results, viol []violationOut, nViol, inconclusive int, missingReach []string, replayed int, conform *conformStats, wall time.Duration) {
	states, transitions, queries, sat, unsat, unknown := 0, 0, 0, 0, 0, 0
	var solverT float64
	funcs := map[string]bool{}
	intr := map[string]int{}
	var samples []interface{}
	obligations, discharged := 0, 0
	entries := []interface{}{}
	for _, r := range all {
		states += r.Completed
		transitions += r.Decisions
		queries += r.Queries
		sat += r.Sat
		unsat += r.Unsat
		unknown += r.Unknown
		solverT += r.SolverTime.Seconds()
		for f := range r.Funcs {
			funcs[f] = true
		}
		for k, n := range r.Intrinsics {
			intr[k] += n
		}
		as := map[string]interface{}{}
		for l, a := range r.Asserts {
			as[l] = map[string]int{"discharged": a.Discharged, "violated": a.Violated, "unknown": a.Unknown}
			obligations += a.Discharged + a.Violated + a.Unknown
			discharged += a.Discharged
		}
		var reached []string
		for l := range r.Reached {
			reached = append(reached, l)
		}
		sort.Strings(reached)
		entries = append(entries, map[string]interface{}{
			"entry": r.Entry, "paths": r.Paths, "completed": r.Completed, "aborted": r.Aborted,
			"abort_samples": r.AbortSamples, "decisions": r.Decisions, "ssa_instructions": r.Steps,
			"asserts": as, "reached": reached, "truncated": r.Truncated, "wall_s": r.Wall.Seconds(),
		})
		for i, sp := range r.SamplePaths {
			if i >= 2 {
				break
			}
			samples = append(samples, map[string]interface{}{"entry": r.Entry, "kind": "path", "decisions": sp})
		}
		n := 0
		for l, m := range r.Reached {
			if n >= 2 {
				break
			}
			n++
			samples = append(samples, map[string]interface{}{"entry": r.Entry, "kind": "reach-witness", "label": l, "model": m})
		}
	}
	if len(samples) == 0 {
		samples = append(samples, "no completed path")
	}
	var fl []string
	for f := range funcs {
		if strings.Contains(f, "palomachain/paloma") && !strings.Contains(f, "zzverif") {
			fl = append(fl, f)
		}
	}
	sort.Strings(fl)
	var il []string
	for k := range intr {
		il = append(il, k)
	}
	sort.Strings(il)
	if states == 0 {
		states = 0
	}
	cov := map[string]interface{}{
		"states":                        states,
		"transitions":                   transitions,
		"traces_validated_against_impl": replayed,
		"samples":                       samples,
		"obligations":                   obligations,
		"discharged":                    discharged,
		"inconclusive":                  inconclusive,
		"missing_reach":                 missingReach,
		"queries":                       queries,
		"sat":                           sat, "unsat": unsat, "unknown": unknown,
		"solver":                        eng.solverKind,
		"solver_time_s":                 solverT,
		"solver_timeout_ms":             eng.timeoutMs,
		"functions_encoded":             fl,
		"functions_encoded_total":       len(funcs),
		"intrinsics_used":               il,
		"bounds":                        cfg.Bounds[tier],
		"stubs":                         cfg.Stubs,
		"outside":                       cfg.Outside,
		"entries":                       entries,
		"violation_details":             viol,
		"conformance":                   conform,
		"packages_loaded":               len(eng.spkgs),
		"load_s":                        eng.loadTime.Seconds(),
		"exhaustive":                    false,
		"rule":                          "states = completed symbolic paths of the harness over real go/ssa code; transitions = solver-decided branch/concretisation decisions; every assertion is an SMT query PC∧¬assert",
	}
	ev := map[string]interface{}{
		"property_id": id, "tier": tier, "seed": seed, "level": "model_checking",
		"coverage": cov, "assumptions": cfg.Assumptions, "wall_s": wall.Seconds(), "violations": nViol,
	}
	os.MkdirAll(filepath.Join(verif, "evidence"), 0o755)
	b, _ := json.MarshalIndent(ev, "", " ")
	os.WriteFile(filepath.Join(verif, "evidence", id+".json"), b, 0o644)
}
