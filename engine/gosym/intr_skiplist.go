package main

import (
	"go/token"
	"go/types"
)

// github.com/huandu/skiplist is replaced by its sequential specification: an
// ordered, duplicate-free linked list under the list's Comparable. Elements
// and lists keep their real struct types, so Front / Len / Next / Key / Value
// run from SSA over the fields maintained here (levels[0] = successor, prev,
// key, Value, list, length, back). The probabilistic tower (random levels,
// unsafe header casts, float scores) is outside the model; all comparators
// used by the mempool report score 0, so order is decided by Compare alone.
// The real Comparable.Compare (a Go closure for LessThanFunc) is executed.

const slPkg = "github.com/huandu/skiplist"

func registerSkiplist(e *Engine) {
	sp := e.pkg(slPkg)
	if sp == nil {
		return
	}
	listT := e.namedType(slPkg, "SkipList")
	elemT := e.namedType(slPkg, "Element")
	hdrT := e.namedType(slPkg, "elementHeader")
	fLevels := fieldIndex(hdrT, "levels")
	lHdr, lCmp, lLen, lBack, lMax := fieldIndex(listT, "elementHeader"), fieldIndex(listT, "comparable"), fieldIndex(listT, "length"), fieldIndex(listT, "back"), fieldIndex(listT, "maxLevel")
	eHdr, eVal, eKey, ePrev, eList := fieldIndex(elemT, "elementHeader"), fieldIndex(elemT, "Value"), fieldIndex(elemT, "key"), fieldIndex(elemT, "prev"), fieldIndex(elemT, "list")

	next := func(hdr structure) *value {
		lv, _ := hdr[fLevels].([]value)
		if len(lv) == 0 {
			return nil
		}
		p, _ := lv[0].(*value)
		return p
	}
	setNext := func(owner structure, hdrIdx int, n *value) {
		hdr := owner[hdrIdx].(structure)
		hdr[fLevels] = []value{n}
	}
	compare := func(fr *frame, list structure, a, b value) value {
		cmp, _ := list[lCmp].(iface)
		if cmp.t == nil {
			rtPanic(fr, "invalid memory address or nil pointer dereference (nil Comparable)")
		}
		fn := e.prog.LookupMethod(cmp.t, sp.Pkg, "Compare")
		if fn == nil {
			abort("unmodelled", "skiplist comparable %s has no Compare", cmp.t)
		}
		return call(fr, token.NoPos, fn, []value{cmp.v, a, b})
	}
	// locate returns (prev, cur, found): cur is the first element not sorting before key.
	locate := func(fr *frame, list structure, key value) (prev, cur *value, found bool) {
		cur = next(list[lHdr].(structure))
		for cur != nil {
			el := (*cur).(structure)
			c := compare(fr, list, key, el[eKey])
			var isEq, isLt value
			switch c := c.(type) {
			case int64:
				isEq, isLt = c == 0, c < 0
			case *Term:
				isEq, isLt = simp(Eq(c, IntConst64(0))), simp(Lt(c, IntConst64(0)))
			default:
				abort("unmodelled", "skiplist Compare returned %T", c)
			}
			if fr.p.branch(fr, isEq, nil) {
				return prev, cur, true
			}
			if fr.p.branch(fr, isLt, nil) {
				return prev, cur, false
			}
			prev = cur
			cur = next(el[eHdr].(structure))
		}
		return prev, nil, false
	}
	listOf := func(fr *frame, v value) structure {
		p, _ := v.(*value)
		if p == nil {
			rtPanic(fr, "invalid memory address or nil pointer dereference")
		}
		return (*p).(structure)
	}
	e.reg(slPkg+".New", func(fr *frame, args []value) value {
		var cell value = zero(listT)
		st := cell.(structure)
		st[lCmp] = args[0]
		st[lMax] = int64(1)
		setNext(st, lHdr, nil)
		return &cell
	})
	e.reg("(*"+slPkg+".SkipList).Init", func(fr *frame, args []value) value {
		st := listOf(fr, args[0])
		st[lLen] = int64(0)
		st[lBack] = (*value)(nil)
		setNext(st, lHdr, nil)
		return args[0]
	})
	e.reg("(*"+slPkg+".SkipList).Set", func(fr *frame, args []value) value {
		st := listOf(fr, args[0])
		prev, cur, found := locate(fr, st, args[1])
		if found {
			(*cur).(structure)[eVal] = args[2]
			return cur
		}
		var cell value = zero(elemT)
		el := cell.(structure)
		el[eVal], el[eKey], el[eList], el[ePrev] = args[2], args[1], args[0], prev
		setNext(el, eHdr, cur)
		np := &cell
		if prev == nil {
			setNext(st, lHdr, np)
		} else {
			setNext((*prev).(structure), eHdr, np)
		}
		if cur == nil {
			st[lBack] = np
		} else {
			(*cur).(structure)[ePrev] = np
		}
		st[lLen] = st[lLen].(int64) + 1
		return np
	})
	e.reg("(*"+slPkg+".SkipList).Get", func(fr *frame, args []value) value {
		st := listOf(fr, args[0])
		_, cur, found := locate(fr, st, args[1])
		if !found {
			return (*value)(nil)
		}
		return cur
	})
	remove := func(fr *frame, lp value, st structure, prev, cur *value) {
		el := (*cur).(structure)
		nx := next(el[eHdr].(structure))
		if prev == nil {
			setNext(st, lHdr, nx)
		} else {
			setNext((*prev).(structure), eHdr, nx)
		}
		if nx == nil {
			st[lBack] = prev
		} else {
			(*nx).(structure)[ePrev] = prev
		}
		st[lLen] = st[lLen].(int64) - 1
		// Element.reset()
		el[eList], el[ePrev] = (*value)(nil), (*value)(nil)
		el[eHdr].(structure)[fLevels] = []value(nil)
	}
	e.reg("(*"+slPkg+".SkipList).Remove", func(fr *frame, args []value) value {
		st := listOf(fr, args[0])
		prev, cur, found := locate(fr, st, args[1])
		if !found {
			return (*value)(nil)
		}
		remove(fr, args[0], st, prev, cur)
		return cur
	})
	// keyType.Compare: the reflect-based comparison of the predefined key kinds
	e.reg("("+slPkg+".keyType).Compare", func(fr *frame, args []value) value {
		kt, ok := args[0].(int64)
		if !ok {
			abort("unmodelled", "symbolic skiplist key type")
		}
		rev := kt < 0
		if rev {
			kt = -kt
		}
		a, _ := args[1].(iface)
		b, _ := args[2].(iface)
		res := int64(0)
		switch kt {
		case 6, 11, 2, 3, 4, 5, 7, 8, 9, 10: // integer kinds
			ta, ok1 := toTerm(a.v)
			tb, ok2 := toTerm(b.v)
			if !ok1 || !ok2 {
				abort("unmodelled", "skiplist integer key of type %T", a.v)
			}
			if fr.p.branch(fr, simp(Gt(ta, tb)), nil) {
				res = 1
			} else if fr.p.branch(fr, simp(Lt(ta, tb)), nil) {
				res = -1
			}
		case 24: // string
			sa, ok1 := a.v.(string)
			sb, ok2 := b.v.(string)
			if !ok1 || !ok2 {
				abort("unmodelled", "skiplist string key is symbolic")
			}
			if sa > sb {
				res = 1
			} else if sa < sb {
				res = -1
			}
		default:
			abort("unmodelled", "skiplist key kind %d", kt)
		}
		if rev {
			res = -res
		}
		return res
	})
	_ = types.Typ
}
