package main

// math/big intrinsics: *big.Int objects hold either a concrete big.Int or an
// unbounded SMT Int term. cosmossdk.io/math (Int, LegacyDec, Uint) is executed
// from its own SSA on top of these.

import (
	"strings"
	"fmt"
	"math/big"
)

func bigPtr(fr *frame, v value) *value {
	p := v.(*value)
	if p == nil {
		rtPanic(fr, "invalid memory address or nil pointer dereference (nil *big.Int)")
	}
	return p
}

func bigOf(fr *frame, v value) bigVal {
	p := bigPtr(fr, v)
	b, ok := (*p).(bigVal)
	if !ok {
		abort("engine", "big.Int cell holds %T", *p)
	}
	return b
}

func newBigCell(b bigVal) *value {
	var c value = b
	return &c
}

func mkBig(t *Term) bigVal {
	if t.isConst() {
		return bigVal{c: t.ival}
	}
	return bigVal{t: t}
}

func bigConc(v *big.Int) bigVal { return bigVal{c: v} }

// bigBin registers z.op(x, y) storing into z and returning z.
func bigBin(e *Engine, name string, conc func(z, x, y *big.Int) *big.Int, sym func(fr *frame, x, y *Term) *Term, divLike bool) {
	e.reg("(*math/big.Int)."+name, func(fr *frame, args []value) value {
		z := bigPtr(fr, args[0])
		x, y := bigOf(fr, args[1]), bigOf(fr, args[2])
		if divLike {
			isZero := eqZero(y)
			if fr.p.branch(fr, isZero, nil) {
				panic(targetPanic{iface{fr.p.eng.runtimeErrorString, "division by zero"}})
			}
		}
		if x.isConc() && y.isConc() {
			*z = bigConc(conc(new(big.Int), x.conc(), y.conc()))
		} else {
			*z = mkBig(sym(fr, x.term(), y.term()))
		}
		return z
	})
}

func eqZero(b bigVal) value {
	if b.isConc() {
		return b.conc().Sign() == 0
	}
	return simp(Eq(b.t, IntConst64(0)))
}

func signTerm(t *Term) *Term {
	z := IntConst64(0)
	r := Ite(Gt(t, z), IntConst64(1), Ite(Lt(t, z), IntConst64(-1), z))
	return r
}

func absTerm(t *Term) *Term {
	if t.lo != nil && t.lo.Sign() >= 0 {
		return t
	}
	r := Ite(Lt(t, IntConst64(0)), Neg(t), t)
	r.lo = big0
	return r
}

func intResult(t *Term) value {
	if t.isConst() {
		return t.ival.Int64()
	}
	return t
}

func registerBig(e *Engine) {
	e.reg("math/big.NewInt", func(fr *frame, args []value) value {
		switch x := args[0].(type) {
		case int64:
			return newBigCell(bigConc(big.NewInt(x)))
		case *Term:
			return newBigCell(bigVal{t: x})
		}
		panic("big.NewInt")
	})
	bigBin(e, "Add", (*big.Int).Add, func(fr *frame, x, y *Term) *Term { return Add(x, y) }, false)
	bigBin(e, "Sub", (*big.Int).Sub, func(fr *frame, x, y *Term) *Term { return Sub(x, y) }, false)
	bigBin(e, "Mul", (*big.Int).Mul, func(fr *frame, x, y *Term) *Term { return Mul(x, y) }, false)
	bigBin(e, "Quo", (*big.Int).Quo, func(fr *frame, x, y *Term) *Term { return TDiv(x, y) }, true)
	bigBin(e, "Rem", (*big.Int).Rem, func(fr *frame, x, y *Term) *Term { return TRem(x, y) }, true)
	bigBin(e, "Div", (*big.Int).Div, func(fr *frame, x, y *Term) *Term { return EDiv(x, y) }, true)
	bigBin(e, "Mod", (*big.Int).Mod, func(fr *frame, x, y *Term) *Term { return EMod(x, y) }, true)

	e.reg("(*math/big.Int).QuoRem", func(fr *frame, args []value) value {
		z := bigPtr(fr, args[0])
		x, y := bigOf(fr, args[1]), bigOf(fr, args[2])
		r := bigPtr(fr, args[3])
		if fr.p.branch(fr, eqZero(y), nil) {
			panic(targetPanic{iface{fr.p.eng.runtimeErrorString, "division by zero"}})
		}
		if x.isConc() && y.isConc() {
			q, m := new(big.Int).QuoRem(x.conc(), y.conc(), new(big.Int))
			*z, *r = bigConc(q), bigConc(m)
		} else {
			q := TDiv(x.term(), y.term())
			*z = mkBig(q)
			*r = mkBig(Sub(x.term(), Mul(y.term(), q)))
			if xt, yt := x.term(), y.term(); xt.lo != nil && xt.lo.Sign() >= 0 && yt.lo != nil && yt.lo.Sign() > 0 {
				*r = mkBig(EMod(xt, yt))
			}
		}
		return tuple{z, r}
	})
	e.reg("(*math/big.Int).DivMod", func(fr *frame, args []value) value {
		z := bigPtr(fr, args[0])
		x, y := bigOf(fr, args[1]), bigOf(fr, args[2])
		r := bigPtr(fr, args[3])
		if fr.p.branch(fr, eqZero(y), nil) {
			panic(targetPanic{iface{fr.p.eng.runtimeErrorString, "division by zero"}})
		}
		if x.isConc() && y.isConc() {
			q, m := new(big.Int).DivMod(x.conc(), y.conc(), new(big.Int))
			*z, *r = bigConc(q), bigConc(m)
		} else {
			*z = mkBig(EDiv(x.term(), y.term()))
			*r = mkBig(EMod(x.term(), y.term()))
		}
		return tuple{z, r}
	})
	un := func(name string, conc func(z, x *big.Int) *big.Int, sym func(x *Term) *Term) {
		e.reg("(*math/big.Int)."+name, func(fr *frame, args []value) value {
			z := bigPtr(fr, args[0])
			x := bigOf(fr, args[1])
			if x.isConc() {
				*z = bigConc(conc(new(big.Int), x.conc()))
			} else {
				*z = mkBig(sym(x.t))
			}
			return z
		})
	}
	un("Set", (*big.Int).Set, func(x *Term) *Term { return x })
	un("Neg", (*big.Int).Neg, Neg)
	un("Abs", (*big.Int).Abs, absTerm)

	e.reg("(*math/big.Int).SetInt64", func(fr *frame, args []value) value {
		z := bigPtr(fr, args[0])
		switch x := args[1].(type) {
		case int64:
			*z = bigConc(big.NewInt(x))
		case *Term:
			*z = bigVal{t: x}
		}
		return z
	})
	e.reg("(*math/big.Int).SetUint64", func(fr *frame, args []value) value {
		z := bigPtr(fr, args[0])
		switch x := args[1].(type) {
		case uint64:
			*z = bigConc(new(big.Int).SetUint64(x))
		case *Term:
			*z = bigVal{t: x}
		case spanByte:
			*z = bigVal{t: x.term()}
		}
		return z
	})
	e.reg("(*math/big.Int).Cmp", func(fr *frame, args []value) value {
		x, y := bigOf(fr, args[0]), bigOf(fr, args[1])
		if x.isConc() && y.isConc() {
			return int64(x.conc().Cmp(y.conc()))
		}
		r := signTerm(Sub(x.term(), y.term()))
		if r.isConst() {
			return r.ival.Int64()
		}
		// cheaper direct form
		xt, yt := x.term(), y.term()
		r = Ite(Lt(xt, yt), IntConst64(-1), Ite(Gt(xt, yt), IntConst64(1), IntConst64(0)))
		return intResult(r)
	})
	e.reg("(*math/big.Int).CmpAbs", func(fr *frame, args []value) value {
		x, y := bigOf(fr, args[0]), bigOf(fr, args[1])
		if x.isConc() && y.isConc() {
			return int64(x.conc().CmpAbs(y.conc()))
		}
		xt, yt := absTerm(x.term()), absTerm(y.term())
		return intResult(Ite(Lt(xt, yt), IntConst64(-1), Ite(Gt(xt, yt), IntConst64(1), IntConst64(0))))
	})
	e.reg("(*math/big.Int).Sign", func(fr *frame, args []value) value {
		x := bigOf(fr, args[0])
		if x.isConc() {
			return int64(x.conc().Sign())
		}
		return intResult(signTerm(x.t))
	})
	e.reg("(*math/big.Int).IsInt64", func(fr *frame, args []value) value {
		x := bigOf(fr, args[0])
		if x.isConc() {
			return x.conc().IsInt64()
		}
		return simp(And(Ge(x.t, IntConst(new(big.Int).Neg(pow2(63)))), Lt(x.t, IntConst(pow2(63)))))
	})
	e.reg("(*math/big.Int).IsUint64", func(fr *frame, args []value) value {
		x := bigOf(fr, args[0])
		if x.isConc() {
			return x.conc().IsUint64()
		}
		return simp(And(Ge(x.t, IntConst64(0)), Lt(x.t, IntConst(pow2(64)))))
	})
	e.reg("(*math/big.Int).Int64", func(fr *frame, args []value) value {
		x := bigOf(fr, args[0])
		if x.isConc() {
			return x.conc().Int64()
		}
		// low 64 bits of |x| with sign: for in-range values identity
		return intResult(WrapS(x.t, 64))
	})
	e.reg("(*math/big.Int).Uint64", func(fr *frame, args []value) value {
		x := bigOf(fr, args[0])
		if x.isConc() {
			return x.conc().Uint64()
		}
		// big.Int.Uint64 returns low 64 bits of |x|
		r := WrapU(absTerm(x.t), 64)
		if r.isConst() {
			return r.ival.Uint64()
		}
		return r
	})
	e.reg("(*math/big.Int).BitLen", func(fr *frame, args []value) value {
		x := bigOf(fr, args[0])
		if x.isConc() {
			return int64(x.conc().BitLen())
		}
		return bitLenTerm(fr, x.t)
	})
	e.reg("(*math/big.Int).Bit", func(fr *frame, args []value) value {
		x := bigOf(fr, args[0])
		i := fr.p.concretizeInt(fr, args[1], "Bit index")
		if x.isConc() {
			return uint64(x.conc().Bit(int(i)))
		}
		// two's complement bit i of x = floor(x / 2^i) mod 2
		r := EMod(EDiv(x.t, IntConst(pow2(uint(i)))), IntConst64(2))
		return r
	})
	e.reg("(*math/big.Int).Bits", func(fr *frame, args []value) value {
		x := bigOf(fr, args[0])
		if x.isConc() {
			ws := x.conc().Bits()
			out := make([]value, len(ws))
			for i, w := range ws {
				out[i] = uint64(w)
			}
			return out
		}
		abort("unmodelled", "big.Int.Bits on symbolic value (called from %s)", fr.caller.fn)
		return nil
	})
	e.reg("(*math/big.Int).String", func(fr *frame, args []value) value {
		p := args[0].(*value)
		if p == nil {
			return "<nil>"
		}
		x := (*p).(bigVal)
		if x.isConc() {
			return x.conc().String()
		}
		return decStr(x.t)
	})
	e.reg("(*math/big.Int).Text", func(fr *frame, args []value) value {
		x := bigOf(fr, args[0])
		base := args[1].(int64)
		if x.isConc() {
			return x.conc().Text(int(base))
		}
		if base == 10 {
			return decStr(x.t)
		}
		abort("unmodelled", "big.Int.Text base %d symbolic", base)
		return nil
	})
	e.reg("(*math/big.Int).SetString", func(fr *frame, args []value) value {
		z := bigPtr(fr, args[0])
		base := args[2].(int64)
		switch s := args[1].(type) {
		case string:
			v, ok := new(big.Int).SetString(s, int(base))
			if !ok {
				return tuple{(*value)(nil), false}
			}
			*z = bigConc(v)
			return tuple{z, true}
		case *SymStr:
			// decimal rendering of a single symbolic integer round-trips
			if len(s.parts) == 1 && s.parts[0].kind == "d" && (base == 10 || base == 0) {
				*z = bigVal{t: s.parts[0].t}
				return tuple{z, true}
			}
		}
		abort("unmodelled", "big.Int.SetString of symbolic string")
		return nil
	})
	e.reg("(*math/big.Int).SetBytes", func(fr *frame, args []value) value {
		z := bigPtr(fr, args[0])
		cells := args[1].([]value)
		if len(cells) == 0 {
			*z = bigConc(new(big.Int))
			return z
		}
		t := intOf(cells, 0, len(cells))
		if t.lo == nil {
			t.lo = big0
		}
		*z = mkBig(t)
		return z
	})
	e.reg("(*math/big.Int).FillBytes", func(fr *frame, args []value) value {
		x := bigOf(fr, args[0])
		buf := args[1].([]value)
		n := len(buf)
		lim := pow2(uint(8 * n))
		if x.isConc() {
			if new(big.Int).Abs(x.conc()).Cmp(lim) >= 0 {
				panic(targetPanic{iface{fr.p.eng.runtimeErrorString, "math/big: buffer too small to fit value"}})
			}
			b := x.conc().FillBytes(make([]byte, n))
			for i := range buf {
				buf[i] = uint64(b[i])
			}
			return buf
		}
		a := absTerm(x.t)
		if fr.p.branch(fr, simp(Ge(a, IntConst(lim))), nil) {
			panic(targetPanic{iface{fr.p.eng.runtimeErrorString, "math/big: buffer too small to fit value"}})
		}
		// a < 256^n on this path
		if a.hi == nil || a.hi.Cmp(lim) >= 0 {
			// bound the span term for downstream interval reasoning
			w := newTerm("+", SInt, a, IntConst64(0))
			w.lo, w.hi = big0, new(big.Int).Sub(lim, big1)
			a = w
		}
		copy(buf, beCells(a, n))
		return buf
	})
	e.reg("(*math/big.Int).Bytes", func(fr *frame, args []value) value {
		x := bigOf(fr, args[0])
		if x.isConc() {
			return bytesToCells(x.conc().Bytes())
		}
		abort("unmodelled", "big.Int.Bytes on symbolic value (variable length)")
		return nil
	})
	e.reg("(*math/big.Int).Exp", func(fr *frame, args []value) value {
		z := bigPtr(fr, args[0])
		x, y := bigOf(fr, args[1]), bigOf(fr, args[2])
		var m *big.Int
		if mp := args[3].(*value); mp != nil {
			mv := (*mp).(bigVal)
			if !mv.isConc() {
				abort("unmodelled", "big.Int.Exp symbolic modulus")
			}
			m = mv.conc()
		}
		if !y.isConc() {
			abort("unmodelled", "big.Int.Exp symbolic exponent")
		}
		if x.isConc() {
			*z = bigConc(new(big.Int).Exp(x.conc(), y.conc(), m))
			return z
		}
		if m != nil || y.conc().Sign() < 0 || y.conc().Cmp(big.NewInt(8)) > 0 {
			abort("unmodelled", "big.Int.Exp symbolic base")
		}
		r := IntConst64(1)
		for i := int64(0); i < y.conc().Int64(); i++ {
			r = Mul(r, x.t)
		}
		*z = mkBig(r)
		return z
	})
	e.reg("(*math/big.Int).Lsh", func(fr *frame, args []value) value {
		z := bigPtr(fr, args[0])
		x := bigOf(fr, args[1])
		n := uint(fr.p.concretizeInt(fr, args[2], "Lsh"))
		if x.isConc() {
			*z = bigConc(new(big.Int).Lsh(x.conc(), n))
		} else {
			*z = mkBig(Mul(x.t, IntConst(pow2(n))))
		}
		return z
	})
	e.reg("(*math/big.Int).Rsh", func(fr *frame, args []value) value {
		z := bigPtr(fr, args[0])
		x := bigOf(fr, args[1])
		n := uint(fr.p.concretizeInt(fr, args[2], "Rsh"))
		if x.isConc() {
			*z = bigConc(new(big.Int).Rsh(x.conc(), n))
		} else {
			*z = mkBig(EDiv(x.t, IntConst(pow2(n))))
		}
		return z
	})
	e.reg("(*math/big.Int).Sqrt", func(fr *frame, args []value) value {
		z := bigPtr(fr, args[0])
		x := bigOf(fr, args[1])
		if x.isConc() {
			*z = bigConc(new(big.Int).Sqrt(x.conc()))
			return z
		}
		abort("unmodelled", "big.Int.Sqrt symbolic")
		return nil
	})
	e.reg("(*math/big.Int).MarshalText", func(fr *frame, args []value) value {
		p := args[0].(*value)
		if p == nil {
			return tuple{stringCells("<nil>"), iface{}}
		}
		x := (*p).(bigVal)
		if x.isConc() {
			return tuple{stringCells(x.conc().String()), iface{}}
		}
		return tuple{[]value{blobByte{kind: "bigtext", key: x.t}}, iface{}}
	})
	e.reg("(*math/big.Int).UnmarshalText", func(fr *frame, args []value) value {
		z := bigPtr(fr, args[0])
		cells := args[1].([]value)
		if b, ok := hasBlob(cells); ok && b.kind == "bigtext" {
			*z = bigVal{t: b.key}
			return iface{}
		}
		s, ok := cellsToString(cells).(string)
		if !ok {
			abort("unmodelled", "big.Int.UnmarshalText symbolic")
		}
		v, ok := new(big.Int).SetString(s, 0)
		if !ok {
			return fmtErrorf(fr, "math/big: cannot unmarshal %q into a *big.Int", []value{iface{t: nil}})
		}
		*z = bigConc(v)
		return iface{}
	})
	e.reg("(*math/big.Int).Float64", func(fr *frame, args []value) value {
		x := bigOf(fr, args[0])
		if x.isConc() {
			f, acc := x.conc().Float64()
			return tuple{f, int64(acc)}
		}
		abort("unmodelled", "big.Int.Float64 symbolic")
		return nil
	})

	// cosmossdk.io/math helpers that look at the word representation
	e.reg("cosmossdk.io/math.bigIntOverflows", func(fr *frame, args []value) value {
		x := bigOf(fr, args[0])
		lim := pow2(256)
		if x.isConc() {
			return x.conc().BitLen() > 256
		}
		return simp(Ge(absTerm(x.t), IntConst(lim)))
	})
	e.reg("cosmossdk.io/math.UintOverflow", func(fr *frame, args []value) value {
		x := bigOf(fr, args[0])
		if x.isConc() {
			return x.conc().Sign() < 0 || x.conc().BitLen() > 256
		}
		return simp(Or(Lt(x.t, IntConst64(0)), Ge(x.t, IntConst(pow2(256)))))
	})

	// LegacyDec → float64 / text
	decRaw := func(fr *frame, v value) bigVal {
		ptr, _ := v.(structure)[0].(*value)
		if ptr == nil {
			rtPanic(fr, "invalid memory address or nil pointer dereference (nil LegacyDec)")
		}
		return (*ptr).(bigVal)
	}
	decFloat := func(fr *frame, v value) value {
		raw := decRaw(fr, v)
		if raw.isConc() {
			f, _ := new(big.Float).Quo(new(big.Float).SetInt(raw.conc()), new(big.Float).SetInt(new(big.Int).Exp(big.NewInt(10), big.NewInt(18), nil))).Float64()
			return f
		}
		return fr.p.fround(Op("/", SReal, ToReal(raw.t), RealConst("1000000000000000000.0")))
	}
	e.reg("(cosmossdk.io/math.LegacyDec).MustFloat64", func(fr *frame, args []value) value { return decFloat(fr, args[0]) })
	e.reg("(cosmossdk.io/math.LegacyDec).Float64", func(fr *frame, args []value) value {
		return tuple{decFloat(fr, args[0]), iface{}}
	})
	e.reg("(cosmossdk.io/math.LegacyDec).String", func(fr *frame, args []value) value {
		ptr, _ := args[0].(structure)[0].(*value)
		if ptr == nil {
			return "<nil>"
		}
		raw := (*ptr).(bigVal)
		if raw.isConc() {
			// 18 decimal places, as LegacyDec.String prints
			v := raw.conc()
			neg := v.Sign() < 0
			a := new(big.Int).Abs(v).String()
			for len(a) < 19 {
				a = "0" + a
			}
			out := a[:len(a)-18] + "." + a[len(a)-18:]
			if neg {
				out = "-" + out
			}
			return out
		}
		return &SymStr{parts: []strPart{{kind: "s", t: App("decstr", SStr, raw.t)}}}
	})

	// big.Rat (fractions): num/den with den > 0, normalised only when concrete
	e.reg("(*math/big.Rat).SetString", func(fr *frame, args []value) value {
		z := args[0].(*value)
		switch s := args[1].(type) {
		case string:
			r, ok := new(big.Rat).SetString(s)
			if !ok {
				return tuple{(*value)(nil), false}
			}
			*z = ratVal{num: bigConc(new(big.Int).Set(r.Num())), den: bigConc(new(big.Int).Set(r.Denom()))}
			return tuple{z, true}
		case *SymStr:
			// "n/d" with symbolic decimal parts: models.SymRate builds exactly this
			if len(s.parts) == 3 && s.parts[0].kind == "d" && s.parts[1].kind == "" && s.parts[1].s == "/" && s.parts[2].kind == "d" {
				n, d := s.parts[0].t, s.parts[2].t
				if fr.p.branch(fr, simp(Eq(d, IntConst64(0))), nil) {
					return tuple{(*value)(nil), false}
				}
				*z = ratVal{num: bigVal{t: n}, den: bigVal{t: d}, unnorm: true}
				return tuple{z, true}
			}
		}
		if ss, ok := args[1].(*SymStr); ok && len(ss.parts) == 2 && ss.parts[0].kind == "d" && ss.parts[1].kind == "" && strings.HasPrefix(ss.parts[1].s, "/") {
			// "n/<digits>": symbolic numerator, concrete denominator
			if d, ok := new(big.Int).SetString(ss.parts[1].s[1:], 10); ok && d.Sign() > 0 {
				*z = ratVal{num: bigVal{t: ss.parts[0].t}, den: bigConc(d), unnorm: true}
				return tuple{z, true}
			}
		}
		if ss, ok := args[1].(*SymStr); ok && len(ss.parts) == 1 && ss.parts[0].kind == "s" && ss.parts[0].t.op == "app" && ss.parts[0].t.name == "ratfix" {
			// the fixed-point rendering FloatString produced: value q / 10^prec
			q, prec := ss.parts[0].t.args[0], ss.parts[0].t.args[1]
			d := new(big.Int).Exp(big.NewInt(10), prec.ival, nil)
			*z = ratVal{num: mkBig(q), den: bigConc(d), unnorm: true}
			return tuple{z, true}
		}
		abort("unmodelled", "big.Rat.SetString of symbolic string")
		return nil
	})
	// FloatString(prec): x rounded half away from zero to prec decimal digits.
	// For a symbolic fraction the text is opaque; its value round(x*10^prec)/10^prec
	// is what a later SetString recovers.
	e.reg("(*math/big.Rat).FloatString", func(fr *frame, args []value) value {
		r := (*args[0].(*value)).(ratVal)
		prec, ok := args[1].(int64)
		if !ok || prec < 0 {
			abort("unmodelled", "big.Rat.FloatString with symbolic precision")
		}
		if r.num.isConc() && r.den.isConc() {
			return new(big.Rat).SetFrac(r.num.conc(), r.den.conc()).FloatString(int(prec))
		}
		scale := IntConst(new(big.Int).Exp(big.NewInt(10), big.NewInt(prec), nil))
		n, d := r.num.term(), r.den.term() // d > 0
		neg := Lt(n, IntConst64(0))
		an := Ite(neg, Neg(n), n)
		scaled := Mul(an, scale)
		q := EDiv(scaled, d)
		rem := EMod(scaled, d)
		q = Ite(Ge(Mul(IntConst64(2), rem), d), Add(q, IntConst64(1)), q)
		q = Ite(neg, Neg(q), q)
		return &SymStr{parts: []strPart{{kind: "s", t: App("ratfix", SStr, q, IntConst64(prec))}}}
	})
	e.reg("(*math/big.Rat).Num", func(fr *frame, args []value) value {
		r := (*args[0].(*value)).(ratVal)
		return newBigCell(r.num)
	})
	e.reg("(*math/big.Rat).Denom", func(fr *frame, args []value) value {
		r := (*args[0].(*value)).(ratVal)
		return newBigCell(r.den)
	})
	e.reg("(*math/big.Rat).Sign", func(fr *frame, args []value) value {
		r := (*args[0].(*value)).(ratVal)
		if r.num.isConc() {
			return int64(r.num.conc().Sign())
		}
		return intResult(signTerm(r.num.t))
	})
	e.reg("(*math/big.Rat).Cmp", func(fr *frame, args []value) value {
		a := (*args[0].(*value)).(ratVal)
		b := (*args[1].(*value)).(ratVal)
		// a.n/a.d ? b.n/b.d  with positive denominators
		l := Mul(a.num.term(), b.den.term())
		r := Mul(b.num.term(), a.den.term())
		return intResult(Ite(Lt(l, r), IntConst64(-1), Ite(Gt(l, r), IntConst64(1), IntConst64(0))))
	})
	e.reg("math/big.NewRat", func(fr *frame, args []value) value {
		a, ok1 := args[0].(int64)
		b, ok2 := args[1].(int64)
		if !ok1 || !ok2 {
			abort("unmodelled", "big.NewRat symbolic")
		}
		if b == 0 {
			panic(targetPanic{iface{fr.p.eng.runtimeErrorString, "division by zero"}})
		}
		r := big.NewRat(a, b)
		var c value = ratVal{num: bigConc(new(big.Int).Set(r.Num())), den: bigConc(new(big.Int).Set(r.Denom()))}
		return &c
	})
	e.reg("(*math/big.Rat).String", func(fr *frame, args []value) value {
		r := (*args[0].(*value)).(ratVal)
		if r.num.isConc() && r.den.isConc() {
			return new(big.Rat).SetFrac(r.num.conc(), r.den.conc()).String()
		}
		return concatStr(concatStr(decStr(r.num.term()), "/"), decStr(r.den.term()))
	})
}

func bytesToCells(b []byte) []value {
	out := make([]value, len(b))
	for i, c := range b {
		out[i] = uint64(c)
	}
	return out
}

// bitLenTerm returns a term for BitLen(x) constrained at the thresholds that
// occur in the code base (sound: bitlen ≥ k+1 ⇔ |x| ≥ 2^k holds for every k;
// only finitely many instances are asserted).
func bitLenTerm(fr *frame, x *Term) value {
	fr.p.floatVars++
	n := VarRange(fmt.Sprintf("bitlen!%d", fr.p.floatVars), big0, nil)
	a := absTerm(x)
	var cs []*Term
	cs = append(cs, Eq(Eq(n, IntConst64(0)), Eq(a, IntConst64(0))))
	for _, k := range []uint{1, 8, 16, 31, 32, 63, 64, 127, 128, 255, 256, 257, 315, 316, 512} {
		cs = append(cs, Eq(Ge(n, IntConst64(int64(k)+1)), Ge(a, IntConst(pow2(k)))))
	}
	fr.p.assume(And(cs...))
	return n
}
