package main

import (
	"encoding/json"
	"fmt"
	"os"
	"path/filepath"
	"sort"
	"strings"
)

// cmdSelftest validates the interpreter against a corpus of small Go
// functions with known outcomes (which assertions are violated, which hold).
func cmdSelftest(args []string) int {
	verif := "/verif"
	dir := filepath.Join(verif, "engine", "selftest")
	b, err := os.ReadFile(filepath.Join(dir, "expected.json"))
	if err != nil {
		fmt.Fprintln(os.Stderr, err)
		return 2
	}
	var exp map[string][]string
	if err := json.Unmarshal(b, &exp); err != nil {
		fmt.Fprintln(os.Stderr, err)
		return 2
	}
	ov, err := overlayFor(dir, nil, verif)
	if err != nil {
		fmt.Fprintln(os.Stderr, err)
		return 2
	}
	// only the sym package is needed by the corpus
	for k := range ov {
		if strings.Contains(k, "/zzverif/models/") {
			delete(ov, k)
		}
	}
	e, err := LoadEngine(dir, []string{"./corpus"}, ov)
	if err != nil {
		fmt.Fprintln(os.Stderr, "selftest load:", err)
		return 2
	}
	var names []string
	for n := range exp {
		names = append(names, n)
	}
	sort.Strings(names)
	fail := 0
	for _, n := range names {
		fn, err := findFunc(e, "zzselftest/corpus."+n)
		if err != nil {
			fmt.Fprintln(os.Stderr, err)
			fail++
			continue
		}
		ex := NewExplorer(e, fn)
		ex.workers = 4
		res := ex.Run()
		var got []string
		for l, a := range res.Asserts {
			if a.Violated > 0 {
				got = append(got, l)
			}
		}
		sort.Strings(got)
		want := append([]string{}, exp[n]...)
		sort.Strings(want)
		bad := strings.Join(got, ",") != strings.Join(want, ",")
		for k, c := range res.Aborted {
			if k != "infeasible" && c > 0 {
				bad = true
			}
		}
		if bad {
			fail++
			fmt.Printf("selftest FAIL %s: violated=%v want=%v aborted=%v\n%s", n, got, want, res.Aborted, res.Summary())
		}
	}
	fmt.Printf("selftest: %d cases, %d failed\n", len(names), fail)
	if fail > 0 {
		return 1
	}
	return 0
}
