package main

import (
	"bufio"
	"fmt"
	"io"
	"math/big"
	"os"
	"os/exec"
	"strings"
	"time"
)

// Solver wraps one long-lived SMT solver process (z3 -in by default).
type Solver struct {
	cmd     *exec.Cmd
	in      io.WriteCloser
	out     *bufio.Reader
	em      *emitter
	bin     string
	args    []string
	timeout int // ms per query
	log     *os.File
	pending bool
	killed  bool

	// statistics
	queries  int
	nSat     int
	nUnsat   int
	nUnknown int
	nErrors  int
	solveT   time.Duration
}

type SatResult int

const (
	Unsat SatResult = iota
	Sat
	Unknown
)

func (r SatResult) String() string { return [...]string{"unsat", "sat", "unknown"}[r] }

func solverCommand(kind string) (string, []string) {
	switch kind {
	case "z3-new":
		return "z3-new", []string{"-in"}
	case "cvc5":
		return "cvc5", []string{"--incremental", "--lang=smt2", "--produce-models", "--strings-exp"}
	default:
		return "z3", []string{"-in"}
	}
}

func NewSolver(kind string, timeoutMs int) (*Solver, error) {
	bin, args := solverCommand(kind)
	s := &Solver{bin: bin, args: args, timeout: timeoutMs}
	if p := os.Getenv("GOSYM_SMTLOG"); p != "" {
		f, _ := os.OpenFile(fmt.Sprintf("%s.%d", p, time.Now().UnixNano()), os.O_CREATE|os.O_WRONLY|os.O_TRUNC, 0o644)
		s.log = f
	}
	if err := s.start(); err != nil {
		return nil, err
	}
	return s, nil
}

func (s *Solver) start() error {
	s.cmd = exec.Command(s.bin, s.args...)
	in, err := s.cmd.StdinPipe()
	if err != nil {
		return err
	}
	out, err := s.cmd.StdoutPipe()
	if err != nil {
		return err
	}
	s.cmd.Stderr = nil
	if err := s.cmd.Start(); err != nil {
		return err
	}
	s.in = in
	s.out = bufio.NewReaderSize(out, 1<<16)
	s.em = newEmitter()
	s.prelude()
	return nil
}

func (s *Solver) prelude() {
	if s.bin == "cvc5" {
		s.send("(set-logic ALL)\n")
		s.send(fmt.Sprintf("(set-option :tlimit-per %d)\n", s.timeout))
	} else {
		s.send(fmt.Sprintf("(set-option :timeout %d)\n", s.timeout))
	}
}

func (s *Solver) send(txt string) {
	if s.log != nil {
		s.log.WriteString(txt)
	}
	io.WriteString(s.in, txt)
}

func (s *Solver) Close() {
	if s.cmd != nil {
		s.in.Close()
		s.cmd.Process.Kill()
		s.cmd.Wait()
		s.cmd = nil
	}
	if s.log != nil {
		s.log.Close()
	}
}

func (s *Solver) restart() {
	if s.cmd != nil {
		s.in.Close()
		s.cmd.Process.Kill()
		s.cmd.Wait()
	}
	s.start()
}

// Reset starts a fresh path.
func (s *Solver) Reset() {
	s.send("(reset)\n")
	s.em = newEmitter()
	s.prelude()
}

// Declare makes sure a variable is declared in the solver.
func (s *Solver) Declare(t *Term) {
	s.em.define(t)
	s.send(s.em.flush())
}

// Assert adds a permanent (for this path) constraint.
func (s *Solver) Assert(t *Term) {
	if t.isConst() && t.bval {
		return
	}
	s.em.define(t)
	s.send(s.em.flush())
	s.send("(assert " + s.em.ref(t) + ")\n")
}

type lineRes struct {
	line string
	err  error
}

// readLine reads one line of solver output. A watchdog kills a solver that
// ignores its own timeout (z3's nonlinear engines sometimes do); the caller
// then sees an error and the path is abandoned as inconclusive.
func (s *Solver) readLine() (string, error) {
	ch := make(chan lineRes, 1)
	out := s.out
	go func() {
		line, err := out.ReadString('\n')
		ch <- lineRes{strings.TrimSpace(line), err}
	}()
	limit := time.Duration(2*s.timeout+5000) * time.Millisecond
	select {
	case r := <-ch:
		return r.line, r.err
	case <-time.After(limit):
		s.killed = true
		if s.cmd != nil && s.cmd.Process != nil {
			s.cmd.Process.Kill()
		}
		<-ch
		return "", fmt.Errorf("solver watchdog: no answer within %v", limit)
	}
}

// Check returns satisfiability of PC ∧ extra (extra may be nil).
func (s *Solver) Check(extra *Term) SatResult {
	s.queries++
	start := time.Now()
	defer func() {
		d := time.Since(start)
		s.solveT += d
		if d > 2*time.Second && os.Getenv("GOSYM_SLOWQ") != "" {
			sz := 0
			if extra != nil {
				sz = extra.size
			}
			fmt.Fprintf(os.Stderr, "[slow query] %.1fs extra-size=%d %s\n", d.Seconds(), sz, func() string {
				if extra != nil {
					return extra.String()
				}
				return ""
			}())
		}
	}()
	if extra != nil {
		if extra.isConst() {
			if !extra.bval {
				s.nUnsat++
				return Unsat
			}
			extra = nil
		}
	}
	if extra != nil {
		s.em.define(extra)
		s.send(s.em.flush())
		s.send("(push 1)\n(assert " + s.em.ref(extra) + ")\n")
	}
	s.send("(check-sat)\n")
	res := Unknown
	line, err := s.readLine()
	for err == nil && line == "" {
		line, err = s.readLine()
	}
	if err != nil {
		s.nErrors++
		s.restart()
		s.nUnknown++
		// the solver context is gone: the current path cannot be continued soundly
		panic(pathAbort{kind: "solver", msg: "solver died or ignored its timeout: " + err.Error()})
	}
	switch {
	case line == "sat":
		res = Sat
	case line == "unsat":
		res = Unsat
	case line == "unknown" || line == "timeout":
		res = Unknown
	default:
		// an (error ...) line or anything unexpected: inconclusive
		s.nErrors++
		fmt.Fprintf(os.Stderr, "solver: unexpected output %q\n", line)
		res = Unknown
	}
	if extra != nil && res != Sat {
		s.send("(pop 1)\n")
	}
	// if Sat with extra, caller may want a model: leave pushed; caller must call PopModel.
	switch res {
	case Sat:
		s.nSat++
	case Unsat:
		s.nUnsat++
	default:
		s.nUnknown++
	}
	if extra != nil && res == Sat {
		s.pending = true
		s.em.journal = true
	}
	return res
}

// Model returns values for the given variables; must follow a Sat Check.
func (s *Solver) Model(vars []*Term) map[string]string {
	res := map[string]string{}
	if len(vars) == 0 {
		return res
	}
	var sb strings.Builder
	sb.WriteString("(get-value (")
	for _, v := range vars {
		sb.WriteString(v.name + " ")
	}
	sb.WriteString("))\n")
	s.send(sb.String())
	// read balanced s-expression
	txt := s.readSexp()
	parseModel(txt, res)
	return res
}

// EvalInt asks for the model value of an Int term (after Sat).
func (s *Solver) EvalInt(t *Term) (*big.Int, bool) {
	if t.isConst() {
		return t.ival, true
	}
	s.em.define(t)
	defs := s.em.flush()
	if defs != "" {
		// new definitions invalidate the model in some solvers; re-check.
		s.send(defs)
		s.send("(check-sat)\n")
		l, _ := s.readLine()
		if l != "sat" {
			return nil, false
		}
	}
	s.send("(get-value (" + s.em.ref(t) + "))\n")
	txt := s.readSexp()
	m := map[string]string{}
	parseModel(txt, m)
	for _, v := range m {
		b, ok := new(big.Int).SetString(v, 10)
		return b, ok
	}
	return nil, false
}

// Done releases the scope kept after a Sat Check(extra).
func (s *Solver) Done() {
	if s.pending {
		s.send("(pop 1)\n")
		s.pending = false
		s.em.rollback()
	}
}

func (s *Solver) readSexp() string {
	var sb strings.Builder
	depth := 0
	started := false
	inStr := false
	for {
		r, _, err := s.out.ReadRune()
		if err != nil {
			break
		}
		sb.WriteRune(r)
		if inStr {
			if r == '"' {
				inStr = false
			}
			continue
		}
		switch r {
		case '"':
			inStr = true
		case '(':
			depth++
			started = true
		case ')':
			depth--
		}
		if started && depth == 0 {
			break
		}
	}
	return sb.String()
}

// parseModel parses "((x 1) (y (- 2)) (b true) (r (/ 1.0 3.0)))".
func parseModel(txt string, into map[string]string) {
	toks := tokenize(txt)
	pos := 0
	var parse func() interface{}
	parse = func() interface{} {
		if pos >= len(toks) {
			return nil
		}
		t := toks[pos]
		pos++
		if t == "(" {
			var lst []interface{}
			for pos < len(toks) && toks[pos] != ")" {
				lst = append(lst, parse())
			}
			pos++
			return lst
		}
		return t
	}
	root, _ := parse().([]interface{})
	for _, e := range root {
		pair, ok := e.([]interface{})
		if !ok || len(pair) != 2 {
			continue
		}
		name := sexpString(pair[0])
		into[name] = evalSexp(pair[1])
	}
}

func sexpString(x interface{}) string {
	switch x := x.(type) {
	case string:
		return x
	case []interface{}:
		var parts []string
		for _, e := range x {
			parts = append(parts, sexpString(e))
		}
		return "(" + strings.Join(parts, " ") + ")"
	}
	return ""
}

func unquoteSMT(s string) string {
	s = s[1 : len(s)-1]
	s = strings.ReplaceAll(s, "\"\"", "\"")
	var sb strings.Builder
	for i := 0; i < len(s); i++ {
		if s[i] == '\\' && i+2 < len(s) && s[i+1] == 'u' && s[i+2] == '{' {
			j := strings.IndexByte(s[i:], '}')
			if j > 0 {
				var v int
				fmt.Sscanf(s[i+3:i+j], "%x", &v)
				sb.WriteByte(byte(v))
				i += j
				continue
			}
		}
		if s[i] == '\\' && i+1 < len(s) && s[i+1] == 'x' && i+3 < len(s) {
			var v int
			fmt.Sscanf(s[i+2:i+4], "%x", &v)
			sb.WriteByte(byte(v))
			i += 3
			continue
		}
		sb.WriteByte(s[i])
	}
	return sb.String()
}

func evalSexp(x interface{}) string {
	switch x := x.(type) {
	case string:
		if len(x) >= 2 && x[0] == '"' {
			return unquoteSMT(x)
		}
		return x
	case []interface{}:
		if len(x) == 2 && x[0] == "-" {
			v := evalSexp(x[1])
			if strings.HasPrefix(v, "-") {
				return v[1:]
			}
			return "-" + v
		}
		if len(x) == 3 && x[0] == "/" {
			return evalSexp(x[1]) + "/" + evalSexp(x[2])
		}
		return sexpString(x)
	}
	return ""
}

func tokenize(s string) []string {
	var toks []string
	i := 0
	for i < len(s) {
		c := s[i]
		switch {
		case c == '(' || c == ')':
			toks = append(toks, string(c))
			i++
		case c == ' ' || c == '\n' || c == '\t' || c == '\r':
			i++
		case c == '"':
			j := i + 1
			for j < len(s) {
				if s[j] == '"' {
					if j+1 < len(s) && s[j+1] == '"' {
						j += 2
						continue
					}
					break
				}
				j++
			}
			toks = append(toks, s[i:j+1])
			i = j + 1
		default:
			j := i
			for j < len(s) && !strings.ContainsRune("() \n\t\r", rune(s[j])) {
				j++
			}
			toks = append(toks, s[i:j])
			i = j
		}
	}
	return toks
}
