package main

import (
	"go/types"
)

// go-ethereum core/types: transactions and receipts.
//
// NewTx and the accessors run from SSA. The RLP layer is replaced:
//   - Transaction.Hash is a collision-free digest of (nonce, call data)
//     — the only fields the harnesses vary;
//   - MarshalBinary yields one opaque blob holding a snapshot of the value,
//     UnmarshalBinary restores it (bytes that are not such a blob do not
//     decode). Receipts keep all fields on the round trip (the real encoding
//     keeps status, cumulative gas, bloom and logs).

const ethTypesPkg = "github.com/ethereum/go-ethereum/core/types"

func registerEthTx(e *Engine) {
	if e.pkg(ethTypesPkg) == nil {
		return
	}
	txT := func() types.Type { return e.namedType(ethTypesPkg, "Transaction") }
	innerOf := func(fr *frame, txp value) structure {
		p, _ := txp.(*value)
		if p == nil {
			rtPanic(fr, "invalid memory address or nil pointer dereference")
		}
		st := (*p).(structure)
		in, _ := st[fieldIndex(txT(), "inner")].(iface)
		ip, _ := in.v.(*value)
		if ip == nil {
			rtPanic(fr, "invalid memory address or nil pointer dereference")
		}
		return (*ip).(structure)
	}
	e.reg("(*"+ethTypesPkg+".Transaction).Hash", func(fr *frame, args []value) value {
		p := args[0].(*value)
		if p == nil {
			rtPanic(fr, "invalid memory address or nil pointer dereference")
		}
		st := (*p).(structure)
		in, _ := st[fieldIndex(txT(), "inner")].(iface)
		if in.t == nil {
			rtPanic(fr, "invalid memory address or nil pointer dereference")
		}
		inner := innerOf(fr, args[0])
		it := derefType(in.t)
		var cells []value
		if i := fieldIndexOpt(it, "Nonce"); i >= 0 {
			t, _ := toTerm(inner[i])
			cells = append(cells, beCells(t, 8)...)
		}
		if i := fieldIndexOpt(it, "Data"); i >= 0 {
			d, _ := inner[i].([]value)
			cells = append(cells, d...)
		}
		return array(hashCells(fr, "ethtx", 32, cells, keccak256))
	})
	e.reg("(*"+ethTypesPkg+".Transaction).MarshalBinary", func(fr *frame, args []value) value {
		p := args[0].(*value)
		if p == nil {
			rtPanic(fr, "invalid memory address or nil pointer dereference")
		}
		st := (*p).(structure)
		in := st[fieldIndex(txT(), "inner")]
		return tuple{[]value{blobByte{kind: "ethtx", v: deepCopy(in, map[*value]*value{})}}, nilErr()}
	})
	e.reg("(*"+ethTypesPkg+".Transaction).UnmarshalBinary", func(fr *frame, args []value) value {
		p := args[0].(*value)
		cells, _ := args[1].([]value)
		if len(cells) == 1 {
			if b, ok := cells[0].(blobByte); ok && b.kind == "ethtx" {
				st := append(structure(nil), (*p).(structure)...)
				st[fieldIndex(txT(), "inner")] = deepCopy(b.v, map[*value]*value{})
				*p = st
				return nilErr()
			}
		}
		return errValue(fr, "rlp: input is not a transaction")
	})
	rcT := func() types.Type { return e.namedType(ethTypesPkg, "Receipt") }
	e.reg("(*"+ethTypesPkg+".Receipt).MarshalBinary", func(fr *frame, args []value) value {
		p := args[0].(*value)
		if p == nil {
			rtPanic(fr, "invalid memory address or nil pointer dereference")
		}
		return tuple{[]value{blobByte{kind: "ethreceipt", v: deepCopy(*p, map[*value]*value{})}}, nilErr()}
	})
	e.reg("(*"+ethTypesPkg+".Receipt).UnmarshalBinary", func(fr *frame, args []value) value {
		p := args[0].(*value)
		cells, _ := args[1].([]value)
		if len(cells) == 1 {
			if b, ok := cells[0].(blobByte); ok && b.kind == "ethreceipt" {
				*p = deepCopy(b.v, map[*value]*value{})
				return nilErr()
			}
		}
		return errValue(fr, "rlp: input is not a receipt")
	})
	_ = rcT
}

func fieldIndexOpt(t types.Type, name string) int {
	st, ok := t.Underlying().(*types.Struct)
	if !ok {
		return -1
	}
	for i := 0; i < st.NumFields(); i++ {
		if st.Field(i).Name() == name {
			return i
		}
	}
	return -1
}
