package main

import (
	"regexp"
)

type hostRegexp struct{ re *regexp.Regexp }

func registerRegexp(e *Engine) {
	compile := func(must bool) intrinsic {
		return func(fr *frame, args []value) value {
			s, ok := args[0].(string)
			if !ok {
				abort("unmodelled", "regexp.Compile of symbolic pattern")
			}
			re, err := regexp.Compile(s)
			if err != nil {
				if must {
					panic(targetPanic{errValue(fr, "regexp: Compile(%q): %s", s, err.Error())})
				}
				return tuple{(*value)(nil), errValue(fr, "%s", err.Error())}
			}
			var cell value = hostRegexp{re}
			if must {
				return &cell
			}
			return tuple{&cell, nilErr()}
		}
	}
	e.reg("regexp.MustCompile", compile(true))
	e.reg("regexp.Compile", compile(false))
	get := func(fr *frame, v value) *regexp.Regexp {
		p := v.(*value)
		if p == nil {
			rtPanic(fr, "invalid memory address or nil pointer dereference (nil *regexp.Regexp)")
		}
		h, ok := (*p).(hostRegexp)
		if !ok {
			abort("unmodelled", "regexp object not built by the engine")
		}
		return h.re
	}
	str := func(fr *frame, v value) string {
		s, ok := v.(string)
		if !ok {
			abort("unmodelled", "regexp match on symbolic string (called from %s)", fr.caller.fn)
		}
		return s
	}
	m := "(*regexp.Regexp)."
	e.reg(m+"MatchString", func(fr *frame, args []value) value { return get(fr, args[0]).MatchString(str(fr, args[1])) })
	e.reg(m+"Match", func(fr *frame, args []value) value {
		b, ok := concBytes(args[1].([]value))
		if !ok {
			abort("unmodelled", "regexp match on symbolic bytes")
		}
		return get(fr, args[0]).Match(b)
	})
	e.reg(m+"String", func(fr *frame, args []value) value { return get(fr, args[0]).String() })
	strs := func(ss []string) value {
		if ss == nil {
			return []value(nil)
		}
		out := make([]value, len(ss))
		for i, s := range ss {
			out[i] = s
		}
		return out
	}
	e.reg(m+"FindStringSubmatch", func(fr *frame, args []value) value {
		return strs(get(fr, args[0]).FindStringSubmatch(str(fr, args[1])))
	})
	e.reg(m+"FindString", func(fr *frame, args []value) value {
		return get(fr, args[0]).FindString(str(fr, args[1]))
	})
	e.reg(m+"FindAllString", func(fr *frame, args []value) value {
		return strs(get(fr, args[0]).FindAllString(str(fr, args[1]), int(args[2].(int64))))
	})
	e.reg(m+"FindAllStringSubmatch", func(fr *frame, args []value) value {
		res := get(fr, args[0]).FindAllStringSubmatch(str(fr, args[1]), int(args[2].(int64)))
		if res == nil {
			return []value(nil)
		}
		out := make([]value, len(res))
		for i, r := range res {
			out[i] = strs(r)
		}
		return out
	})
	e.reg(m+"ReplaceAllString", func(fr *frame, args []value) value {
		return get(fr, args[0]).ReplaceAllString(str(fr, args[1]), str(fr, args[2]))
	})
	e.reg(m+"SubexpNames", func(fr *frame, args []value) value { return strs(get(fr, args[0]).SubexpNames()) })
	e.reg(m+"NumSubexp", func(fr *frame, args []value) value { return int64(get(fr, args[0]).NumSubexp()) })
	e.reg("regexp.MatchString", func(fr *frame, args []value) value {
		ok, err := regexp.MatchString(str(fr, args[0]), str(fr, args[1]))
		if err != nil {
			return tuple{false, errValue(fr, "%s", err.Error())}
		}
		return tuple{ok, nilErr()}
	})
	e.reg("regexp.QuoteMeta", func(fr *frame, args []value) value { return regexp.QuoteMeta(str(fr, args[0])) })

	// sync.Pool without pooling
	e.reg("(*sync.Pool).Get", func(fr *frame, args []value) value {
		p := (*args[0].(*value)).(structure)
		newFn := p[len(p)-1]
		if isNilFunc(newFn) {
			return iface{}
		}
		return call(fr, fr.callpos, newFn, nil)
	})
	e.reg("(*sync.Pool).Put", nop)
}
