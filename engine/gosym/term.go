package main

// SMT term DAG with constant folding and a light interval analysis.
// Sorts: Int (unbounded), Bool, Real, Str (SMT strings), and uninterpreted sort U.

import (
	"fmt"
	"math/big"
	"sort"
	"strings"
	"sync/atomic"
)

type Sort int

const (
	SInt Sort = iota
	SBool
	SReal
	SStr
)

func (s Sort) String() string {
	switch s {
	case SInt:
		return "Int"
	case SBool:
		return "Bool"
	case SReal:
		return "Real"
	case SStr:
		return "String"
	}
	return "?"
}

type Term struct {
	id   int64
	op   string // "const", "var", or SMT operator
	args []*Term
	sort Sort
	ival *big.Int // for Int const
	bval bool     // for Bool const
	name string   // var name / real literal / string literal / uf name
	lo   *big.Int // interval for Int terms; nil = unbounded
	hi   *big.Int
	size int // number of nodes (approx, tree size capped)
}

var termCounter int64

func newTerm(op string, sort Sort, args ...*Term) *Term {
	t := &Term{id: atomic.AddInt64(&termCounter, 1), op: op, sort: sort, args: args}
	sz := 1
	for _, a := range args {
		sz += a.size
		if sz > 1<<30 {
			sz = 1 << 30
		}
	}
	t.size = sz
	return t
}

func (t *Term) isConst() bool { return t.op == "const" }

var (
	big0   = big.NewInt(0)
	big1   = big.NewInt(1)
	bigM1  = big.NewInt(-1)
	tTrue  = &Term{id: -1, op: "const", sort: SBool, bval: true, size: 1}
	tFalse = &Term{id: -2, op: "const", sort: SBool, bval: false, size: 1}
)

func pow2(n uint) *big.Int { return new(big.Int).Lsh(big1, n) }

func IntConst(v *big.Int) *Term {
	t := newTerm("const", SInt)
	t.ival = new(big.Int).Set(v)
	t.lo, t.hi = t.ival, t.ival
	return t
}
func IntConst64(v int64) *Term   { return IntConst(big.NewInt(v)) }
func IntConstU64(v uint64) *Term { return IntConst(new(big.Int).SetUint64(v)) }
func BoolConst(b bool) *Term {
	if b {
		return tTrue
	}
	return tFalse
}
func RealConst(lit string) *Term {
	t := newTerm("const", SReal)
	t.name = lit
	return t
}
func StrConst(s string) *Term {
	t := newTerm("const", SStr)
	t.name = s
	return t
}

func Var(name string, s Sort) *Term {
	t := newTerm("var", s)
	t.name = name
	return t
}

func VarRange(name string, lo, hi *big.Int) *Term {
	t := Var(name, SInt)
	t.lo, t.hi = lo, hi
	return t
}

func addB(a, b *big.Int) *big.Int {
	if a == nil || b == nil {
		return nil
	}
	return new(big.Int).Add(a, b)
}
func subB(a, b *big.Int) *big.Int {
	if a == nil || b == nil {
		return nil
	}
	return new(big.Int).Sub(a, b)
}
func minB(a, b *big.Int) *big.Int {
	if a == nil || b == nil {
		return nil
	}
	if a.Cmp(b) <= 0 {
		return a
	}
	return b
}
func maxB(a, b *big.Int) *big.Int {
	if a == nil || b == nil {
		return nil
	}
	if a.Cmp(b) >= 0 {
		return a
	}
	return b
}

func Add(a, b *Term) *Term {
	if a.isConst() && b.isConst() {
		return IntConst(new(big.Int).Add(a.ival, b.ival))
	}
	if a.isConst() && a.ival.Sign() == 0 {
		return b
	}
	if b.isConst() && b.ival.Sign() == 0 {
		return a
	}
	t := newTerm("+", SInt, a, b)
	t.lo, t.hi = addB(a.lo, b.lo), addB(a.hi, b.hi)
	return t
}

func Sub(a, b *Term) *Term {
	if a.isConst() && b.isConst() {
		return IntConst(new(big.Int).Sub(a.ival, b.ival))
	}
	if b.isConst() && b.ival.Sign() == 0 {
		return a
	}
	if a == b {
		return IntConst64(0)
	}
	t := newTerm("-", SInt, a, b)
	t.lo, t.hi = subB(a.lo, b.hi), subB(a.hi, b.lo)
	return t
}

func Neg(a *Term) *Term { return Sub(IntConst64(0), a) }

func Mul(a, b *Term) *Term {
	if a.isConst() && b.isConst() {
		return IntConst(new(big.Int).Mul(a.ival, b.ival))
	}
	if b.isConst() {
		a, b = b, a
	}
	if a.isConst() {
		if a.ival.Sign() == 0 {
			return IntConst64(0)
		}
		if a.ival.Cmp(big1) == 0 {
			return b
		}
	}
	t := newTerm("*", SInt, a, b)
	// interval: all four products if bounded
	if a.lo != nil && a.hi != nil && b.lo != nil && b.hi != nil {
		ps := []*big.Int{
			new(big.Int).Mul(a.lo, b.lo), new(big.Int).Mul(a.lo, b.hi),
			new(big.Int).Mul(a.hi, b.lo), new(big.Int).Mul(a.hi, b.hi)}
		lo, hi := ps[0], ps[0]
		for _, p := range ps[1:] {
			lo, hi = minB(lo, p), maxB(hi, p)
		}
		t.lo, t.hi = lo, hi
	} else if a.lo != nil && a.lo.Sign() >= 0 && b.lo != nil && b.lo.Sign() >= 0 {
		t.lo = new(big.Int).Mul(a.lo, b.lo)
	}
	return t
}

// EDiv is SMT-LIB div (Euclidean). For b>0 it is floor division.
func EDiv(a, b *Term) *Term {
	if a.isConst() && b.isConst() && b.ival.Sign() != 0 {
		q, m := new(big.Int).DivMod(a.ival, b.ival, new(big.Int))
		_ = m
		return IntConst(q)
	}
	if b.isConst() && b.ival.Cmp(big1) == 0 {
		return a
	}
	t := newTerm("div", SInt, a, b)
	if b.isConst() && b.ival.Sign() > 0 {
		if a.lo != nil {
			t.lo = new(big.Int).Div(a.lo, b.ival)
		}
		if a.hi != nil {
			t.hi = new(big.Int).Div(a.hi, b.ival)
		}
	} else if a.lo != nil && a.lo.Sign() >= 0 && b.lo != nil && b.lo.Sign() > 0 {
		t.lo = big0
		t.hi = a.hi
	}
	return t
}

// EMod is SMT-LIB mod (result in [0,|b|)).
func EMod(a, b *Term) *Term {
	if a.isConst() && b.isConst() && b.ival.Sign() != 0 {
		_, m := new(big.Int).DivMod(a.ival, b.ival, new(big.Int))
		return IntConst(m)
	}
	if b.isConst() && b.ival.Sign() > 0 && a.lo != nil && a.hi != nil && a.lo.Sign() >= 0 && a.hi.Cmp(b.ival) < 0 {
		return a
	}
	t := newTerm("mod", SInt, a, b)
	t.lo = big0
	if b.isConst() && b.ival.Sign() != 0 {
		t.hi = new(big.Int).Sub(new(big.Int).Abs(b.ival), big1)
	} else if b.hi != nil && b.lo != nil && b.lo.Sign() > 0 {
		t.hi = new(big.Int).Sub(b.hi, big1)
	}
	return t
}

// TDiv is Go's truncated division. Caller guarantees b != 0.
func TDiv(a, b *Term) *Term {
	if a.isConst() && b.isConst() && b.ival.Sign() != 0 {
		return IntConst(new(big.Int).Quo(a.ival, b.ival))
	}
	aNonNeg := a.lo != nil && a.lo.Sign() >= 0
	bPos := b.lo != nil && b.lo.Sign() > 0
	if aNonNeg && bPos {
		return EDiv(a, b)
	}
	if bPos {
		return Ite(Ge(a, IntConst64(0)), EDiv(a, b), Neg(EDiv(Neg(a), b)))
	}
	// general
	return Ite(Ge(a, IntConst64(0)),
		Ite(Gt(b, IntConst64(0)), EDiv(a, b), Neg(EDiv(a, Neg(b)))),
		Ite(Gt(b, IntConst64(0)), Neg(EDiv(Neg(a), b)), EDiv(Neg(a), Neg(b))))
}

// TRem is Go's % (sign follows dividend).
func TRem(a, b *Term) *Term {
	if a.isConst() && b.isConst() && b.ival.Sign() != 0 {
		return IntConst(new(big.Int).Rem(a.ival, b.ival))
	}
	aNonNeg := a.lo != nil && a.lo.Sign() >= 0
	if aNonNeg {
		return EMod(a, b) // mod by |b|
	}
	return Sub(a, Mul(b, TDiv(a, b)))
}

func cmpFold(op string, a, b *Term) *Term {
	if a == b {
		return BoolConst(op == "<=" || op == ">=")
	}
	if a.sort == SInt {
		if a.isConst() && b.isConst() {
			c := a.ival.Cmp(b.ival)
			switch op {
			case "<":
				return BoolConst(c < 0)
			case "<=":
				return BoolConst(c <= 0)
			case ">":
				return BoolConst(c > 0)
			case ">=":
				return BoolConst(c >= 0)
			}
		}
		// interval reasoning
		switch op {
		case "<":
			if a.hi != nil && b.lo != nil && a.hi.Cmp(b.lo) < 0 {
				return tTrue
			}
			if a.lo != nil && b.hi != nil && a.lo.Cmp(b.hi) >= 0 {
				return tFalse
			}
		case "<=":
			if a.hi != nil && b.lo != nil && a.hi.Cmp(b.lo) <= 0 {
				return tTrue
			}
			if a.lo != nil && b.hi != nil && a.lo.Cmp(b.hi) > 0 {
				return tFalse
			}
		case ">":
			return cmpFold("<", b, a)
		case ">=":
			return cmpFold("<=", b, a)
		}
	}
	return newTerm(op, SBool, a, b)
}

func Lt(a, b *Term) *Term { return cmpFold("<", a, b) }
func Le(a, b *Term) *Term { return cmpFold("<=", a, b) }
func Gt(a, b *Term) *Term { return cmpFold(">", a, b) }
func Ge(a, b *Term) *Term { return cmpFold(">=", a, b) }

func Eq(a, b *Term) *Term {
	if a == b {
		return tTrue
	}
	if a.isConst() && b.isConst() {
		switch a.sort {
		case SInt:
			return BoolConst(a.ival.Cmp(b.ival) == 0)
		case SBool:
			return BoolConst(a.bval == b.bval)
		case SStr:
			return BoolConst(a.name == b.name)
		}
	}
	if a.sort == SInt {
		if a.hi != nil && b.lo != nil && a.hi.Cmp(b.lo) < 0 {
			return tFalse
		}
		if a.lo != nil && b.hi != nil && a.lo.Cmp(b.hi) > 0 {
			return tFalse
		}
	}
	if a.sort == SBool {
		if a.isConst() {
			if a.bval {
				return b
			}
			return Not(b)
		}
		if b.isConst() {
			if b.bval {
				return a
			}
			return Not(a)
		}
	}
	return newTerm("=", SBool, a, b)
}

func Not(a *Term) *Term {
	if a.isConst() {
		return BoolConst(!a.bval)
	}
	if a.op == "not" {
		return a.args[0]
	}
	return newTerm("not", SBool, a)
}

func And(ts ...*Term) *Term {
	var out []*Term
	for _, t := range ts {
		if t.isConst() {
			if !t.bval {
				return tFalse
			}
			continue
		}
		out = append(out, t)
	}
	switch len(out) {
	case 0:
		return tTrue
	case 1:
		return out[0]
	}
	return newTerm("and", SBool, out...)
}

func Or(ts ...*Term) *Term {
	var out []*Term
	for _, t := range ts {
		if t.isConst() {
			if t.bval {
				return tTrue
			}
			continue
		}
		out = append(out, t)
	}
	switch len(out) {
	case 0:
		return tFalse
	case 1:
		return out[0]
	}
	return newTerm("or", SBool, out...)
}

func Implies(a, b *Term) *Term { return Or(Not(a), b) }

func Ite(c, a, b *Term) *Term {
	if c.isConst() {
		if c.bval {
			return a
		}
		return b
	}
	if a == b {
		return a
	}
	if a.sort == SBool && a.isConst() && b.isConst() {
		if a.bval && !b.bval {
			return c
		}
		if !a.bval && b.bval {
			return Not(c)
		}
	}
	t := newTerm("ite", a.sort, c, a, b)
	if a.sort == SInt {
		t.lo, t.hi = minB(a.lo, b.lo), maxB(a.hi, b.hi)
	}
	return t
}

// WrapU reduces t modulo 2^bits.
func WrapU(t *Term, bits uint) *Term {
	m := pow2(bits)
	if t.lo != nil && t.hi != nil {
		if t.lo.Sign() >= 0 && t.hi.Cmp(m) < 0 {
			return t
		}
		if t.isConst() {
			return IntConst(new(big.Int).Mod(t.ival, m))
		}
		// within one wrap either side → ite form
		negM := new(big.Int).Neg(m)
		twoM := new(big.Int).Lsh(m, 1)
		if t.lo.Cmp(negM) >= 0 && t.hi.Cmp(twoM) < 0 {
			mt := IntConst(m)
			var r *Term
			if t.lo.Sign() >= 0 {
				r = Ite(Ge(t, mt), Sub(t, mt), t)
			} else if t.hi.Cmp(m) < 0 {
				r = Ite(Lt(t, IntConst64(0)), Add(t, mt), t)
			} else {
				r = Ite(Ge(t, mt), Sub(t, mt), Ite(Lt(t, IntConst64(0)), Add(t, mt), t))
			}
			r.lo, r.hi = big0, new(big.Int).Sub(m, big1)
			return r
		}
	}
	r := EMod(t, IntConst(m))
	return r
}

// WrapS reduces t into the signed range of the given width.
func WrapS(t *Term, bits uint) *Term {
	half := pow2(bits - 1)
	lo := new(big.Int).Neg(half)
	hi := new(big.Int).Sub(half, big1)
	if t.lo != nil && t.hi != nil && t.lo.Cmp(lo) >= 0 && t.hi.Cmp(hi) <= 0 {
		return t
	}
	if t.isConst() {
		m := pow2(bits)
		v := new(big.Int).Add(t.ival, half)
		v.Mod(v, m)
		v.Sub(v, half)
		return IntConst(v)
	}
	r := Sub(WrapU(Add(t, IntConst(half)), bits), IntConst(half))
	r.lo, r.hi = lo, hi
	return r
}

func App(name string, sort Sort, args ...*Term) *Term {
	t := newTerm("app", sort, args...)
	t.name = name
	return t
}

// raw operator term
func Op(op string, sort Sort, args ...*Term) *Term { return newTerm(op, sort, args...) }

func ToReal(a *Term) *Term {
	if a.isConst() {
		return RealConst(realLit(a.ival))
	}
	return newTerm("to_real", SReal, a)
}

func realLit(v *big.Int) string {
	if v.Sign() < 0 {
		return "(- " + new(big.Int).Neg(v).String() + ".0)"
	}
	return v.String() + ".0"
}

func smtInt(v *big.Int) string {
	if v.Sign() < 0 {
		return "(- " + new(big.Int).Neg(v).String() + ")"
	}
	return v.String()
}

func smtStr(s string) string {
	var b strings.Builder
	b.WriteByte('"')
	for i := 0; i < len(s); i++ {
		c := s[i]
		if c == '"' {
			b.WriteString("\"\"")
		} else if c >= 0x20 && c < 0x7f && c != '\\' {
			b.WriteByte(c)
		} else {
			fmt.Fprintf(&b, "\\u{%x}", c)
		}
	}
	b.WriteByte('"')
	return b.String()
}

// ---- serialisation -------------------------------------------------------

// emitter turns terms into SMT-LIB text, naming every non-leaf node once per
// solver epoch via define-fun so DAG sharing is preserved.
type emitter struct {
	defined map[int64]bool
	decls   map[string]Sort
	ufs     map[string]string // uf name -> declared signature
	out     *strings.Builder
	journal bool
	jIDs    []int64
	jDecls  []string
	jUfs    []string
}

func (e *emitter) rollback() {
	for _, id := range e.jIDs {
		delete(e.defined, id)
	}
	for _, d := range e.jDecls {
		delete(e.decls, d)
	}
	for _, d := range e.jUfs {
		delete(e.ufs, d)
	}
	e.jIDs, e.jDecls, e.jUfs = nil, nil, nil
	e.journal = false
}

func newEmitter() *emitter {
	return &emitter{defined: map[int64]bool{}, decls: map[string]Sort{}, ufs: map[string]string{}, out: &strings.Builder{}}
}

func (e *emitter) ref(t *Term) string {
	switch t.op {
	case "const":
		switch t.sort {
		case SInt:
			return smtInt(t.ival)
		case SBool:
			if t.bval {
				return "true"
			}
			return "false"
		case SReal:
			return t.name
		case SStr:
			return smtStr(t.name)
		}
	case "var":
		return t.name
	}
	return fmt.Sprintf("n%d", t.id)
}

// define emits declarations/definitions needed for t (post-order).
func (e *emitter) define(t *Term) {
	switch t.op {
	case "const":
		return
	case "var":
		if _, ok := e.decls[t.name]; !ok {
			e.decls[t.name] = t.sort
			if e.journal {
				e.jDecls = append(e.jDecls, t.name)
			}
			fmt.Fprintf(e.out, "(declare-const %s %s)\n", t.name, t.sort)
			if t.sort == SInt {
				if t.lo != nil {
					fmt.Fprintf(e.out, "(assert (>= %s %s))\n", t.name, smtInt(t.lo))
				}
				if t.hi != nil {
					fmt.Fprintf(e.out, "(assert (<= %s %s))\n", t.name, smtInt(t.hi))
				}
			}
		}
		return
	}
	if e.defined[t.id] {
		return
	}
	// iterative post-order to avoid deep recursion
	type fr struct {
		t *Term
		i int
	}
	stack := []fr{{t, 0}}
	for len(stack) > 0 {
		top := &stack[len(stack)-1]
		if top.i < len(top.t.args) {
			a := top.t.args[top.i]
			top.i++
			if a.op == "const" {
				continue
			}
			if a.op == "var" {
				e.define(a)
				continue
			}
			if !e.defined[a.id] {
				stack = append(stack, fr{a, 0})
			}
			continue
		}
		n := top.t
		stack = stack[:len(stack)-1]
		if e.defined[n.id] {
			continue
		}
		e.defined[n.id] = true
		if e.journal {
			e.jIDs = append(e.jIDs, n.id)
		}
		var sb strings.Builder
		if n.op == "app" {
			if _, ok := e.ufs[n.name]; !ok {
				var as []string
				for _, a := range n.args {
					as = append(as, a.sort.String())
				}
				sig := "(" + strings.Join(as, " ") + ") " + n.sort.String()
				e.ufs[n.name] = sig
				if e.journal {
					e.jUfs = append(e.jUfs, n.name)
				}
				fmt.Fprintf(e.out, "(declare-fun %s %s)\n", n.name, sig)
			}
			if len(n.args) == 0 {
				sb.WriteString(n.name)
			} else {
				sb.WriteString("(" + n.name)
			}
		} else {
			sb.WriteString("(" + n.op)
		}
		for _, a := range n.args {
			sb.WriteByte(' ')
			sb.WriteString(e.ref(a))
		}
		if !(n.op == "app" && len(n.args) == 0) {
			sb.WriteByte(')')
		}
		fmt.Fprintf(e.out, "(define-fun n%d () %s %s)\n", n.id, n.sort, sb.String())
	}
}

func (e *emitter) flush() string {
	s := e.out.String()
	e.out.Reset()
	return s
}

// String renders a term as a self-contained expression (for debugging/evidence).
func (t *Term) String() string {
	var sb strings.Builder
	var rec func(t *Term, depth int)
	rec = func(t *Term, depth int) {
		switch t.op {
		case "const":
			switch t.sort {
			case SInt:
				sb.WriteString(smtInt(t.ival))
			case SBool:
				fmt.Fprintf(&sb, "%v", t.bval)
			default:
				sb.WriteString(t.name)
			}
			return
		case "var":
			sb.WriteString(t.name)
			return
		}
		if depth > 6 {
			sb.WriteString("…")
			return
		}
		op := t.op
		if op == "app" {
			op = t.name
		}
		sb.WriteString("(" + op)
		for _, a := range t.args {
			sb.WriteByte(' ')
			rec(a, depth+1)
		}
		sb.WriteByte(')')
	}
	rec(t, 0)
	return sb.String()
}

// vars collects variable names in t.
func (t *Term) vars(into map[string]*Term) {
	seen := map[int64]bool{}
	var rec func(t *Term)
	rec = func(t *Term) {
		if t.op == "var" {
			into[t.name] = t
			return
		}
		if t.op == "const" || seen[t.id] {
			return
		}
		seen[t.id] = true
		for _, a := range t.args {
			rec(a)
		}
	}
	rec(t)
}

func sortedKeys[V any](m map[string]V) []string {
	ks := make([]string, 0, len(m))
	for k := range m {
		ks = append(ks, k)
	}
	sort.Strings(ks)
	return ks
}
