#!/bin/bash
# last steps: evidence from a clean quick run on the unchanged /repo, regenerated MANIFEST / DESIGN, commit
set -e
cd /verif
test -z "$(git -C /repo status --porcelain)" || { echo "/repo is not clean"; exit 2; }
tools/runall.sh quick | tee /tmp/final_quick.log
if grep -qE "VIOLATION|BROKEN|REPLAY-ERROR" /tmp/final_quick.log; then echo "NOT CLEAN"; exit 1; fi
python3 tools/mkmanifest.py
python3 tools/mkdesign.py
test -z "$(git -C /repo status --porcelain)" || { echo "/repo was modified by the checks"; exit 2; }
git add -A
git commit -qm "Final: evidence from the quick tier on the unchanged tree; regenerated MANIFEST and DESIGN" || true
echo FINAL-DONE
