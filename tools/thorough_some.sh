#!/bin/bash
# usage: LANES=3 tools/thorough_some.sh <repo> C06 C16 ...  — thorough tier of the named checks against a copy of the repository
repo=$1; shift
LANES=${LANES:-2}
cd /verif
one() {
  id=$1; start=$(date +%s)
  out=$(./bin/gosym check $id --tier thorough -repo $repo 2>&1 | grep -E "^(OK|VIOLATION|KNOWN-FINDING|BROKEN|SPURIOUS|CONFORMANCE|REPLAY-ERROR|INCONCLUSIVE)" | cut -c1-300)
  echo "$id ($(( $(date +%s) - start )) s): $out"
}
export -f one; export repo
printf '%s\n' "$@" | xargs -P $LANES -I{} bash -c 'one {}'
echo done
