#!/bin/bash
# thorough tier for every check against a given copy of the repository (default /repo), LANES checks at a time
repo=${1:-/repo}; LANES=${LANES:-1}
cd /verif
one() {
  id=$1; start=$(date +%s)
  out=$(./bin/gosym check $id --tier thorough -repo $repo 2>&1 | grep -E "^(OK|VIOLATION|KNOWN-FINDING|BROKEN|SPURIOUS|CONFORMANCE|REPLAY-ERROR|INCONCLUSIVE)" | cut -c1-300)
  echo "$id ($(( $(date +%s) - start )) s): $out"
}
export -f one; export repo
ls checks | sed 's/.json//' | xargs -P $LANES -I{} bash -c 'one {}'
