#!/bin/bash
# thorough tier for every check against a given copy of the repository (default /repo)
repo=${1:-/repo}
cd /verif
for f in checks/C*.json; do
  id=$(basename $f .json)
  start=$(date +%s)
  out=$(./bin/gosym check $id --tier thorough -repo $repo 2>&1 | grep -E "^(OK|VIOLATION|KNOWN-FINDING|BROKEN|SPURIOUS|CONFORMANCE|REPLAY-ERROR)" | cut -c1-300)
  echo "$id ($(( $(date +%s) - start )) s): $out"
done
