#!/bin/bash
# usage: tools/seedverify.sh <ID> — confirms the seeded change: demo fails on the changed tree, passes on the original
id=$1
export GOFLAGS=-mod=mod GOPROXY=off GOSUMDB=off GOTOOLCHAIN=local
meta=/verif/seeded/$id/meta.json
dir=$(python3 -c "import json;print(json.load(open('$meta'))['demo_package_dir'])")
dir=${dir#/}; dir=${dir#tmp/seed-*/}
cd /repo || exit 2
if [ -n "$(git status --porcelain)" ]; then echo "repo not clean"; exit 2; fi
run() { (cd /repo && timeout 900 go test -vet=off -count=1 -run 'Demo|C[0-9][0-9]' ./$dir/ 2>&1 | tail -3); }
cp /verif/seeded/$id/demo_test.go /repo/$dir/zz_seed_demo_test.go
echo "--- original tree:"; run
git apply /verif/seeded/$id/patch.diff && go build ./... && { echo "--- changed tree:"; run; }
rm -f /repo/$dir/zz_seed_demo_test.go
git checkout -- . && git clean -fdq -- .
