#!/usr/bin/env python3
"""Regenerates /verif/MANIFEST.json from checks/*.json and tools/manifest_meta.json."""
import json, glob, os
root = os.path.dirname(os.path.dirname(os.path.abspath(__file__)))
props = [json.loads(l) for l in open(os.path.join(root, 'properties.jsonl'))]
meta = json.load(open(os.path.join(root, 'tools', 'manifest_meta.json')))
checks, na = [], []
for p in props:
    pid = p['id']
    cfgp = os.path.join(root, 'checks', pid + '.json')
    m = meta.get(pid, {})
    if os.path.exists(cfgp) and not m.get('not_applicable'):
        checks.append({
            "property_id": pid,
            "quick_cmd": f"./bin/gosym check {pid} --tier quick",
            "thorough_cmd": f"./bin/gosym check {pid} --tier thorough",
            "evidence_file": f"/verif/evidence/{pid}.json",
            "replay_cmd_template": "./bin/gosym replay {path}",
            "engine": "gosym",
            "level_claimed": {
                "category": "model_checking",
                "text": m.get("text", "bounded symbolic model checking of the real go/ssa code: every assertion is decided by z3 for all values within the stated bounds; counterexamples are replayed natively"),
                "design_ref": m.get("design_ref", "DESIGN.md section 5/" + pid),
            },
            "level_note": m.get("note", "trusted base: gosym interpreter + intrinsics listed in the evidence file, z3 4.8.12; bounds as stated in checks/%s.json" % pid),
            "technique": "symbolic execution of the real go/ssa code + SMT (z3 4.8.12): inputs, faults, histories, map orders, wall clock and environment are solver variables; every assertion is a query PC and not(assert); counterexamples and sampled completed paths are replayed natively (go test -c -overlay) against the real build",
        })
    else:
        na.append({"property_id": pid, "reason": m.get("not_applicable", "check not built yet (work in progress)")})
man = {
    "version": 1,
    "setup_cmd": "cd /verif/engine && GOFLAGS=-mod=mod GOPROXY=off GOSUMDB=off GOTOOLCHAIN=local go build -o /verif/bin/gosym ./gosym && cd /verif && ./bin/gosym selftest",
    "hooks": {"guard": "verif", "enable": "none needed: harnesses are injected by go/packages overlay (no file of /repo is touched)",
              "baseline_off_cmd": "cd /repo && go test -vet=off -count=1 -timeout 25m ./...", "source_commits": [], "add_only": True},
    "engines": [{"name": "gosym", "path": "/verif/engine", "serves_properties": [c["property_id"] for c in checks],
                 "kind_free_text": "symbolic executor for go/ssa (written here) + z3; harnesses in /verif/harness overlaid onto /repo packages"}],
    "checks": checks,
    "not_applicable": na,
    "notes": "All checks rebuild the SSA of /repo's working tree on every run. Exit 2 + BROKEN-CHECK means the harness no longer applies (does not compile / reachability witness lost), not a violation.",
}
json.dump(man, open(os.path.join(root, 'MANIFEST.json'), 'w'), indent=1)
print(len(checks), "checks,", len(na), "not applicable")
