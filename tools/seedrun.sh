#!/bin/bash
# usage: tools/seedrun.sh <ID> [tier] [check-id]   — applies /verif/seeded/<ID>/patch.diff to /repo, runs the check, reverts.
id=$1; tier=${2:-quick}; chk=${3:-${id%%-*}}
cd /repo || exit 2
if [ -n "$(git status --porcelain)" ]; then echo "repo not clean"; exit 2; fi
git apply /verif/seeded/$id/patch.diff || { echo "patch does not apply"; exit 2; }
cd /verif
./bin/gosym check $chk --tier $tier 2>&1 | grep -E "^(OK|VIOLATION|KNOWN-FINDING|BROKEN|  entry=)" | cut -c1-260
rc=${PIPESTATUS[0]}
cd /repo && git checkout -- . && git clean -fdq -- . 
echo "exit=$rc"
