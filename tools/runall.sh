#!/bin/bash
# runs every registered check at the given tier, one after another; extra arguments go to `gosym check`
tier=${1:-quick}
shift
cd /verif
for f in checks/C*.json; do
  id=$(basename $f .json)
  out=$(./bin/gosym check $id --tier $tier "$@" 2>&1 | grep -E "^(OK|VIOLATION|KNOWN-FINDING|BROKEN|INCONCLUSIVE|SPURIOUS|CONFORMANCE|REPLAY-ERROR|  engine:|  native:)" | cut -c1-400)
  echo "$id: $out"
done
