#!/bin/bash
# runs every registered check at the given tier, one after another
tier=${1:-quick}
cd /verif
rc=0
for f in checks/C*.json; do
  id=$(basename $f .json)
  out=$(./bin/gosym check $id --tier $tier 2>&1 | grep -E "^(OK|VIOLATION|KNOWN-FINDING|BROKEN|INCONCLUSIVE)" )
  echo "$id: $out"
done
