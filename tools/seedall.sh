#!/bin/bash
# runs every seeded change against the check of its property (quick tier) and writes seeded/results.json
cd /verif
tier=${1:-quick}
python3 - <<'PY' > /tmp/seedlist.txt
import glob,os
for d in sorted(glob.glob('/verif/seeded/C*')):
    print(os.path.basename(d))
PY
echo "{" > seeded/results.json.tmp
first=1
for sid in $(cat /tmp/seedlist.txt); do
  out=$(tools/seedrun.sh $sid $tier 2>&1)
  status="missed"
  label=""
  if echo "$out" | grep -q "^VIOLATION"; then
    status="caught"
    label=$(echo "$out" | grep -m1 "label=" | sed 's/.*label=\([^ ]*\).*/\1/')
  elif echo "$out" | grep -q "exit=2"; then
    status="broken-check (exit 2)"
  fi
  [ $first -eq 0 ] && echo "," >> seeded/results.json.tmp
  first=0
  printf ' "%s": {"status": "%s", "label": "%s", "tier": "%s"}' "$sid" "$status" "$label" "$tier" >> seeded/results.json.tmp
  echo "$sid: $status $label"
done
echo "" >> seeded/results.json.tmp
echo "}" >> seeded/results.json.tmp
mv seeded/results.json.tmp seeded/results.json
