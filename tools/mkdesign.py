#!/usr/bin/env python3
"""Regenerates sections 5-9 of /verif/DESIGN.md from checks/*.json, properties.jsonl,
known_findings.json, tools/design_tail.md, tools/design_notes.json and seeded/*."""
import glob
import json
import os
import re

V = '/verif'
props = {}
for line in open(f'{V}/properties.jsonl'):
    p = json.loads(line)
    props[p['id']] = p
known = json.load(open(f'{V}/known_findings.json'))['findings']
notes = {}
if os.path.exists(f'{V}/tools/design_notes.json'):
    notes = json.load(open(f'{V}/tools/design_notes.json'))


def short(entry):
    return entry.split('.')[-1]


out = []
out.append('## 5. Per-property checks (generated from `checks/*.json`)\n')
out.append('Each block lists what the registered commands run: the harness entries (ordinary Go functions\n'
           'overlaid into the named package, executed symbolically by the engine and natively for replay),\n'
           'the bounds of the quick and thorough tiers, the stubs and assumptions that are part of the\n'
           'claim, and what lies outside it. Harness sources are under `harness/<ID>/…`, shared\n'
           'environments under `harness/{skyway,valset,wired,zzverif}`.\n')
for cid in sorted(props):
    p = props[cid]
    cfgp = f'{V}/checks/{cid}.json'
    out.append(f'### {cid} — {p["title"]}\n')
    if not os.path.exists(cfgp):
        out.append('*No check registered.*\n')
        continue
    c = json.load(open(cfgp))
    out.append('**Entries** (package → function; reachability witnesses that must be met):\n')
    for e in c['entries']:
        pkg, fn = e['func'].rsplit('.', 1)
        tiers = (' [' + ','.join(e['tiers']) + ' only]') if e.get('tiers') else ''
        out.append(f'* `{pkg}` → `{fn}`{tiers} — witnesses: {", ".join("`"+r+"`" for r in e.get("reach", []))}')
    out.append('')
    out.append(f'**Quick bound.** {c["bounds"].get("quick", "")}\n')
    out.append(f'**Thorough bound.** {c["bounds"].get("thorough", "")}\n')
    if c.get('stubs'):
        out.append('**Stubs.** ' + '; '.join(c['stubs']) + '.\n')
    if c.get('assumptions'):
        out.append('**Assumptions.** ' + '; '.join(c['assumptions']) + '.\n')
    if c.get('outside'):
        out.append('**Outside the claim.** ' + '; '.join(c['outside']) + '.\n')
    fk = [k for k in known if k['property'] == cid]
    if fk:
        out.append('**Findings.** ' + ' '.join(k['what'] for k in fk) + '\n')
    if cid in notes:
        out.append(notes[cid] + '\n')
    # last evidence numbers, if present
    evp = f'{V}/evidence/{cid}.json'
    if os.path.exists(evp):
        try:
            ev = json.load(open(evp))
            cov = ev['coverage']
            out.append(f'*Last committed run ({ev["tier"]}):* {cov.get("states")} completed paths, {cov.get("obligations")} assertion queries '
                       f'({cov.get("discharged")} discharged), {cov.get("queries")} solver queries in {cov.get("solver_time_s", 0):.0f} s solver time, '
                       f'{cov.get("functions_encoded_total")} functions executed, inconclusive {cov.get("inconclusive")}, wall {ev.get("wall_s", 0):.0f} s.\n')
        except Exception:
            pass

out.append('---------------------------------------------------------------------------------------------\n')
tail = open(f'{V}/tools/design_tail.md').read()
rows = ['| property | commit | what failed (input / history found by the solver) |', '|---|---|---|']
for k in known:
    if k['status'] == 'fixed':
        what = re.sub(r'^fixed: property=\S+ \S+ ', '', k['what'])
        rows.append(f'| {k["property"]} | `{k["commit"]}` | {what} |')
tail = tail.replace('@@FINDINGS@@', '\n'.join(rows))
out.append(tail)

# section 9: seeded changes
out.append('\n---------------------------------------------------------------------------------------------\n')
out.append('## 9. Seeded changes: which checks catch which\n')
out.append('Each directory `seeded/<ID>[-n]/` holds `patch.diff` (applies to `/repo` with `git apply`), the\n'
           'author\'s demonstration (`demo_test.go`: fails on the changed tree, passes on the original) and\n'
           '`meta.json`. The authors were fresh sub-agents given only the text of one property and a private\n'
           'git worktree; they saw nothing of `/verif`. `tools/seedrun.sh <ID> [tier] [check]` applies a patch,\n'
           'runs the check and restores `/repo`; `tools/seedall.sh` does so for all of them and writes\n'
           '`seeded/results.json`, from which this table is generated. "caught" means exit 1 with a natively\n'
           'confirmed `VIOLATION` line; "first run" is the result before the check was strengthened (section 8.3).\n')
res = {}
if os.path.exists(f'{V}/seeded/results.json'):
    res = json.load(open(f'{V}/seeded/results.json'))
first = {}
if os.path.exists(f'{V}/seeded/first_run.json'):
    first = json.load(open(f'{V}/seeded/first_run.json'))
out.append('| seeded change | what was changed | first run | now (quick tier) | violated assertion |')
out.append('|---|---|---|---|---|')
for d in sorted(glob.glob(f'{V}/seeded/C*')):
    sid = os.path.basename(d)
    try:
        m = json.load(open(f'{d}/meta.json'))
    except Exception:
        continue
    r = res.get(sid, {})
    summ = m.get('summary', '').replace('|', '/').replace('\n', ' ')
    if len(summ) > 260:
        summ = summ[:257] + '…'
    out.append(f'| {sid} | {summ} | {first.get(sid, "")} | {r.get("status", "not run")} | {r.get("label", "")} |')
out.append('')

s = open(f'{V}/DESIGN.md').read()
i = s.index('## 5. Per-property')
s = s[:i] + '\n'.join(out) + '\n'
open(f'{V}/DESIGN.md', 'w').write(s)
print('DESIGN.md regenerated:', len(s.splitlines()), 'lines')
