#!/bin/bash
# runs every check (quick tier, no native conformance) once per solver back end and compares verdicts and sat/unsat counts per entry
# usage: tools/solverdiff.sh [repo]      (writes out/solverdiff.txt)
repo=${1:-/repo}
cd /verif
mkdir -p out
: > out/solverdiff.txt
for f in checks/C*.json; do
  id=$(basename $f .json)
  for s in z3 z3-new cvc5; do
    ./bin/gosym check $id --tier quick --solver $s --conform 0 -repo $repo 2>&1 | grep -E "^(entry |OK|VIOLATION|BROKEN)" | sed -E 's/ solver [0-9.]+s wall [0-9.]+s//; s/ wall=[0-9.]+s//; s/, [0-9]+ steps//; s/, [0-9]+ decisions//' > out/sd_$s.txt
  done
  if diff -q out/sd_z3.txt out/sd_z3-new.txt >/dev/null && diff -q out/sd_z3.txt out/sd_cvc5.txt >/dev/null; then
    echo "$id: identical verdicts and query counts on z3 4.8.12, z3 5.1.0, cvc5 ($(tail -1 out/sd_z3.txt))" >> out/solverdiff.txt
  else
    echo "$id: DIFFERENT" >> out/solverdiff.txt
    diff out/sd_z3.txt out/sd_z3-new.txt | head -6 >> out/solverdiff.txt
    diff out/sd_z3.txt out/sd_cvc5.txt | head -6 >> out/solverdiff.txt
  fi
done
rm -f out/sd_*.txt
cat out/solverdiff.txt
