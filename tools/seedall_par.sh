#!/bin/bash
# Like seedall.sh, but one lane per property running in its own scratch worktree of /repo
# (created under $SCRATCH, default /tmp/seedlanes, removed afterwards), LANES lanes at a time.
# Writes seeded/results.json. Evidence files are overwritten by these runs: run tools/runall.sh afterwards.
cd /verif
tier=${1:-quick}; LANES=${LANES:-3}; SCRATCH=${SCRATCH:-/tmp/seedlanes}
mkdir -p $SCRATCH/out
head=$(git -C /repo rev-parse HEAD)
lane() {
  p=$1; wt=$SCRATCH/wt-$p
  git -C /repo worktree add -q --detach $wt $head 2>/dev/null || { git -C $wt checkout -q --detach $head; git -C $wt checkout -- .; }
  for d in /verif/seeded/$p /verif/seeded/$p-*; do
    [ -f $d/patch.diff ] || continue
    sid=$(basename $d)
    ( cd $wt && git checkout -- . && git clean -fdq && git apply $d/patch.diff ) || { echo "$sid: patch does not apply" > $SCRATCH/out/$sid.txt; continue; }
    ./bin/gosym check $p --tier $tier -repo $wt 2>&1 | grep -E "^(OK|VIOLATION|KNOWN-FINDING|BROKEN|  entry=)" | cut -c1-260 > $SCRATCH/out/$sid.txt
    echo "exit=${PIPESTATUS[0]}" >> $SCRATCH/out/$sid.txt
    ( cd $wt && git checkout -- . && git clean -fdq )
  done
  git -C /repo worktree remove --force $wt
}
export -f lane; export SCRATCH tier
ls /verif/checks | sed 's/.json//' | xargs -P $LANES -I{} bash -c 'lane {}'
python3 - <<'PY'
import glob,os,re,json
res={}
for d in sorted(glob.glob('/verif/seeded/C*')):
    sid=os.path.basename(d)
    f=os.environ.get('SCRATCH','/tmp/seedlanes')+'/out/'+sid+'.txt'
    out=open(f).read() if os.path.exists(f) else ''
    status,label='missed',''
    if re.search(r'^VIOLATION',out,re.M):
        status='caught'
        m=re.search(r'label=(\S+)',out)
        label=m.group(1) if m else ''
    elif 'exit=2' in out or not out:
        status='broken-check (exit 2)'
    res[sid]={'status':status,'label':label,'tier':os.environ.get('tier','quick')}
    print(sid,status,label)
json.dump(res,open('/verif/seeded/results.json','w'),indent=0)
PY
rm -rf $SCRATCH
