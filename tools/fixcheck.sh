#!/bin/bash
# for every repaired finding: reverse-apply the fix commit in /repo, run the property's check, expect a VIOLATION; restore
cd /verif
python3 - <<'PY' > /tmp/fixlist.txt
import json
seen=set()
for k in json.load(open('/verif/known_findings.json'))['findings']:
    if k['status']=='fixed' and k['commit'] not in seen:
        seen.add(k['commit']); print(k['property'], k['commit'], k['label'])
PY
while read prop commit label; do
  cd /repo
  if [ -n "$(git status --porcelain)" ]; then echo "repo not clean"; exit 2; fi
  if ! git show $commit | git apply -R 2>/dev/null; then echo "$prop $commit: fix does not reverse-apply cleanly"; git checkout -- .; continue; fi
  cd /verif
  out=$(./bin/gosym check $prop --tier quick 2>&1 | grep -E "^(OK|VIOLATION|BROKEN)" | cut -c1-200)
  cd /repo && git checkout -- . && git clean -fdq -- .
  if echo "$out" | grep -q "^VIOLATION.*"; then
    if echo "$out" | grep -q "$label"; then echo "$prop $commit: caught ($label)"; else echo "$prop $commit: caught (other label) :: $(echo "$out" | head -2 | tr '\n' ' ')"; fi
  else
    echo "$prop $commit: NOT caught :: $out"
  fi
done < /tmp/fixlist.txt
